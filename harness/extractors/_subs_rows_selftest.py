"""Self-test of the `loadSubsRows` reading of harness/extractors/subs.py (exception structure of load_subs' row loop).

usage: /venv/bin/python harness/extractors/_subs_rows_selftest.py [repo]      (exit 0 = every shape read as expected)

The shapes are synthesised from the unchanged load_subs of the given tree: the per-cell loop is wrapped in
`try: with time_limit(tmax): ... except TimeoutException: <handler>` with different saves / handlers.
"""
import ast, os, sys

HERE = os.path.dirname(os.path.abspath(__file__))
sys.path.insert(0, os.path.dirname(HERE))
import extract
from extractors import subs


def wrap(src, save, handler, head="        try:\n            with time_limit(tmax):\n", exc="TimeoutException", late=False):
    lines = src.split("\n")
    a = next(i for i, l in enumerate(lines) if l.startswith("def load_subs("))
    lines[a] = lines[a].replace("bcast_res=True)", "bcast_res=True, tmax=10)")
    s = next(i for i in range(a, len(lines)) if lines[i] == "        for j in range(len(all_subs[i])):")
    e = next(i for i in range(s, len(lines)) if lines[i].startswith("    comm.Barrier()"))
    body = ["        " + l if l.strip() else l for l in lines[s:e]]
    pre = [] if late else ["        " + save]
    mid = head.rstrip("\n").split("\n") + (["                " + save] if late else [])
    post = ["        except %s:" % exc] + ["            " + h for h in handler]
    return "\n".join(lines[:s] + pre + mid + body + post + lines[e:])


CASES = [
    ("alias (the seeded shape)", dict(save="orig_subs = all_subs[i]", handler=["print('TIMED OUT:', fname, orig_subs)", "all_subs[i] = orig_subs"]), (True, "alias")),
    ("snapshot list()", dict(save="orig_subs = list(all_subs[i])", handler=["all_subs[i] = orig_subs"]), (True, "snapshot")),
    ("snapshot [:]", dict(save="orig_subs = all_subs[i][:]", handler=["all_subs[i] = orig_subs"]), (True, "snapshot")),
    ("snapshot .copy()", dict(save="orig_subs = all_subs[i].copy()", handler=["all_subs[i][:] = orig_subs"]), (True, "snapshot")),
    ("snapshot comprehension", dict(save="orig_subs = [c for c in all_subs[i]]", handler=["all_subs[i] = orig_subs"]), (True, "snapshot")),
    ("copy of an alias in the handler", dict(save="orig_subs = all_subs[i]", handler=["all_subs[i] = list(orig_subs)"]), (True, "alias")),
    ("row assigned to itself", dict(save="orig_subs = all_subs[i]", handler=["all_subs[i] = all_subs[i]"]), (True, "alias")),
    ("handler does not restore", dict(save="orig_subs = list(all_subs[i])", handler=["print('TIMED OUT')"]), "error"),
    ("handler does more", dict(save="orig_subs = list(all_subs[i])", handler=["all_subs[i] = orig_subs", "all_subs[i].append('x')"]), "error"),
    ("except Exception", dict(save="orig_subs = list(all_subs[i])", handler=["all_subs[i] = orig_subs"], exc="Exception"), "error"),
    ("snapshot taken inside the region", dict(save="orig_subs = list(all_subs[i])", handler=["all_subs[i] = orig_subs"], late=True), "error"),
]


def main(repo):
    src = open(os.path.join(repo, subs.SIMP)).read()
    bad = 0
    r0 = subs._load_subs(ast.parse(src))[4]
    print("unchanged: timeLimited=%s restoresFrom=%s" % (bool(r0["time_limited"]), r0["restores"][0]))
    for name, kw, want in CASES:
        try:
            r = subs._load_subs(ast.parse(wrap(src, **kw)))[4]
            got = (bool(r["time_limited"]), r["restores"][0])
        except extract.ExtractError as e:
            got = "error"
        print("%-36s %s %s" % (name, got, "" if got == want else "   <-- expected %r" % (want,)))
        bad += got != want
    return 1 if bad else 0


if __name__ == "__main__":
    sys.exit(main(sys.argv[1] if len(sys.argv) > 1 else "/repo"))
