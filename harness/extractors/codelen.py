"""Generated/Codelen.lean: constants, decision sites and the code-length expression of
esr/fitting/test_all_Fisher.py:convert_params (d_list, method_list, Delta/Nsteps expressions, the tests on
Fisher_diag at the fallback and bad-curvature sites, the snapping test and kept mask, the subset-size range,
the k==0 value and the codelen expression as a small numpy-expression AST).  Fail closed."""
import ast
from fractions import Fraction
import extract
from extract import ExtractError, lstr, llist
from extractors import _norm_c05

REL = "esr/fitting/test_all_Fisher.py"
extract.MODELLED.append((REL, None, "convert_params"))
extract.MODELLED.append((REL, None, "main"))

ARRAYS = {"theta_ML": ".theta", "Fisher_diag": ".fisher"}
UNARY_CALLS = {"np.sqrt": "sqrt", "numpy.sqrt": "sqrt", "math.sqrt": "sqrt", "np.log": "log", "numpy.log": "log",
               "math.log": "log", "abs": "abs", "np.abs": "abs", "np.absolute": "abs", "numpy.abs": "abs", "np.fabs": "abs"}
IDENTITY_CALLS = {"np.array", "np.asarray", "numpy.array", "np.atleast_1d", "float"}
SUM_CALLS = {"np.sum", "numpy.sum", "sum"}
BINOPS = {ast.Add: "add", ast.Sub: "sub", ast.Mult: "mul", ast.Div: "div"}
CMPS = {ast.Lt: "lt", ast.LtE: "le", ast.Gt: "gt", ast.GtE: "ge"}


def _lit(node):
    """numeric literal (possibly signed) -> exact (num, den)"""
    sign = 1
    if isinstance(node, ast.UnaryOp) and isinstance(node.op, ast.USub):
        sign, node = -1, node.operand
    if isinstance(node, ast.Constant) and isinstance(node.value, (int, float)) and not isinstance(node.value, bool):
        v = node.value
        if isinstance(v, float) and (v != v or v in (float("inf"), float("-inf"))):
            raise ExtractError("non-finite literal at line %d" % node.lineno)
        fr = Fraction(v) * sign
        return fr.numerator, fr.denominator
    return None


def _fmt_lit(nd):
    n, d = nd
    return ".lit %s %d" % (("(%d)" % n) if n < 0 else str(n), d)


def expr(node, env):
    """python expression -> Lean term of type E (as text, parenthesised when compound)"""
    l = _lit(node)
    if l is not None:
        return "(%s)" % _fmt_lit(l)
    if isinstance(node, ast.Name):
        if node.id in ARRAYS:
            return ARRAYS[node.id]
        if node.id == "k":
            return ".k"
        if node.id in env:
            return env[node.id]
        raise ExtractError("expression uses unknown name %r at line %d" % (node.id, node.lineno))
    if isinstance(node, ast.UnaryOp) and isinstance(node.op, ast.USub):
        return "(.neg %s)" % expr(node.operand, env)
    if isinstance(node, ast.UnaryOp) and isinstance(node.op, ast.UAdd):
        return expr(node.operand, env)
    if isinstance(node, ast.BinOp) and type(node.op) in BINOPS:
        return "(.%s %s %s)" % (BINOPS[type(node.op)], expr(node.left, env), expr(node.right, env))
    if isinstance(node, ast.Call) and not node.keywords and len(node.args) == 1:
        f = ast.unparse(node.func)
        if f in UNARY_CALLS:
            return "(.%s %s)" % (UNARY_CALLS[f], expr(node.args[0], env))
        if f in IDENTITY_CALLS:
            return expr(node.args[0], env)
        if f in SUM_CALLS:
            return "(.sum %s)" % expr(node.args[0], env)
    raise ExtractError("expression not modelled at line %d: %s" % (getattr(node, "lineno", 0), ast.unparse(node)[:80]))


def _strip(t):
    """drop one outer pair of parentheses of a generated term"""
    return t[1:-1] if t.startswith("(") and t.endswith(")") else t


# ---- a tiny type check: arrays only below np.sum --------------------------------------------------------------
def _tokens_ok_scalar(term):
    """term is the Lean text; a scalar expression mentions .theta/.fisher only inside a `.sum (` group"""
    depth, sum_depths, i = 0, [], 0
    while i < len(term):
        c = term[i]
        if c == "(":
            depth += 1
            if term.startswith("(.sum ", i):
                sum_depths.append(depth)
        elif c == ")":
            if sum_depths and sum_depths[-1] == depth:
                sum_depths.pop()
            depth -= 1
        elif term.startswith(".theta", i) or term.startswith(".fisher", i):
            if not sum_depths:
                return False
        i += 1
    return True


def elem_test(node, arr):
    """`ARR <op> const`, np.isnan(ARR), np.isinf(ARR) -> Lean Test text"""
    if isinstance(node, ast.Compare) and len(node.ops) == 1 and isinstance(node.left, ast.Name) and node.left.id == arr:
        if type(node.ops[0]) not in CMPS:
            raise ExtractError("comparison %s on %s not modelled (line %d)" % (type(node.ops[0]).__name__, arr, node.lineno))
        l = _lit(node.comparators[0])
        if l is None:
            raise ExtractError("comparison of %s with a non-literal at line %d" % (arr, node.lineno))
        n, d = l
        return ".cmp .%s %s %d" % (CMPS[type(node.ops[0])], ("(%d)" % n) if n < 0 else str(n), d)
    if isinstance(node, ast.Call) and len(node.args) == 1 and isinstance(node.args[0], ast.Name) and node.args[0].id == arr:
        f = ast.unparse(node.func)
        if f in ("np.isnan", "numpy.isnan"):
            return ".isnan"
        if f in ("np.isinf", "numpy.isinf"):
            return ".isinf"
    raise ExtractError("test on %s not modelled at line %d: %s" % (arr, getattr(node, "lineno", 0), ast.unparse(node)[:80]))


def any_of(test, arr):
    """`(np.sum(T1) > 0) or (np.sum(T2) > 0) ...` -> [Test]; also a single term"""
    terms = test.values if isinstance(test, ast.BoolOp) and isinstance(test.op, ast.Or) else [test]
    out = []
    for t in terms:
        if not (isinstance(t, ast.Compare) and len(t.ops) == 1 and isinstance(t.ops[0], ast.Gt) and _lit(t.comparators[0]) == (0, 1)
                and isinstance(t.left, ast.Call) and ast.unparse(t.left.func) in SUM_CALLS and len(t.left.args) == 1):
            raise ExtractError("any-of term not of the form np.sum(test) > 0 at line %d: %s" % (t.lineno, ast.unparse(t)[:80]))
        out.append(elem_test(t.left.args[0], arr))
    return out


def _mentions(node, name):
    return any(isinstance(n, ast.Name) and n.id == name for n in ast.walk(node))


def _step(node):
    """a d_list entry -> h with step = 10^(h/2)"""
    import math
    if isinstance(node, ast.Constant) and isinstance(node.value, float) and node.value > 0:
        e = round(math.log10(node.value))
        if float("1e%d" % e) == node.value:
            return 2 * e
    if isinstance(node, ast.BinOp) and isinstance(node.op, ast.Pow) and _lit(node.left) == (10, 1):
        l = _lit(node.right)
        if l is not None:
            h = Fraction(l[0], l[1]) * 2
            if h.denominator == 1:
                return int(h)
    raise ExtractError("d_list entry not a (half-)integer power of ten at line %d: %s" % (node.lineno, ast.unparse(node)))


@extract.extractor("Codelen")
def gen(stage):
    tree = extract._parse(stage, REL)
    fn = extract.find_def(tree, "convert_params")
    L = lambda nodes: ",".join(str(n.lineno) for n in nodes)

    # module flag
    rel = [n for n in tree.body if isinstance(n, ast.Assign) and len(n.targets) == 1 and isinstance(n.targets[0], ast.Name)
           and n.targets[0].id == "use_relative_dx"]
    if len(rel) != 1 or not isinstance(rel[0].value, ast.Constant) or not isinstance(rel[0].value.value, bool):
        raise ExtractError("use_relative_dx is not a single module-level boolean")

    assigns = {}
    for n in ast.walk(fn):
        if isinstance(n, ast.Assign) and len(n.targets) == 1 and isinstance(n.targets[0], ast.Name):
            assigns.setdefault(n.targets[0].id, []).append(n)

    def one(name):
        if name not in assigns:
            raise ExtractError("convert_params: no assignment to %s" % name)
        return assigns[name]

    dl = one("d_list")
    if len(dl) != 1 or not isinstance(dl[0].value, ast.List):
        raise ExtractError("d_list is not assigned once to a list")
    steps = [_step(e) for e in dl[0].value.elts]
    ml = one("method_list")
    if len(ml) != 1:
        raise ExtractError("method_list assigned more than once")
    methods = ast.literal_eval(ml[0].value)
    if not (isinstance(methods, list) and all(isinstance(m, str) for m in methods)):
        raise ExtractError("method_list is not a list of strings")

    # Delta, Nsteps: every assignment must be the same expression
    deltas = sorted(one("Delta"), key=lambda n: n.lineno)
    dts = set(expr(n.value, {}) for n in deltas)
    if len(dts) != 1:
        raise ExtractError("the assignments to Delta (lines %s) differ" % L(deltas))
    delta = dts.pop()
    nst = sorted(one("Nsteps"), key=lambda n: n.lineno)
    nts = set(expr(n.value, {"Delta": delta}) for n in nst)
    if len(nts) != 1:
        raise ExtractError("the assignments to Nsteps (lines %s) differ" % L(nst))
    nsteps = nts.pop()
    for t_, nm in ((delta, "Delta"), (nsteps, "Nsteps")):
        if "(.sum" in t_ or ".k" in t_.replace(".kZero", ""):
            raise ExtractError("%s is not element-wise" % nm)

    # top-level ifs on Fisher_diag: first = fallback (line 121), second = bad curvature (line 180)
    fis = [n for n in fn.body if isinstance(n, ast.If) and _mentions(n.test, "Fisher_diag")]
    if len(fis) != 2:
        raise ExtractError("expected two top-level tests on Fisher_diag (fallback, bad curvature), found %d" % len(fis))
    fb_if, bad_if = fis
    fallback = any_of(fb_if.test, "Fisher_diag")
    bad = any_of(bad_if.test, "Fisher_diag")
    if not (len(bad_if.body) == 2 and not bad_if.orelse and ast.unparse(bad_if.body[0]) == "codelen = np.nan"
            and isinstance(bad_if.body[1], ast.Return)):
        raise ExtractError("bad-curvature branch (line %d) is not `codelen = np.nan; return ...`" % bad_if.lineno)

    # snapping block
    snaps = [n for n in fn.body if isinstance(n, ast.If) and _mentions(n.test, "Nsteps")]
    if len(snaps) != 1:
        raise ExtractError("expected one top-level test on Nsteps, found %d" % len(snaps))
    sb = snaps[0]
    head = any_of(sb.test, "Nsteps")
    if len(head) != 1:
        raise ExtractError("snapping test at line %d is not a single np.sum(Nsteps ? c) > 0" % sb.lineno)
    snap_sites, kept_sites = [(head[0], sb.lineno)], []
    kept_assign = set()
    for n in ast.walk(sb):
        if isinstance(n, ast.Assign) and isinstance(n.targets[0], ast.Name) and n.targets[0].id == "kept_mask" \
                and isinstance(n.value, ast.Compare):
            kept_assign.add(id(n.value))
            kept_sites.append((elem_test(n.value, "Nsteps"), n.lineno))
    head_cmp = sb.test.left.args[0] if isinstance(sb.test, ast.Compare) else None
    for n in ast.walk(sb):
        if isinstance(n, ast.Compare) and isinstance(n.left, ast.Name) and n.left.id == "Nsteps" and id(n) not in kept_assign \
                and n is not head_cmp:
            snap_sites.append((elem_test(n, "Nsteps"), n.lineno))
    if len(set(s for s, _ in snap_sites)) != 1:
        raise ExtractError("the snapping tests on Nsteps differ: %r" % (snap_sites,))
    if len(snap_sites) < 4:
        raise ExtractError("expected the snapping test at 4 sites (test, zeroing, k decrement, try_idx), found %d" % len(snap_sites))
    if len(set(s for s, _ in kept_sites)) != 1:
        raise ExtractError("kept_mask is not assigned from exactly one comparison of Nsteps: %r" % (kept_sites,))

    # every `if` inside the snapping block is np.isfinite(negloglike), k<0 or k==0
    guards = []
    kzero = None
    for n in ast.walk(sb):
        if isinstance(n, ast.If) and n is not sb:
            t = ast.unparse(n.test)
            if t == "np.isfinite(negloglike)":
                guards.append(n.lineno)
            elif t == "k < 0":
                pass
            elif t == "k == 0":
                if not (len(n.body) == 2 and isinstance(n.body[0], ast.Assign) and ast.unparse(n.body[0].targets[0]) == "codelen"
                        and isinstance(n.body[1], ast.Return) and _lit(n.body[0].value) is not None):
                    raise ExtractError("k==0 branch (line %d) is not `codelen = <literal>; return ...`" % n.lineno)
                kzero = (_lit(n.body[0].value), n.lineno)
            else:
                raise ExtractError("unrecognised test inside the snapping block at line %d: %s" % (n.lineno, t[:60]))
    if len(guards) != 3:
        raise ExtractError("expected np.isfinite(negloglike) at 3 sites in the snapping block, found %d" % len(guards))
    if kzero is None:
        raise ExtractError("k==0 branch not found")

    # subset sizes
    fors = [n for n in ast.walk(sb) if isinstance(n, ast.For) and isinstance(n.target, ast.Name) and n.target.id == "r"]
    if len(fors) != 1:
        raise ExtractError("subset-size loop `for r in ...` not found once")
    it = fors[0].iter
    rev = False
    if isinstance(it, ast.Call) and ast.unparse(it.func) == "reversed" and len(it.args) == 1:
        rev, it = True, it.args[0]
    if not (isinstance(it, ast.Call) and ast.unparse(it.func) == "range" and len(it.args) == 2
            and ast.unparse(it.args[1]) == "len(try_idx)" and _lit(it.args[0]) is not None and _lit(it.args[0])[1] == 1
            and _lit(it.args[0])[0] >= 0):
        raise ExtractError("subset-size range at line %d is not [reversed](range(<nat>, len(try_idx)))" % fors[0].lineno)
    lo = _lit(it.args[0])[0]

    # code length: the last top-level assignment to codelen
    cls = [n for n in fn.body if isinstance(n, ast.Assign) and ast.unparse(n.targets[0]) == "codelen"]
    if len(cls) != 1:
        raise ExtractError("expected one top-level assignment to codelen, found %d" % len(cls))
    codelen = expr(cls[0].value, {})
    if not _tokens_ok_scalar(codelen):
        raise ExtractError("codelen expression (line %d) uses an array outside np.sum" % cls[0].lineno)

    src = lambda node: ast.unparse(node).replace("-/", "- /").replace("/-", "/ -").replace("\n", " ")
    t = extract.header("Codelen", [REL + ":convert_params"])
    t += ("/-- numpy expression of `convert_params` over the per-parameter arrays `theta_ML`, `Fisher_diag` and the\n"
          "    integer `k`; `lit n d` is the exact value n/d of a Python numeric literal (12. = 12/1, 0.5 = 1/2). -/\n"
          "inductive E where\n  | lit (num : Int) (den : Nat)\n  | k | theta | fisher\n"
          "  | neg (a : E) | abs (a : E) | log (a : E) | sqrt (a : E)\n"
          "  | add (a b : E) | sub (a b : E) | mul (a b : E) | div (a b : E)\n  | sum (a : E)\n"
          "  deriving Repr, DecidableEq\n\n"
          "inductive Cmp where | lt | le | gt | ge deriving Repr, DecidableEq\n\n"
          "/-- element test `ARRAY cmp num/den`, `np.isnan(ARRAY)`, `np.isinf(ARRAY)` -/\n"
          "inductive Test where\n  | cmp (c : Cmp) (num : Int) (den : Nat)\n  | isnan | isinf\n  deriving Repr, DecidableEq\n\n")
    t += "/-- fallback step sizes `d_list`, each as h with step = 10^(h/2)  -- test_all_Fisher.py:%d -/\n" % dl[0].lineno
    t += "def dList : List Int := %s\n" % llist(str(h) for h in steps)
    t += "/-- `method_list`  -- test_all_Fisher.py:%d -/\n" % ml[0].lineno
    t += "def methodList : List String := %s\n" % llist(lstr(m) for m in methods)
    t += "/-- module flag `use_relative_dx`  -- test_all_Fisher.py:%d -/\n" % rel[0].lineno
    t += "def useRelativeDx : Bool := %s\n\n" % ("true" if rel[0].value.value else "false")
    t += "/-- `Delta = %s`  -- test_all_Fisher.py:%s -/\n" % (src(deltas[0].value), L(deltas))
    t += "def deltaExpr : E := %s\n" % _strip(delta)
    t += "/-- `Nsteps = %s` with Delta inlined  -- test_all_Fisher.py:%s -/\n" % (src(nst[0].value), L(nst))
    t += "def nstepsExpr : E := %s\n\n" % _strip(nsteps)
    t += "/-- any-of tests on `Fisher_diag` that trigger the step-size fallback  -- test_all_Fisher.py:%d -/\n" % fb_if.lineno
    t += "def fallbackTests : List Test := %s\n" % llist(fallback)
    t += "/-- any-of tests on `Fisher_diag` that make the code length NaN  -- test_all_Fisher.py:%d -/\n" % bad_if.lineno
    t += "def badTests : List Test := %s\n" % llist(bad)
    t += "/-- the snapping test on `Nsteps`  -- test_all_Fisher.py:%s -/\n" % ",".join(str(l) for _, l in sorted(snap_sites, key=lambda s: s[1]))
    t += "def snapTest : Test := %s\n" % snap_sites[0][0]
    t += "/-- `kept_mask = Nsteps ? c`  -- test_all_Fisher.py:%s -/\n" % ",".join(str(l) for _, l in kept_sites)
    t += "def keptTest : Test := %s\n" % kept_sites[0][0]
    t += "/-- subset sizes `[reversed](range(lo, len(try_idx)))`  -- test_all_Fisher.py:%d -/\n" % fors[0].lineno
    t += "def searchLo : Nat := %d\ndef searchReversed : Bool := %s\n" % (lo, "true" if rev else "false")
    t += "/-- `codelen` when `k==0`  -- test_all_Fisher.py:%d -/\n" % kzero[1]
    t += "def kZeroCodelen : E := %s\n\n" % _fmt_lit(kzero[0])
    t += "/-- the code length `%s`  -- test_all_Fisher.py:%d -/\n" % (src(cls[0].value), cls[0].lineno)
    t += "def codelenExpr : E := %s\n" % _strip(codelen)
    t += extract.footer("Codelen")
    return t


@extract.extractor("FisherAlias")
def gen_alias(stage):
    """Generated/FisherAlias.lean (C07c): a table of its own, so that it is regenerated also where the expression extraction above fails"""
    tree = extract._parse(stage, REL)
    cp = extract.find_def(tree, "convert_params")
    t = extract.header("FisherAlias", [REL + ":main", REL + ":convert_params"])
    t += alias_table(tree, cp)
    t += extract.footer("FisherAlias")
    return t


def alias_table(tree, cp):
    """The in-place writes of the Fisher stage and where the written arrays come from (C07c): `convert_params` analysed as a whole
    function (origin of a parameter = the caller's object), the per-function loop of `main` analysed as match.main is for C05
    (_norm_c05.analyse), and the two joined at the call sites of `convert_params` inside the loop."""
    mn = extract.find_def(tree, "main")
    loops = [n for n in mn.body if isinstance(n, ast.For) and ast.unparse(n.iter) == "range(len(fcn_list_proc))"]
    if len(loops) != 1:
        raise ExtractError("test_all_Fisher.main: loop `for i in range(len(fcn_list_proc))` not found once")
    loop = loops[0]
    info = {}
    mrows, own = _norm_c05.analyse(mn, loop, watch={"convert_params"}, info=info)
    crows = _norm_c05.analyse_function(cp)
    params = [a.arg for a in cp.args.args]
    calls = sorted(info["calls"].items())
    if not calls:
        raise ExtractError("test_all_Fisher.main: no call of convert_params inside the loop over the functions")
    for (ln, _), args in calls:
        if len(args) > len(params):
            raise ExtractError("test_all_Fisher.main line %d: more positional arguments than convert_params has parameters" % ln)
    for n in ast.walk(loop):
        if isinstance(n, ast.Call) and ast.unparse(n.func) == "convert_params" and any(k.arg in params for k in n.keywords if k.arg != "max_param"):
            raise ExtractError("test_all_Fisher.main line %d: array argument of convert_params passed by keyword" % n.lineno)
    # attempts: call in the body of a `try`, call in its `except NameError` handler
    first, retry = [], []
    for tr in [n for n in ast.walk(loop) if isinstance(n, ast.Try)]:
        inb = [c.lineno for b in tr.body for c in ast.walk(b) if isinstance(c, ast.Call) and ast.unparse(c.func) == "convert_params"]
        for h in tr.handlers:
            inh = [c.lineno for b in h.body for c in ast.walk(b) if isinstance(c, ast.Call) and ast.unparse(c.func) == "convert_params"]
            if inb and inh:
                first += inb
                retry += inh
    seen = [ln for (ln, _), _ in calls]
    if sorted(set(first + retry)) != sorted(seen) or len(first) != 1 or len(retry) > 1:
        raise ExtractError("test_all_Fisher.main: calls of convert_params at lines %r are not (one first attempt, at most one retry in its handler)" % seen)
    ownrow = info["ownrow"]

    def kind(d, f):
        return "fresh" if f else ("ownSlot" if d in ownrow else "shared")
    ents = []            # (fn, target, origin, kind, call line, lines)
    for t_, d, f, ls in mrows:
        ents.append(("main", t_, d, kind(d, f), 0, ls))
    retry_reads = False
    slot_tables = set()
    for t_, d, f, ls in crows:
        a = _norm_c05.arg_of(d)
        if f or a is None:
            ents.append(("convert_params", t_, d, "fresh" if f else "shared", 0, ls))
            continue
        j = params.index(a)
        for (ln, _), args in calls:
            if j >= len(args):
                raise ExtractError("test_all_Fisher.main line %d: argument %s of convert_params not passed positionally" % (ln, a))
            for d2, f2 in sorted(args[j]):
                k2 = kind(d2, f2)
                ents.append(("convert_params", t_, "%s <- main line %d: %s" % (d.split(" = ")[0] if " = " in d else a, ln, d2), k2, ln, ls))
                if k2 == "ownSlot":
                    slot_tables.add(d2.split(" of ")[-1].split(" (")[0])
                if ln in retry and not f2:
                    retry_reads = True
    if not any(e[1] == "theta_ML" for e in ents):
        raise ExtractError("convert_params: no in-place write to theta_ML found (zero-snapping statement not recognised)")
    # who else reads the slot tables: inside the loop only as T[i, ...]; not at all after the loop
    other_rows, after = False, False
    post = mn.body[mn.body.index(loop) + 1:]
    for T in sorted(slot_tables):
        ok_ids = set()
        for n in ast.walk(loop):
            if isinstance(n, ast.Subscript) and isinstance(n.value, ast.Name) and n.value.id == T:
                i0 = n.slice.elts[0] if isinstance(n.slice, ast.Tuple) and n.slice.elts else n.slice
                if isinstance(i0, ast.Name) and i0.id == loop.target.id:
                    ok_ids.add(id(n.value))
        for n in ast.walk(loop):
            if isinstance(n, ast.Name) and n.id == T and id(n) not in ok_ids:
                other_rows = True
        for s_ in post:
            if any(isinstance(n, ast.Name) and n.id == T for n in ast.walk(s_)):
                after = True
    ents.sort(key=lambda e: (e[0], e[1], e[4], e[2]))
    t = ("\n/-! ### C07c: in-place writes of the Fisher stage (`main` loop + `convert_params`) and the origin of the written arrays\n"
         "`fresh` = a new array local to the call; `ownSlot` = (a view of) ROW i of a table bound before the loop, i the loop variable: the\n"
         "row's own stage-1 slot; `shared` = anything else that outlives the call (another row, a whole table, a module-level array, an\n"
         "object not known to be new).  Writes into the row's own OUTPUT slot (`codelen[i]`, `params[i,:]`, ...: %d statements) are not\n"
         "listed.  `callLine` = the call of `convert_params` in `main` through which the written argument arrives (0 = not an argument).\n"
         "Rules: harness/extractors/_norm_c05.py. -/\n" % own)
    t += "inductive WOrigin where | fresh | ownSlot | shared deriving Repr, DecidableEq\n\n"
    t += "structure FisherWrite where\n  fn : String\n  target : String\n  origin : String\n  kind : WOrigin\n  callLine : Nat\n  deriving Repr, DecidableEq\n\n"
    t += "def fisherWrites : List FisherWrite := [\n"
    t += "\n".join("  ⟨%s, %s, %s, .%s, %d⟩%s   -- line%s %s" % (lstr(e[0]), lstr(e[1]), lstr(e[2]), e[3], e[4], "," if j + 1 < len(ents) else "",
                                                              "s" if len(e[5]) > 1 else "", ", ".join(map(str, e[5]))) for j, e in enumerate(ents))
    t += "\n]\n"
    t += "/-- every array written in place is new inside the call or the row's own stage-1 slot -/\n"
    t += "def fisherWritesRowLocal : Bool := fisherWrites.all (fun w => w.kind != .shared)\n"
    t += "/-- the tables whose row i is written in place by row i -/\ndef slotTables : List String := %s\n" % llist(lstr(x) for x in sorted(slot_tables))
    t += "/-- inside the loop a slot table is used otherwise than as `T[i, ...]` (i the loop variable) -/\ndef slotReadByOtherRows : Bool := %s\n" % ("true" if other_rows else "false")
    t += "/-- a slot table is used after the loop (the snapped stage-1 values would reach the output through it) -/\ndef slotReadAfterLoop : Bool := %s\n" % ("true" if after else "false")
    t += "/-- lines of the calls of convert_params: first attempt, retry inside `except NameError` -/\ndef attemptCalls : List Nat := %s\n" % llist(str(x) for x in first + retry)
    t += ("/-- the retry receives an object that the first attempt may have written in place (same variable, bound once before the `try`,\n"
          "not fresh): the second attempt starts from the vector as the first attempt LEFT it -/\n")
    t += "def retryReadsSlot : Bool := %s\n" % ("true" if retry_reads else "false")
    return t
