"""Extractor for C12: the two sympy symbol tables -> lean/ESRVerif/Generated/SymTab.lean.

generation table : `sympy_locs` of esr/fitting/sympy_symbols.py (the dict that simplifier.initial_sympify and
                   generator.string_to_expr hand to sympy.sympify; both uses are checked here)
fitting table    : the literal `locals={...}` of every `run_sympify` in esr/fitting/likelihood.py, values resolved
                   through the `from esr.fitting.sympy_symbols import ...` of that file.

Each entry becomes a small lambda term (ESR.SymTerm.LTerm).  Fail closed on any unrecognised shape."""
import ast
import extract
from extract import ExtractError, lstr

SYMS = "esr/fitting/sympy_symbols.py"
LIKE = "esr/fitting/likelihood.py"
SIMP = "esr/generation/simplifier.py"
GENR = "esr/generation/generator.py"

extract.MODELLED.extend([
    ("esr/generation/custom_printer.py", "ESRPrinter", "parenthesize"),
    ("esr/generation/custom_printer.py", "ESRPrinter", "stringify"),
    ("esr/generation/custom_printer.py", "ESRPrinter", "_print_Add"),
    ("esr/generation/custom_printer.py", "ESRPrinter", "_print_Mul"),
    ("esr/generation/custom_printer.py", "ESRPrinter", "_print_Pow"),
    ("esr/generation/custom_printer.py", "ESRPrinter", "_print_Function"),
    ("esr/generation/custom_printer.py", "ESRPrinter", "_print_Integer"),
    ("esr/generation/custom_printer.py", "ESRPrinter", "_print_Rational"),
    ("esr/generation/custom_printer.py", "ESRPrinter", "_print_Float"),
    ("esr/generation/custom_printer.py", "ESRPrinter", "_print_Symbol"),
])

SYMPY_FUNCS = {"Abs", "sqrt", "log", "exp", "sin", "cos", "tan"}


def _is_sympy_attr(n, name=None):
    return isinstance(n, ast.Attribute) and isinstance(n.value, ast.Name) and n.value.id == "sympy" and \
        (name is None or n.attr == name)


def _int(n):
    if isinstance(n, ast.Constant) and isinstance(n.value, int) and not isinstance(n.value, bool):
        return n.value
    if isinstance(n, ast.UnaryOp) and isinstance(n.op, ast.USub):
        v = _int(n.operand)
        return None if v is None else -v
    return None


def _term(n, params, where):
    """Python expression of a Lambda body -> LTerm source text."""
    def rec(m):
        return _term(m, params, where)
    if isinstance(n, ast.Name):
        if n.id in params:
            return "(.arg %d)" % params.index(n.id)
        raise ExtractError("%s: free name %s in Lambda body" % (where, n.id))
    v = _int(n)
    if v is not None:
        return "(.int (%d))" % v
    if isinstance(n, ast.BinOp):
        op = {ast.Mult: "mul", ast.Div: "div", ast.Add: "add", ast.Sub: "sub", ast.Pow: "pow"}.get(type(n.op))
        if op is None:
            raise ExtractError("%s: operator %s" % (where, type(n.op).__name__))
        return "(.%s %s %s)" % (op, rec(n.left), rec(n.right))
    if isinstance(n, ast.UnaryOp) and isinstance(n.op, ast.USub):
        return "(.neg %s)" % rec(n.operand)
    if isinstance(n, ast.Call) and _is_sympy_attr(n.func):
        f = n.func.attr
        kws = {k.arg: k.value for k in n.keywords}
        if set(kws) - {"evaluate"}:
            raise ExtractError("%s: keyword %s in sympy.%s" % (where, sorted(kws), f))
        if "evaluate" in kws and not (isinstance(kws["evaluate"], ast.Constant) and kws["evaluate"].value in (True, False)):
            raise ExtractError("%s: non-literal evaluate= in sympy.%s" % (where, f))
        if f == "Pow" and len(n.args) == 2:
            return "(.pow %s %s)" % (rec(n.args[0]), rec(n.args[1]))
        if f == "log" and len(n.args) == 2:
            return "(.log2 %s %s)" % (rec(n.args[0]), rec(n.args[1]))
        if f in SYMPY_FUNCS and len(n.args) == 1:
            return "(.app %s %s)" % (lstr(f), rec(n.args[0]))
    raise ExtractError("%s: unrecognised Lambda body %s" % (where, ast.unparse(n)))


def _module_env(tree, rel):
    """name -> Entry source text, for the module-level assignments of sympy_symbols.py."""
    env, span = {}, {}
    for st in tree.body:
        if not isinstance(st, ast.Assign) or len(st.targets) != 1:
            continue
        tgt, val = st.targets[0], st.value
        where = "%s:%d" % (rel, st.lineno)
        # x, y = sympy.symbols('x y', positive=True)
        if isinstance(val, ast.Call) and _is_sympy_attr(val.func, "symbols"):
            if not (len(val.args) == 1 and isinstance(val.args[0], ast.Constant) and isinstance(val.args[0].value, str)):
                raise ExtractError("%s: symbols() call shape" % where)
            names = val.args[0].value.replace(",", " ").split()
            assume = sorted(k.arg for k in val.keywords if isinstance(k.value, ast.Constant) and k.value.value is True)
            if len(assume) != len(val.keywords):
                raise ExtractError("%s: symbols() assumptions not literal True" % where)
            tg = [tgt] if isinstance(tgt, ast.Name) else list(getattr(tgt, "elts", []))
            if len(tg) != len(names) or not all(isinstance(t, ast.Name) for t in tg):
                raise ExtractError("%s: symbols() target shape" % where)
            for t, nm in zip(tg, names):
                env[t.id] = "(.symbol %s %s)" % (lstr(nm), lstr(",".join(assume)))
                span[t.id] = where
            continue
        if not isinstance(tgt, ast.Name):
            continue
        # f = sympy.Lambda(a, body) | sympy.Lambda((a, b), body)
        if isinstance(val, ast.Call) and _is_sympy_attr(val.func, "Lambda"):
            if len(val.args) != 2 or val.keywords:
                raise ExtractError("%s: Lambda shape" % where)
            p = val.args[0]
            if isinstance(p, ast.Name):
                params = [p.id]
            elif isinstance(p, ast.Tuple) and all(isinstance(e, ast.Name) for e in p.elts):
                params = [e.id for e in p.elts]
            else:
                raise ExtractError("%s: Lambda parameters" % where)
            if len(set(params)) != len(params):
                raise ExtractError("%s: repeated Lambda parameter" % where)
            env[tgt.id] = "(.lam %d %s)" % (len(params), _term(val.args[1], params, where))
            span[tgt.id] = where
        elif _is_sympy_attr(val):
            env[tgt.id] = "(.func %s)" % lstr(val.attr)
            span[tgt.id] = where
        elif isinstance(val, ast.Name) and val.id in env:
            env[tgt.id] = env[val.id]
            span[tgt.id] = where
    return env, span


def _dict_entries(d, env, where):
    if not isinstance(d, ast.Dict):
        raise ExtractError("%s: locals is not a literal dict" % where)
    out = []
    for k, v in zip(d.keys, d.values):
        if not (isinstance(k, ast.Constant) and isinstance(k.value, str)):
            raise ExtractError("%s: non-string key" % where)
        if isinstance(v, ast.Name):
            if v.id not in env:
                raise ExtractError("%s: value %s of key %r not resolvable" % (where, v.id, k.value))
            out.append((k.value, env[v.id]))
        elif _is_sympy_attr(v):
            out.append((k.value, "(.func %s)" % lstr(v.attr)))
        else:
            raise ExtractError("%s: value of key %r: %s" % (where, k.value, ast.unparse(v)))
    if len(set(k for k, _ in out)) != len(out):
        raise ExtractError("%s: duplicate key" % where)
    return out


def _table(name, entries, comment):
    s = "/-- %s -/\ndef %s : Table := [\n" % (comment, name)
    s += ",\n".join("  (%s, %s)" % (lstr(k), v) for k, v in entries)
    return s + "\n]\n\n"


def _uses_sympy_locs(fn, where):
    """the function must bind a name to `sympy_locs` (or default to it) and pass it as `locals=` to sympy.sympify"""
    bound = set()
    for n in ast.walk(fn):
        if isinstance(n, ast.Assign) and isinstance(n.value, ast.Name) and n.value.id == "sympy_locs":
            bound |= {t.id for t in n.targets if isinstance(t, ast.Name)}
    ok = False
    for n in ast.walk(fn):
        if isinstance(n, ast.Call) and _is_sympy_attr(n.func, "sympify"):
            for k in n.keywords:
                if k.arg == "locals" and isinstance(k.value, ast.Name) and (k.value.id in bound or k.value.id == "sympy_locs"):
                    ok = True
    if not ok:
        raise ExtractError("%s: no sympy.sympify(..., locals=<sympy_locs>) found" % where)


@extract.extractor("SymTab")
def symtab(stage):
    st = extract._parse(stage, SYMS)
    env, span = _module_env(st, SYMS)
    # generation table
    gen = None
    for n in st.body:
        if isinstance(n, ast.Assign) and len(n.targets) == 1 and isinstance(n.targets[0], ast.Name) and n.targets[0].id == "sympy_locs":
            gen = _dict_entries(n.value, env, "%s:%d sympy_locs" % (SYMS, n.lineno))
            gen_line = n.lineno
    if gen is None:
        raise ExtractError("sympy_locs not found in %s" % SYMS)
    # the generation stage really parses with that table, and adds a_i as real symbols
    simp = extract._parse(stage, SIMP)
    isy = extract.find_def(simp, "initial_sympify")
    _uses_sympy_locs(isy, SIMP + ":initial_sympify")
    real = False
    for n in ast.walk(isy):
        if isinstance(n, ast.Call) and _is_sympy_attr(n.func, "symbols") and \
                any(k.arg == "real" and isinstance(k.value, ast.Constant) and k.value.value is True for k in n.keywords):
            real = True
    if not real:
        raise ExtractError("initial_sympify: parameters are not created with real=True")
    imp_ok = False
    for mod_rel, fn_name in ((SIMP, None), (GENR, "string_to_expr")):
        tr = extract._parse(stage, mod_rel)
        for n in tr.body:
            if isinstance(n, ast.ImportFrom) and n.module == "esr.fitting.sympy_symbols" and any(a.name == "sympy_locs" and a.asname is None for a in n.names):
                imp_ok = True
                break
        else:
            raise ExtractError("%s does not import sympy_locs from esr.fitting.sympy_symbols" % mod_rel)
        if fn_name:
            _uses_sympy_locs(extract.find_def(tr, fn_name), "%s:%s" % (mod_rel, fn_name))
    # fitting tables
    lk = extract._parse(stage, LIKE)
    imported = {}
    for n in lk.body:
        if isinstance(n, ast.ImportFrom) and n.module == "esr.fitting.sympy_symbols":
            for a in n.names:
                if a.name not in env:
                    raise ExtractError("%s imports unknown name %s" % (LIKE, a.name))
                imported[a.asname or a.name] = env[a.name]
    # a later module-level rebinding of an imported name would invalidate the resolution
    for n in lk.body:
        if isinstance(n, (ast.Assign, ast.FunctionDef, ast.ClassDef)):
            names = [n.name] if not isinstance(n, ast.Assign) else [t.id for t in n.targets if isinstance(t, ast.Name)]
            for nm in names:
                if nm in imported:
                    raise ExtractError("%s rebinds imported name %s" % (LIKE, nm))
    fits = []
    for c in lk.body:
        if not isinstance(c, ast.ClassDef):
            continue
        for f in c.body:
            if isinstance(f, ast.FunctionDef) and f.name == "run_sympify":
                calls = [n for n in ast.walk(f) if isinstance(n, ast.Call) and _is_sympy_attr(n.func, "sympify")]
                if len(calls) != 1:
                    raise ExtractError("%s.run_sympify: %d sympify calls" % (c.name, len(calls)))
                loc = [k.value for k in calls[0].keywords if k.arg == "locals"]
                if len(loc) != 1:
                    raise ExtractError("%s.run_sympify: no locals=" % c.name)
                shadow = {a.arg for a in f.args.args} | {t.id for n in ast.walk(f) if isinstance(n, ast.Assign) for t in n.targets if isinstance(t, ast.Name)}
                if shadow & set(imported):
                    raise ExtractError("%s.run_sympify shadows %s" % (c.name, sorted(shadow & set(imported))))
                fits.append((c.name, calls[0].lineno, _dict_entries(loc[0], imported, "%s:%d %s.run_sympify" % (LIKE, calls[0].lineno, c.name))))
    if not fits or fits[0][0] != "Likelihood":
        raise ExtractError("Likelihood.run_sympify not found (classes: %s)" % [f[0] for f in fits])
    out = "import ESRVerif.Model.SymTerm\n" + extract.header("SymTab", [SYMS, LIKE, SIMP, GENR]) + "open ESR.SymTerm\n\n"
    out += _table("genTable", gen, "`sympy_locs`, %s:%d; used by simplifier.initial_sympify (which adds a0.. as real symbols) and generator.string_to_expr" % (SYMS, gen_line))
    out += _table("fitTable", fits[0][2], "locals of Likelihood.run_sympify, %s:%d" % (LIKE, fits[0][1]))
    out += "/-- locals of every other `run_sympify` in %s (class name, table) -/\ndef fitTablesOther : List (String × Table) := [\n" % LIKE
    out += ",\n".join("  (%s, [\n%s\n  ])" % (lstr(c), ",\n".join("    (%s, %s)" % (lstr(k), v) for k, v in ent)) for c, ln, ent in fits[1:])
    out += "\n]\n\n"
    out += "/-- assumption under which generation creates the parameters a0, a1, .. -/\ndef genParamAssume : String := \"real\"\n"
    return out + extract.footer("SymTab")
