"""Differential self-test of _norm_c16.inline_helpers: every program is run as written and after inlining; results must agree and
the number of inlined calls must be the expected one (helpers that must be refused: early return, shadowed global, yield/lambda,
default object, call nested in an expression).  Run: /venv/bin/python harness/extractors/_norm_c16_selftest.py"""
import sys, ast, copy
sys.path.insert(0, __import__('os').path.dirname(__import__('os').path.abspath(__file__)))
import _norm_c16 as N

CASES = []
def case(src, expect_inlined):
    CASES.append((src, expect_inlined))

case('''
LOG = []
G = {"k": 0}
def _h(a, b, c=3):
    LOG.append(("h", a, b, c))
    t = a + b
    if t > 3:
        t = t * c
    return t, [i * a for i in range(b)]
def side(x):
    LOG.append(("side", x)); return x
def main():
    x = 2
    r, l = _h(side(1), side(x), c=side(5))
    q = _h(x, x)
    _h(1, 1)
    return r, l, q, LOG
''', 3)
case('''
LOG = []
def _h(p):
    p = p + 1          # parameter re-bound: needs a temp
    LOG.append(p)
    return p
def main():
    p = 10
    a = _h(p)
    return a, p, LOG
''', 1)
case('''
table = {"x": 1}
def _h(n):
    t = table          # global read ...
    t["n"] = n
    return t
def main():
    table = {"local": True}     # ... shadowed in the caller: must NOT be inlined
    r = _h(3)
    return r, table
''', 0)
case('''
def main():
    out = []
    k = 1
    def add(v):
        out.append(v + k)      # late-bound closure variable
        return len(out)
    k = 5
    n = add(1)
    for k in range(3):
        add(10)
    return out, n, k
''', 2)
case('''
def _h(x):
    if x:
        return 1
    return 2
def main():
    return _h(0), _h(1)
''', 0)
case('''
def _h(xs):
    try:
        v = xs[5]
    except IndexError as e:
        v = str(type(e).__name__)
    w = [v for v in range(2)]
    return v, w
def main():
    v = "mine"; e = "keep"
    r = _h([1])
    return r, v, e
''', 1)
case('''
def _h(a, *, flag=False, name="n"):
    return (a, flag, name)
def main():
    return [_h(1)], _h(2, flag=True), _h(a=3, name="z")
''', 0)   # first is nested in a list (not a whole statement), return of a tuple of calls: not inlined
case('''
def _h(a, *, flag=False, name="n"):
    r = (a, flag, name)
    return r
def main():
    x = _h(2, flag=True)
    y = _h(a=3, name="z")
    return x, y
''', 2)
case('''
def _noret(acc, v):
    acc.append(v)
def main():
    acc = []
    r = _noret(acc, 1)
    _noret(acc, 2)
    return acc, r
''', 2)
case('''
def _gen(n):
    yield n
def _lam(n):
    f = lambda q: q + n
    return f(1)
def main():
    a = _gen(1); b = _lam(2)
    return list(a), b
''', 0)
case('''
class K:
    def m(self, v):
        r = _h(v)
        return r
def _h(v):
    w = v * 2
    return w
def main():
    return K().m(4)
''', 1)
case('''
def _h(v=[]):
    v.append(1)
    return v
def main():
    a = _h(); b = _h()
    return a, b
''', 0)

ok = True
for src, exp in CASES:
    t = ast.parse(src)
    t2, rep = N.inline_helpers(t)
    e1, e2 = {}, {}
    exec(compile(t, "<orig>", "exec"), e1)
    exec(compile(ast.fix_missing_locations(t2), "<inl>", "exec"), e2)
    r1, r2 = e1["main"](), e2["main"]()
    good = (repr(r1) == repr(r2)) and len(rep) == exp
    ok &= good
    print("OK " if good else "BAD", len(rep), exp, repr(r1)[:90], "" if repr(r1) == repr(r2) else "!= " + repr(r2)[:90])

# ----------------------------------------------------------------------------------------------------------------------
# effects.py: file-name / open-mode readings (path helpers, names joined from a tuple of kinds, a name chosen by a conditional of
# strings, helpers that get the path or the mode as an argument, loops over hoisted tuples).  Each program is RUN with recording
# stand-ins for open / os.system / np.savetxt over several argument sets; the union of the (file pattern, access) pairs seen must
# equal the static summary of effects.analyse (so nothing is missed and nothing invented), unless the case expects ExtractError.
import os, re, tempfile, shutil, itertools
sys.path.insert(0, os.path.dirname(os.path.dirname(os.path.abspath(__file__))))
import extract
from extractors import effects as FX

ECASES = []
def ecase(src, expect="equal"):
    ECASES.append((src, expect))

ecase("""
def _name_of(dirname, compl):
    "path helper"
    return dirname + f"/compl_{compl}/previous_eqns_{compl}.txt"
def main(dirname, compl, flag):
    with open(_name_of(dirname, compl), "r") as f:
        pass
    np.savetxt(_name_of(dirname, compl), [])
""")
ecase("""
def _two_step(dirname, compl):
    stem = 'unique_equations_%i' % compl
    full = '%s/%s.txt' % (dirname, stem)
    return full
def main(dirname, compl, flag):
    p = _two_step(dirname, compl)
    open(p, 'w').close()
    os.system("mv " + _two_step(dirname, compl) + " " + dirname + "/temp_%i.txt" % compl)
""")
ecase("""
def get(dirname, compl, unique=True):
    prefix = "unique" if unique else "all"
    fn = dirname + "/compl_%i/%s_equations_%i.txt" % (compl, prefix, compl)
    with open(fn, "r") as f:
        pass
def main(dirname, compl, flag):
    get(dirname, compl)
    get(dirname, compl, unique=False)
""")
ecase("""
def main(dirname, compl, flag):
    prefix = "unique" if flag else "all"
    with open(dirname + "/%s_equations_%i.txt" % (prefix, compl)) as f:
        pass
    with open(dirname + ("/x_%i.txt" if flag else "/y_%i.txt") % compl, 'a') as f:
        pass
""")
ecase("""
def _append_all(fname, items, mode):
    with open(fname, mode) as f:
        for it in items:
            pass
def main(dirname, compl, flag):
    kinds = ('orig', 'extra')
    for stem in ('trees', 'aifeyn'):
        for kind in kinds:
            open('%s/%s_%s_%i.txt' % (dirname, kind, stem, compl), 'w').close()
    for i in range(3):
        for kind in kinds:
            _append_all(dirname + '/%s_trees_%i.txt' % (kind, compl), [], 'a')
        for kind in kinds:
            with open(dirname + '/%s_aifeyn_%i.txt' % (kind, compl), 'a') as f:
                pass
    for stem in ('trees', 'aifeyn'):
        parts = ['%s/%s_%s_%i.txt' % (dirname, kind, stem, compl) for kind in kinds]
        os.system('cat ' + ' '.join(parts) + ' > %s/%s_%i.txt' % (dirname, stem, compl))
""")
ecase("""
def _open_each(dirname, compl, names, mode='w'):
    for nm in names:
        open(os.path.join(dirname, "{}_{}.txt".format(nm, compl)), mode).close()
def main(dirname, compl, flag):
    _open_each(dirname, compl, ('a_trees', 'b_trees'))
    _open_each(dirname, compl, ['a_trees'], mode='a')
""")
ecase("""
def main(dirname, compl, flag):
    np.savetxt(dirname + ("/x_%i.txt" if flag else "/y_%i.txt") % compl, [])
""", "error")       # the file WRITTEN is chosen at run time: fail closed
ecase("""
def _mode(i):
    return 'w' if i == 0 else 'a'
def main(dirname, compl, flag):
    for i in range(2):
        with open(dirname + '/t_%i.txt' % compl, _mode(i)) as f:
            pass
""", "error")       # a mode computed by a helper: fail closed


class _F(object):
    def __enter__(self): return self
    def __exit__(self, *a): return False
    def close(self): pass


def _dynamic(src):
    seen = []
    def fopen(path, mode="r", **kw):
        m = kw.get("mode", mode).replace("b", "").replace("t", "") or "r"
        seen.append((path, m)); return _F()
    class _Os(object):
        path = os.path
        @staticmethod
        def system(cmd):
            for k, a in FX._shell(cmd, "dyn", 0):
                seen.append((k, a))
    class _Np(object):
        @staticmethod
        def savetxt(path, *a, **k): seen.append((path, "w"))
        @staticmethod
        def loadtxt(path, *a, **k): seen.append((path, "r"))
    g = dict(open=fopen, os=_Os, np=_Np)
    exec(compile(src, "<eff>", "exec"), g)
    for compl, flag in itertools.product((3, 12), (True, False)):
        g["main"]("/lib/run_7", compl, flag)
    return set((re.sub(r"\d+", "#", p.split("/")[-1]), a) for p, a in seen)


for src, expect in ECASES:
    d = tempfile.mkdtemp(prefix="c16_selftest_")
    try:
        for rel in FX.FILES + [FX.TABLE_FILE]:
            os.makedirs(os.path.dirname(os.path.join(d, rel)), exist_ok=True)
            open(os.path.join(d, rel), "w").write("sympy_locs = {}\n" if rel == FX.TABLE_FILE else "")
        open(os.path.join(d, FX.FILES[0]), "w").write("import os\nimport numpy as np\n" + src)
        try:
            static = set((k, a) for _, _, k, a in FX.analyse(d)[0])
            err = None
        except extract.ExtractError as e:
            static, err = None, str(e)
        if expect == "error":
            good = err is not None
            print("OK " if good else "BAD", "effects: fails closed" if good else "effects: expected ExtractError, got %s" % sorted(static), (err or "")[:70])
        else:
            dyn = _dynamic(src)
            good = err is None and static == dyn
            print("OK " if good else "BAD", "effects: static == dynamic (%d pairs)" % len(dyn) if good else
                  "effects: %s static-only %s dynamic-only %s" % (err, sorted((static or set()) - dyn), sorted(dyn - (static or set()))))
        ok &= good
    finally:
        shutil.rmtree(d, ignore_errors=True)
print("ALL OK" if ok else "FAILURES")
