"""Differential self-test of _norm_c16.inline_helpers: every program is run as written and after inlining; results must agree and
the number of inlined calls must be the expected one (helpers that must be refused: early return, shadowed global, yield/lambda,
default object, call nested in an expression).  Run: /venv/bin/python harness/extractors/_norm_c16_selftest.py"""
import sys, ast, copy
sys.path.insert(0, __import__('os').path.dirname(__import__('os').path.abspath(__file__)))
import _norm_c16 as N

CASES = []
def case(src, expect_inlined):
    CASES.append((src, expect_inlined))

case('''
LOG = []
G = {"k": 0}
def _h(a, b, c=3):
    LOG.append(("h", a, b, c))
    t = a + b
    if t > 3:
        t = t * c
    return t, [i * a for i in range(b)]
def side(x):
    LOG.append(("side", x)); return x
def main():
    x = 2
    r, l = _h(side(1), side(x), c=side(5))
    q = _h(x, x)
    _h(1, 1)
    return r, l, q, LOG
''', 3)
case('''
LOG = []
def _h(p):
    p = p + 1          # parameter re-bound: needs a temp
    LOG.append(p)
    return p
def main():
    p = 10
    a = _h(p)
    return a, p, LOG
''', 1)
case('''
table = {"x": 1}
def _h(n):
    t = table          # global read ...
    t["n"] = n
    return t
def main():
    table = {"local": True}     # ... shadowed in the caller: must NOT be inlined
    r = _h(3)
    return r, table
''', 0)
case('''
def main():
    out = []
    k = 1
    def add(v):
        out.append(v + k)      # late-bound closure variable
        return len(out)
    k = 5
    n = add(1)
    for k in range(3):
        add(10)
    return out, n, k
''', 2)
case('''
def _h(x):
    if x:
        return 1
    return 2
def main():
    return _h(0), _h(1)
''', 0)
case('''
def _h(xs):
    try:
        v = xs[5]
    except IndexError as e:
        v = str(type(e).__name__)
    w = [v for v in range(2)]
    return v, w
def main():
    v = "mine"; e = "keep"
    r = _h([1])
    return r, v, e
''', 1)
case('''
def _h(a, *, flag=False, name="n"):
    return (a, flag, name)
def main():
    return [_h(1)], _h(2, flag=True), _h(a=3, name="z")
''', 0)   # first is nested in a list (not a whole statement), return of a tuple of calls: not inlined
case('''
def _h(a, *, flag=False, name="n"):
    r = (a, flag, name)
    return r
def main():
    x = _h(2, flag=True)
    y = _h(a=3, name="z")
    return x, y
''', 2)
case('''
def _noret(acc, v):
    acc.append(v)
def main():
    acc = []
    r = _noret(acc, 1)
    _noret(acc, 2)
    return acc, r
''', 2)
case('''
def _gen(n):
    yield n
def _lam(n):
    f = lambda q: q + n
    return f(1)
def main():
    a = _gen(1); b = _lam(2)
    return list(a), b
''', 0)
case('''
class K:
    def m(self, v):
        r = _h(v)
        return r
def _h(v):
    w = v * 2
    return w
def main():
    return K().m(4)
''', 1)
case('''
def _h(v=[]):
    v.append(1)
    return v
def main():
    a = _h(); b = _h()
    return a, b
''', 0)

ok = True
for src, exp in CASES:
    t = ast.parse(src)
    t2, rep = N.inline_helpers(t)
    e1, e2 = {}, {}
    exec(compile(t, "<orig>", "exec"), e1)
    exec(compile(ast.fix_missing_locations(t2), "<inl>", "exec"), e2)
    r1, r2 = e1["main"](), e2["main"]()
    good = (repr(r1) == repr(r2)) and len(rep) == exp
    ok &= good
    print("OK " if good else "BAD", len(rep), exp, repr(r1)[:90], "" if repr(r1) == repr(r2) else "!= " + repr(r2)[:90])
print("ALL OK" if ok else "FAILURES")
