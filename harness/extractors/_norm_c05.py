"""Alias (freshness) analysis for the `Match` extractor (C05).  NOT an extractor itself (underscore prefix = not auto-loaded).

Question answered: inside the per-row loop of `match.main`, is every array that is WRITTEN IN PLACE (`X[...] = v`,
`X[...] op= v`, `X op= v`, `X.fill/sort/put(...)`, `np.copyto/put/place/putmask(X, ...)`, `out=X`) a *fresh, row-local*
array on EVERY path that reaches the write - or can it be (a view of) a table that outlives the row (`params_meas`,
`all_fish`, `negloglike`, ... = every name bound in `main` before the loop)?  A write into such a table makes the output of a
later row of the same rank depend on the rows before it (the matching stage stops being a map over rows).

Method: a forward may-analysis over the statement tree of the loop body.  The abstract value of a name is the SET of origins
that can reach it, an origin = (source text of the defining expression, fresh?).  Joins (if/else, try/except, loop back
edges, `break`/`continue` of inner loops, the back edge of the row loop itself) are set unions, so a write is reported
once per (target, reaching origin) = per path class.  Fail closed: whatever is not positively known to create a new array
is NOT fresh; statement kinds that are not listed raise ExtractError.

fresh      : literals, arithmetic / comparison / boolean expressions, list / tuple / dict displays and comprehensions,
             `X.copy()`, `X.astype()`, `X.flatten()`, `X.tolist()`, the numpy constructors and element-wise functions of
             FRESH_NP, `len/int/float/abs/min/max/sum/list/sorted/tuple`, `math.*`, the results of
             `simplifier.convert_params` and `simplifier.count_params` (new objects built inside the callee), any subscript or
             `.T`/`.real` of a fresh array (a view of a row-local array is row-local), and a subscript of a shared table whose
             index is a list / boolean-mask expression or a (slice of a) Python list bound before the loop (numpy "fancy"
             indexing copies)
pass-through: `np.atleast_1d/atleast_2d/asarray/asanyarray/ascontiguousarray/ravel/squeeze/transpose/reshape(X, ...)`,
             `X.ravel()/reshape()/squeeze()/view()/transpose()`, `.T`, `.real`, `.imag`: the origins of X
not fresh  : names bound before the loop, basic-slice subscripts of them, names not bound on the path, every other call
own row    : a write `T[i]`/`T[i, ...]` into a table bound before the loop whose FIRST index is the loop variable itself is the row's
             own output slot (codelen[i], params[i,:], ...) and is not reported
"""
import ast
from extract import ExtractError

FRESH_NP = {"copy", "array", "zeros", "ones", "full", "empty", "zeros_like", "ones_like", "full_like", "empty_like", "arange",
            "linspace", "pad", "abs", "absolute", "fabs", "sqrt", "log", "log10", "exp", "sum", "prod", "mean", "isnan", "isinf",
            "isfinite", "concatenate", "hstack", "vstack", "column_stack", "stack", "diag", "eye", "identity", "dot", "matmul",
            "any", "all", "max", "min", "nanmax", "nanmin", "argmax", "argmin", "sign", "power", "square", "float64", "int64",
            "nonzero", "flatnonzero", "logical_not", "logical_and", "logical_or", "multiply", "divide", "add", "subtract", "negative"}
PASS_NP = {"atleast_1d", "atleast_2d", "asarray", "asanyarray", "ascontiguousarray", "asfarray", "ravel", "squeeze", "transpose",
           "reshape", "real", "imag", "broadcast_to", "expand_dims", "diagonal", "flip", "nan_to_num"}
FRESH_METHODS = {"copy", "astype", "flatten", "tolist", "sum", "any", "all", "max", "min", "mean", "dot", "nonzero", "conj", "round"}
PASS_METHODS = {"ravel", "reshape", "squeeze", "view", "transpose", "swapaxes", "diagonal"}
FRESH_BUILTINS = {"len", "int", "float", "abs", "min", "max", "sum", "list", "sorted", "tuple", "bool", "str", "round", "range",
                  "reversed", "enumerate", "zip", "isinstance", "any", "all", "dict", "set"}
FRESH_CALLS = {"simplifier.convert_params", "simplifier.count_params", "itertools.combinations", "itertools.product",
               "itertools.permutations"}
MUTATING_METHODS = {"fill", "sort", "put", "itemset", "resize", "partition", "setfield", "setflags", "byteswap"}
MUTATING_NP = {"copyto", "put", "place", "putmask", "fill_diagonal", "put_along_axis"}
TERMINATING_CALLS = {"quit", "exit", "sys.exit", "os._exit"}


def u(n):
    return ast.unparse(n)


def _fresh(text):
    return frozenset([(text, True)])


def _shared(text):
    return frozenset([(text, False)])


class _Flow(object):
    def __init__(self, pre_names, pylists, loopvar, watch=()):
        self.pre = set(pre_names)
        self.pylists = set(pylists)
        self.loopvar = loopvar
        self.watch = set(watch)   # callee names whose argument origins are recorded per call site (C07: convert_params)
        self.calls = {}           # (lineno, callee) -> list (per positional argument) of origin sets, unioned over the passes
        self.ownrow = set()       # origin texts that are a basic-slice view of ROW i (i = the loop variable) of a table bound before the loop
        self.writes = {}          # (target, origin text, fresh) -> sorted set of line numbers
        self.own_row = 0
        self.loops = []           # stack of dicts(breaks=[envs], conts=[envs]) for loops nested inside the row loop
        self.row_conts = []       # envs at `continue` of the row loop / end of body (loop-carried values)

    # ---------------------------------------------------------------------------------------------------- values
    def lookup(self, name, env):
        if name in env:
            return env[name]
        if name in self.pre:
            return _shared("%s (table bound before the loop, shared between rows)" % name)
        return _shared("%s (not bound on this path)" % name)

    def _fancy_index(self, sl):
        """does this index force numpy to copy (list / boolean mask / Python list bound before the loop)?"""
        elts = sl.elts if isinstance(sl, ast.Tuple) else [sl]
        for e in elts:
            if isinstance(e, (ast.List, ast.ListComp, ast.Compare)):
                return True
            if isinstance(e, ast.UnaryOp) and isinstance(e.op, ast.Invert) and isinstance(e.operand, ast.Compare):
                return True
            if isinstance(e, ast.Name) and e.id in self.pylists:
                return True
            if isinstance(e, ast.Subscript) and isinstance(e.value, ast.Name) and e.value.id in self.pylists and isinstance(e.slice, ast.Slice):
                return True
        return False

    def val(self, e, env):
        if isinstance(e, ast.Name):
            return self.lookup(e.id, env)
        if isinstance(e, (ast.Constant, ast.JoinedStr, ast.Compare, ast.BoolOp, ast.BinOp, ast.UnaryOp, ast.List, ast.Tuple, ast.Dict, ast.Set,
                          ast.ListComp, ast.GeneratorExp, ast.DictComp, ast.SetComp, ast.Lambda)):
            return _fresh(u(e)[:60])
        if isinstance(e, ast.IfExp):
            return self.val(e.body, env) | self.val(e.orelse, env)
        if isinstance(e, ast.Starred):
            return self.val(e.value, env)
        if isinstance(e, ast.Subscript):
            base = self.val(e.value, env)
            if all(f for _, f in base) or self._fancy_index(e.slice):
                return _fresh(u(e)[:60])
            idx0 = e.slice.elts[0] if isinstance(e.slice, ast.Tuple) and e.slice.elts else e.slice
            if (self.loopvar is not None and isinstance(e.value, ast.Name) and e.value.id in self.pre and e.value.id not in env
                    and isinstance(idx0, ast.Name) and idx0.id == self.loopvar):
                d = "%s = row i (the row's own slot) of %s (table bound before the loop)" % (u(e), e.value.id)
                self.ownrow.add(d)
                return _shared(d)
            return frozenset([("%s = view of %s" % (u(e), d) if not d.startswith(u(e)) else d, False) for d, f in base if not f]) | \
                frozenset([(d, True) for d, f in base if f])
        if isinstance(e, ast.Attribute):
            if e.attr in ("T", "real", "imag", "flat"):
                return self.val(e.value, env)
            return _shared("%s (attribute of an object that outlives the row)" % u(e))
        if isinstance(e, ast.Call):
            fn = u(e.func)
            if fn in FRESH_CALLS or fn in FRESH_BUILTINS or fn.startswith("math."):
                return _fresh("%s(...)" % fn)
            if fn.startswith("np.") or fn.startswith("numpy."):
                short = fn.split(".", 1)[1]
                if short in PASS_NP and e.args:
                    copy_kw = [k for k in e.keywords if k.arg == "copy"]
                    if copy_kw and isinstance(copy_kw[0].value, ast.Constant) and copy_kw[0].value.value is True:
                        return _fresh("%s(..., copy=True)" % fn)
                    return self.val(e.args[0], env)
                if short in FRESH_NP:
                    return _fresh("%s(...)" % fn)
                return _shared("%s(...) (not known to return a new array)" % fn)
            if isinstance(e.func, ast.Attribute):
                if e.func.attr in FRESH_METHODS:
                    return _fresh(u(e)[:60])
                if e.func.attr in PASS_METHODS:
                    return self.val(e.func.value, env)
            return _shared("%s(...) (not known to return a new array)" % fn)
        if isinstance(e, ast.NamedExpr):
            raise ExtractError("match.main alias analysis: assignment expression not supported (line %d)" % e.lineno)
        return _shared("%s (expression kind %s not analysed)" % (u(e)[:40], type(e).__name__))

    # ---------------------------------------------------------------------------------------------------- writes
    def _root(self, t):
        while isinstance(t, (ast.Subscript, ast.Attribute)):
            t = t.value
        return t

    def write(self, target, env, lineno, first_index=None):
        """an in-place write through `target` (a Name node)"""
        if not isinstance(target, ast.Name):
            raise ExtractError("match.main alias analysis: in-place write through %s (line %d) not analysed" % (u(target), lineno))
        name = target.id
        if name in self.pre and name not in env and first_index is not None:
            idx0 = first_index.elts[0] if isinstance(first_index, ast.Tuple) and first_index.elts else first_index
            if isinstance(idx0, ast.Name) and idx0.id == self.loopvar:
                self.own_row += 1
                return
        for d, f in self.lookup(name, env):
            self.writes.setdefault((name, d, f), set()).add(lineno)

    def scan_calls(self, node, env):
        """mutating calls anywhere in an expression / statement"""
        for c in ast.walk(node):
            if not isinstance(c, ast.Call):
                continue
            fn = u(c.func)
            if fn in self.watch:
                got = [self.val(a, env) for a in c.args]
                old = self.calls.get((c.lineno, fn))
                self.calls[(c.lineno, fn)] = got if old is None or len(old) != len(got) else [a | b for a, b in zip(old, got)]
            for k in c.keywords:
                if k.arg == "out":
                    for t in (k.value.elts if isinstance(k.value, ast.Tuple) else [k.value]):
                        self.write(self._root(t), env, c.lineno)
            if (fn.startswith("np.") or fn.startswith("numpy.")) and fn.split(".", 1)[1] in MUTATING_NP and c.args:
                self.write(self._root(c.args[0]), env, c.lineno)
            if isinstance(c.func, ast.Attribute) and c.func.attr in MUTATING_METHODS:
                r = self._root(c.func.value)
                if isinstance(r, ast.Name):
                    self.write(r, env, c.lineno)

    # ---------------------------------------------------------------------------------------------------- statements
    @staticmethod
    def join(envs):
        envs = [e for e in envs if e is not None]
        if not envs:
            return None
        keys = set()
        for e in envs:
            keys |= set(e)
        out = {}
        for k in keys:
            v = frozenset()
            for e in envs:
                v |= e[k] if k in e else frozenset([("%s (not bound on this path)" % k, False)])
            out[k] = v
        return out

    def bind(self, tgt, value, env, node):
        if isinstance(tgt, ast.Name):
            env[tgt.id] = value
        elif isinstance(tgt, (ast.Tuple, ast.List)):
            for t in tgt.elts:
                self.bind(t, value, env, node)
        elif isinstance(tgt, ast.Starred):
            self.bind(tgt.value, value, env, node)
        elif isinstance(tgt, ast.Subscript):
            self.write(self._root(tgt), env, node.lineno, first_index=tgt.slice if isinstance(tgt.value, ast.Name) else None)
        else:
            raise ExtractError("match.main alias analysis: assignment target %s (line %d) not analysed" % (u(tgt), node.lineno))

    def block(self, stmts, env):
        for s in stmts:
            if env is None:
                return None
            env = self.stmt(s, env)
        return env

    def loop(self, node, env, target):
        self.loops.append(dict(breaks=[], conts=[]))
        cur = dict(env)
        out = None
        for _ in range(4):                                   # union-only lattice over a finite set of origins: converges quickly
            start = dict(cur)
            if target is not None:
                self.bind(target, _fresh("loop variable of `%s`" % u(node).split("\n")[0][:50]), start, node)
            frame = dict(breaks=[], conts=[])
            self.loops[-1] = frame
            end = self.block(node.body, dict(start))
            nxt = self.join([cur, end] + frame["conts"])
            out = (nxt, frame["breaks"])
            if nxt == cur:
                break
            cur = nxt
        self.loops.pop()
        nxt, breaks = out
        after = self.block(node.orelse, dict(nxt)) if node.orelse else nxt
        return self.join([after] + breaks)

    def stmt(self, s, env):
        if isinstance(s, ast.Assign):
            self.scan_calls(s.value, env)
            v = self.val(s.value, env)
            if isinstance(s.value, ast.Call) and u(s.value.func) in FRESH_CALLS:
                v = _fresh("%s(...) return value" % u(s.value.func))
            for t in s.targets:
                self.bind(t, v, env, s)
            return env
        if isinstance(s, ast.AnnAssign):
            if s.value is not None:
                self.scan_calls(s.value, env)
                self.bind(s.target, self.val(s.value, env), env, s)
            return env
        if isinstance(s, ast.AugAssign):
            self.scan_calls(s.value, env)
            t = s.target
            if isinstance(t, ast.Name):
                self.write(t, env, s.lineno)
            elif isinstance(t, ast.Subscript):
                self.write(self._root(t), env, s.lineno, first_index=t.slice if isinstance(t.value, ast.Name) else None)
            else:
                raise ExtractError("match.main alias analysis: augmented assignment to %s (line %d) not analysed" % (u(t), s.lineno))
            return env
        if isinstance(s, ast.Expr):
            self.scan_calls(s.value, env)
            if isinstance(s.value, ast.Call) and u(s.value.func) in TERMINATING_CALLS:
                return None
            return env
        if isinstance(s, ast.If):
            self.scan_calls(s.test, env)
            return self.join([self.block(s.body, dict(env)), self.block(s.orelse, dict(env))])
        if isinstance(s, ast.For):
            self.scan_calls(s.iter, env)
            return self.loop(s, env, s.target)
        if isinstance(s, ast.While):
            self.scan_calls(s.test, env)
            return self.loop(s, env, None)
        if isinstance(s, ast.Try):
            seen = [dict(env)]
            cur = dict(env)
            for b in s.body:
                if cur is None:
                    break
                cur = self.stmt(b, cur)
                if cur is not None:
                    seen.append(dict(cur))
            hstart = self.join(seen)
            ends = []
            if cur is not None:
                ends.append(self.block(s.orelse, cur) if s.orelse else cur)
            for h in s.handlers:
                he = dict(hstart)
                if h.name:
                    he[h.name] = _fresh("exception object")
                ends.append(self.block(h.body, he))
            out = self.join(ends)
            if s.finalbody:
                out = self.block(s.finalbody, out if out is not None else dict(hstart))
            return out
        if isinstance(s, ast.With):
            for it in s.items:
                self.scan_calls(it.context_expr, env)
                if it.optional_vars is not None:
                    self.bind(it.optional_vars, _shared("%s (context manager value)" % u(it.context_expr)[:40]), env, s)
            return self.block(s.body, env)
        if isinstance(s, ast.Continue):
            if self.loops:
                self.loops[-1]["conts"].append(dict(env))
            else:
                self.row_conts.append(dict(env))
            return None
        if isinstance(s, ast.Break):
            if self.loops:
                self.loops[-1]["breaks"].append(dict(env))
                return None
            raise ExtractError("match.main alias analysis: `break` out of the loop over the functions (line %d)" % s.lineno)
        if isinstance(s, (ast.Return, ast.Raise)):
            return None
        if isinstance(s, ast.Assert):
            self.scan_calls(s.test, env)
            return env
        if isinstance(s, (ast.Pass, ast.Import, ast.ImportFrom)):
            return env
        if isinstance(s, ast.Delete):
            for t in s.targets:
                if isinstance(t, ast.Name):
                    env.pop(t.id, None)
                else:
                    raise ExtractError("match.main alias analysis: `del %s` (line %d) not analysed" % (u(t), s.lineno))
            return env
        if isinstance(s, (ast.FunctionDef, ast.ClassDef)):
            env[s.name] = _shared("%s (defined inside the loop)" % s.name)
            return env
        raise ExtractError("match.main alias analysis: statement kind %s (line %d) not analysed" % (type(s).__name__, s.lineno))


def bound_names(stmts):
    """every name bound (assigned, imported, defined, loop target) by the statements, recursively"""
    out = set()
    for s in stmts:
        for n in ast.walk(s):
            if isinstance(n, ast.Name) and isinstance(n.ctx, ast.Store):
                out.add(n.id)
            elif isinstance(n, (ast.FunctionDef, ast.ClassDef)):
                out.add(n.name)
            elif isinstance(n, ast.alias):
                out.add((n.asname or n.name).split(".")[0])
    return out


def analyse(fn, loop, watch=(), info=None):
    """fn: FunctionDef of match.main; loop: its `for i in range(len(fcn_list_proc))`.
    -> (sorted list of (target, origin, fresh, lines), number of own-row writes).
    `watch`: callee names whose per-call-site argument origins are wanted; `info` (a dict) then receives
    calls = {(lineno, callee): [origin set per positional argument]} and ownrow = the origin texts that are the row's own slot."""
    if not isinstance(loop.target, ast.Name):
        raise ExtractError("match.main alias analysis: loop target is not a name")
    k = fn.body.index(loop)
    pre_stmts = fn.body[:k]
    pre = bound_names(pre_stmts) | {a.arg for a in fn.args.args + fn.args.kwonlyargs}
    if fn.args.vararg or fn.args.kwarg:
        raise ExtractError("match.main alias analysis: *args/**kwargs")
    pylists = set()
    for s in pre_stmts:
        if isinstance(s, ast.Assign) and len(s.targets) == 1 and isinstance(s.targets[0], ast.Name):
            if isinstance(s.value, (ast.List, ast.ListComp)) or (isinstance(s.value, ast.Call) and u(s.value.func) in ("list", "sorted")):
                pylists.add(s.targets[0].id)
            else:
                pylists.discard(s.targets[0].id)
    # a name bound before the loop and RE-bound after it, or bound by a nested def, is still just "pre"
    fl = _Flow(pre, pylists, loop.target.id, watch)
    if loop.orelse:
        raise ExtractError("match.main alias analysis: for/else on the loop over the functions")
    cur = {loop.target.id: _fresh("loop variable")}
    for _ in range(5):
        fl.writes, fl.own_row, fl.row_conts, fl.loops = {}, 0, [], []
        end = fl.block(loop.body, dict(cur))
        nxt = fl.join([cur, end] + fl.row_conts)
        # a name that is simply not bound yet on the first pass is not an origin worth reporting once it is bound on the back edge:
        # keep it (fail closed) - it is only ever reported when a write can actually see it
        if nxt == cur:
            break
        cur = nxt
    else:
        raise ExtractError("match.main alias analysis: no fixed point")
    rows = [(t, d, f, sorted(ls)) for (t, d, f), ls in fl.writes.items()]
    rows.sort(key=lambda r: (r[0], r[1], r[2]))
    if info is not None:
        info["calls"], info["ownrow"] = dict(fl.calls), set(fl.ownrow)
    return rows, fl.own_row


ARG = "argument `%s` (the caller's object)"


def analyse_function(fn):
    """Whole body of a per-function routine (C07: test_all_Fisher.convert_params): which arrays does it write in place, and is the
    array, on some path reaching the write, (a view of) one of its ARGUMENTS?  Same rules as `analyse`; the origin of a parameter
    `a` is ARG % a (not fresh); nothing is bound before, there is no row loop.
    -> sorted list of (target, origin, fresh, lines)"""
    if fn.args.vararg or fn.args.kwarg:
        raise ExtractError("%s alias analysis: *args/**kwargs" % fn.name)
    fl = _Flow(set(), set(), None)
    env = {a.arg: _shared(ARG % a.arg) for a in fn.args.posonlyargs + fn.args.args + fn.args.kwonlyargs}
    fl.block(fn.body, env)
    rows = [(t, d, f, sorted(ls)) for (t, d, f), ls in fl.writes.items()]
    rows.sort(key=lambda r: (r[0], r[1], r[2]))
    return rows


def arg_of(origin):
    """the parameter name an origin text of `analyse_function` goes back to, or None"""
    import re
    m = re.search(r"argument `(\w+)` \(the caller's object\)", origin)
    return m.group(1) if m else None
