"""C14, stage drivers: the REAL `test_all.main` and `test_all_Fisher.main` under P ranks with scripted per-function
routines (workers/stage_script.py) against the Lean model `Model/Stages.lean` (driver ops `stfit`, `stfis`), plus an
oracle that states the property on the real output files only: one row per function, row i carries function i's values.

Every value of a script is a multiple of 1/8 of modest size (exact under '%.7e'), and the values returned for function i
are unique to i, so a misplaced, dropped or duplicated row is visible.
"""
import json, math, os, shutil
import common, mpirun

BAD = ("nan", "inf", "-inf")


def _tok(v):
    if isinstance(v, str):
        return v
    if v != v:
        return "nan"
    if v in (float("inf"), float("-inf")):
        return "inf" if v > 0 else "-inf"
    return repr(float(v))


def _f(t):
    return float(t)


def _same(a, b):
    a, b = _f(a), _f(b)
    return (a != a and b != b) or a == b


def _val(i, k):
    """a value that identifies function i (k-th value of its row)"""
    return float(i) + (k % 7 + 1) / 8.0


def _fit_out(rng, i, mp, call):
    r = rng.random()
    if r < 0.62:
        w = mp if rng.random() < 0.9 else rng.choice([1, mp + 1, 0])
        chi2 = rng.choice([_val(i, 0) + 100 * call, _val(i, 0) + 100 * call, "nan", "inf"])
        return ["ok", chi2, [(_val(i, k + 1) + 100 * call) if rng.random() < 0.8 else 0.0 for k in range(w)]]
    return "ne" if r < 0.82 else "ra"


def _fis_out(rng, i, mp, call):
    r = rng.random()
    if r < 0.62:
        dw = mp * (mp + 1) // 2
        return ["ok", [(_val(i, k + 1) + 200 * call) if rng.random() < 0.7 else 0.0 for k in range(mp)], _val(i, 0) + 200 * call + 50,
                [_val(i, k) + 300 for k in range(dw)], rng.choice([_val(i, 3) + 400, "nan", "inf"])]
    return "ne" if r < 0.82 else "ra"


def gen_jobs(rng, n, Nmax):
    jobs = []
    for j in range(n):
        kind = "fit" if j % 2 == 0 else "fis"
        comp = rng.choice([1, 2, 5, 9, 10, 11, 12, 13])
        N = rng.choice([1, 2, 3, rng.randint(1, Nmax), rng.randint(1, Nmax)])
        ti = rng.random() < 0.5
        if kind == "fit":
            mp = max(4, (comp - 1) // 2)
            funcs = [[_fit_out(rng, i, mp, 0), _fit_out(rng, i, mp, 1)] for i in range(N)]
            jobs.append(dict(kind="fit", comp=comp, tryInt=ti, funcs=funcs))
        else:
            mp = rng.choice([4, 4, 5, 6, 3])          # 3: a table test_all.main never writes (every rank stops at line 308)
            table = [[rng.choice([_val(i, 0), _val(i, 0), _val(i, 0), "nan", "inf", "-inf"])] + [_val(i, k + 1) for k in range(mp)] for i in range(N)]
            funcs = [[_fis_out(rng, i, mp, 0), _fis_out(rng, i, mp, 1)] for i in range(N)]
            jobs.append(dict(kind="fis", comp=comp, tryInt=ti, table=table, funcs=funcs, mp=mp))
    # N = 0 (an empty function list: generation writes empty libraries for complexities without trees): stage 1 completes and
    # writes an empty file; the Fisher stage stops in load_loglike on every rank (F18) - the model says `none` (fisherFile_empty)
    jobs.append(dict(kind="fit", comp=rng.choice([2, 4]), tryInt=False, funcs=[]))
    jobs.append(dict(kind="fis", comp=rng.choice([2, 4]), tryInt=False, table=[], funcs=[], mp=4))
    return jobs


def crashes(jb):
    """does the PROPERTY's precondition fail for this script? (a retry that raises inside `except NameError:` has no handler
    in test_all_Fisher.main; such scripts are run in a launch of their own)"""
    if jb["kind"] == "fis" and (jb["mp"] < 4 or len(jb["funcs"]) == 0):
        return True
    if jb["kind"] != "fis" or not jb["tryInt"]:
        return False
    for row, (o1, o2) in zip(jb["table"], jb["funcs"]):
        if _tok(row[0]) in BAD:
            continue
        if o1 == "ne" and not (isinstance(o2, list)):
            return True
    return False


def _otok(o, kind):
    if o in ("ne", "ra"):
        return o
    if kind == "fit":
        return "ok:%s:%s" % (_tok(o[1]), ",".join(_tok(v) for v in o[2]) or "-")
    return "ok:%s/%s/%s/%s" % (",".join(_tok(v) for v in o[1]) or "-", _tok(o[2]), ",".join(_tok(v) for v in o[3]) or "-", _tok(o[4]))


def model_line(jb, P):
    fs = " ".join("%s|%s" % (_otok(a, jb["kind"]), _otok(b, jb["kind"])) for a, b in jb["funcs"])
    if jb["kind"] == "fit":
        return ("stfit %d %d %d %s" % (jb["comp"], P, int(jb["tryInt"]), fs)).rstrip()
    tab = ";".join(",".join(_tok(v) for v in row) for row in jb["table"]) or "-"
    return ("stfis %d %d %d %s %s" % (jb["mp"], P, int(jb["tryInt"]), tab, fs)).rstrip()


def _rows_eq(model_rows, real_rows):
    if len(model_rows) != len(real_rows):
        return False
    for a, b in zip(model_rows, real_rows):
        if len(a) != len(b) or not all(_same(x, y) for x, y in zip(a, b)):
            return False
    return True


def compare(jb, P, mline, real):
    """model output line vs the real files; returns None or a description of the difference"""
    if jb["kind"] == "fit":
        mrows = [] if mline == "-" else [r.split(",") for r in mline.split(";")]
        rrows = [l.split() for l in real]
        return None if _rows_eq(mrows, rrows) else "negloglike file: model %s, code %s" % (mrows[:3], rrows[:3])
    if mline == "none":
        return "model predicts that a rank raises, the code completed"
    cl, dv, left = real
    mc = [] if mline == "-" else [r.split("#")[0].split(",") for r in mline.split(";")]
    md = [] if mline == "-" else [r.split("#")[1].split(",") for r in mline.split(";")]
    if not _rows_eq(mc, [l.split() for l in cl]):
        return "codelen file: model %s, code %s" % (mc[:3], [l.split() for l in cl][:3])
    if not _rows_eq(md, [l.split() for l in dv]):
        return "derivs file: model %s, code %s" % (md[:3], [l.split() for l in dv][:3])
    return None


def oracle(jb, P, real):
    """the property on the real files: one row per function; row i carries values only function i can have produced
    (or the neutral nan/zero row). Returns list of (key, what)."""
    N = len(jb["funcs"])
    out = []
    if jb["kind"] == "fit":
        rows = [l.split() for l in real]
        if len(rows) != N:
            return [("stage-rows:negloglike:scripted", "negloglike file written by %d ranks has %d rows for %d functions" % (P, len(rows), N))]
        for i, r in enumerate(rows):
            ok = set()
            for o in jb["funcs"][i]:
                if isinstance(o, list):
                    ok.add(_tok(o[1]))
            neutral = _f(r[0]) != _f(r[0]) and all(_f(v) == 0 for v in r[1:])
            if not neutral and not any(_same(r[0], t) for t in ok):
                out.append(("row-misaligned:negloglike:scripted", "row %d of the negloglike file (P=%d, N=%d) holds %s, which function %d did not return (%s)" % (
                    i, P, N, r[:3], i, sorted(ok))))
                break
            o1 = jb["funcs"][i][0]
            mp = max(4, (jb["comp"] - 1) // 2)
            if isinstance(o1, list) and len(o1[2]) == mp and not (_same(r[0], _tok(o1[1])) and all(_same(a, _tok(b)) for a, b in zip(r[1:], o1[2]))):
                out.append(("row-wrong:negloglike:scripted", "function %d was fitted successfully (%s, %s) but its row (P=%d) reads %s" % (i, _tok(o1[1]), o1[2], P, r)))
                break
        return out
    cl, dv, left = real
    rows = [l.split() for l in cl]
    drows = [l.split() for l in dv]
    if len(rows) != N or len(drows) != N:
        return [("stage-rows:codelen:scripted", "codelen/derivs files written by %d ranks have %d/%d rows for %d functions" % (P, len(rows), len(drows), N))]
    for i, r in enumerate(rows):
        nll0 = _tok(jb["table"][i][0])
        if nll0 in BAD:
            if _f(r[0]) == _f(r[0]) and abs(_f(r[0])) != float("inf"):
                out.append(("finite-codelen-on-bad-nll:scripted", "function %d has stage-1 likelihood %s but the Fisher stage (P=%d) gives it the finite code length %s" % (i, nll0, P, r[0])))
                break
            continue
        o1 = jb["funcs"][i][0]
        if isinstance(o1, list):
            want = [_tok(o1[4]), _tok(o1[2])] + [_tok(v) for v in o1[1]]
            if not (len(want) == len(r) and all(_same(a, b) for a, b in zip(r, want))):
                out.append(("row-misaligned:codelen:scripted", "function %d (stage-1 row %s) was converted to %s but row %d of the codelen file (P=%d, N=%d) reads %s" % (
                    i, jb["table"][i][:2], want[:4], i, P, N, r[:4])))
                break
        elif not (_same(r[1], nll0) or (o1 == "ne" and jb["tryInt"] and isinstance(jb["funcs"][i][1], list) and _same(r[1], _tok(jb["funcs"][i][1][2])))):
            out.append(("row-misaligned:codelen:scripted", "row %d of the codelen file (P=%d, N=%d) carries likelihood %s, function %d's stage-1 value is %s" % (i, P, N, r[1], i, nll0)))
            break
    if left:
        out.append(("temp-files-left:scripted", "temp files left behind after the Fisher stage on %d ranks: %s" % (P, left[:3])))
    return out


def run_batch(ctx, jobs, P, tag, timeout=180):
    work = os.path.join(ctx.tmp, "stg_%s_P%d" % (tag, P))
    shutil.rmtree(work, ignore_errors=True)
    os.makedirs(work)
    jf = os.path.join(work, "jobs.json")
    json.dump(jobs, open(jf, "w"))
    r = mpirun.run(P, [os.path.join(common.HARNESS, "workers", "stage_script.py"), jf, work, os.path.join(work, "out")],
                   timeout=timeout, env_extra=ctx.env(), cwd=ctx.stage, python=common.PY)
    res = None
    if r["ok"] and os.path.exists(os.path.join(work, "out.json")):
        res = json.load(open(os.path.join(work, "out.json")))
    tail = ""
    if not r["ok"]:
        for f in r.get("stdout", []):
            try:
                t = open(f).read()
                if "Traceback" in t:
                    tail = t[t.rindex("Traceback"):][-500:].replace("\n", " | "); break
            except Exception:
                pass
    shutil.rmtree(r.get("tmp", ""), ignore_errors=True)
    shutil.rmtree(work, ignore_errors=True)
    return r, res, tail


def run(ctx, njobs, Ps, Nmax):
    """returns (ops, mismatches)"""
    jobs = gen_jobs(ctx.rng, njobs, Nmax)
    plain = [j for j in jobs if not crashes(j)]
    crash = sorted([j for j in jobs if crashes(j)], key=lambda j: len(j["funcs"]) > 0)[:4]      # the N = 0 Fisher job first
    nops = nbad = 0
    for P in Ps:
        lines = [model_line(j, P) for j in plain]
        mout = common.model(lines)
        r, res, tail = run_batch(ctx, plain, P, "b")
        if res is None:
            # some job does not complete on every rank: find it (each job alone)
            for k, jb in enumerate(plain):
                r1, res1, tail1 = run_batch(ctx, [jb], P, "s%d" % k)
                if res1 is None:
                    what = "%s stage with scripted routines (N=%d functions, comp=%d, try_integration=%s) does not complete on %d ranks: %s %s %s" % (
                        "fitting" if jb["kind"] == "fit" else "Fisher", len(jb["funcs"]), jb["comp"], jb["tryInt"], P, r1["error"], r1["exit_codes"], tail1)
                    ctx.fail("stage-incomplete:scripted:%s" % jb["kind"], what, dict(kind="stage", job=jb, P=P))
                    if mout[k] != "none":
                        nbad += 1
                        ctx.disagree("corr:stage-drivers", "model predicts completion (%s…), the code does not complete: %s" % (mout[k][:60], tail1[-200:]))
                    break
            continue
        for jb, ml, rl in zip(plain, mout, res):
            nops += 1
            ctx.case(("stage", jb["kind"], len(jb["funcs"]), P, jb["tryInt"]), nontrivial=(P >= 2))
            d = compare(jb, P, ml, rl)
            if d:
                nbad += 1
                ctx.disagree("corr:stage-drivers", "%s P=%d N=%d: %s" % (jb["kind"], P, len(jb["funcs"]), d))
            for key, what in oracle(jb, P, rl):
                ctx.fail(key, what, dict(kind="stage", job=jb, P=P))
    # scripts outside the property's precondition (an unprotected retry raises): the model says `none`, the code must not complete
    for k, jb in enumerate(crash):
        P = Ps[k % len(Ps)]
        ml = common.model([model_line(jb, P)])[0]
        r, res, tail = run_batch(ctx, [jb], P, "c%d" % k, timeout=60)
        nops += 1
        if (ml == "none") != (res is None):
            nbad += 1
            ctx.disagree("corr:stage-drivers", "escaping retry: model %s, code %s" % (ml[:40], "completes" if res is not None else "does not complete"))
    ctx.sample(dict(stage_driver_jobs=len(plain), escaping_retry_jobs=len(crash), ranks=list(Ps)))
    return nops, nbad


def replay(ctx, rp):
    jb, P = rp["job"], rp["P"]
    r, res, tail = run_batch(ctx, [jb], P, "rp")
    if res is None:
        print("does not complete:", r["error"], tail)
        return False
    bad = oracle(jb, P, res[0])
    for key, what in bad:
        print(what)
    return not bad
