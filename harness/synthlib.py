"""Small hand-built libraries (files in the exact formats the generation stage writes) with known-correct and
deliberately wrong merges, to exercise simplifier.check_results / load_subs / match on any rank count."""
import csv, os


TEMPLATES = [            # (recorded map p as written to the file, inverse to build the variant: a_j -> expr)
    ("{a0: -a0}", {"a0": "(-a0)"}),
    ("{a0: 1/a0}", {"a0": "(1/a0)"}),
    ("{a0: a0/2}", {"a0": "(2*a0)"}),
    ("{a0: a0/3}", {"a0": "(3*a0)"}),
    ("{a1: -a1}", {"a1": "(-a1)"}),
    ("{a0: a1, a1: a0}", {"a0": "a1", "a1": "a0"}),
]
UNIQUES = ["a0*x", "a0 + x", "a0*x + a1", "x**2", "a0/x + a1", "exp(a0*x)", "a1*x**2 + a0", "x"]


def _subst(u, inv):
    import re
    return re.sub(r"\ba(\d)\b", lambda m: inv.get("a" + m.group(1), "a" + m.group(1)), u)


def build(dirname, compl, rng, nrows=24, nwrong=4):
    """writes the library; returns list of rows dict(fun, match, chain, wrong)"""
    import sympy
    from esr.fitting.sympy_symbols import sympy_locs
    from esr.generation.custom_printer import ESRPrinter
    locs = dict(sympy_locs)
    for k in range(4):
        locs["a%d" % k] = sympy.Symbol("a%d" % k, real=True)
    pr = ESRPrinter()
    rows = []
    for k, u in enumerate(UNIQUES):
        rows.append(dict(fun=u, match=k, chain=[], wrong=False))          # every unique is its own first variant
    while len(rows) < nrows:
        k = rng.randrange(len(UNIQUES))
        u = UNIQUES[k]
        nch = rng.choice([1, 1, 2])
        chain, f = [], u
        for _ in range(nch):
            m, inv = rng.choice(TEMPLATES)
            if any(key not in u for key in inv):
                continue
            f = _subst(f, inv)
            chain.insert(0, m)             # f(p1(p2(theta))) : the first recorded map is applied last
        if not chain:
            continue
        try:
            fs = pr.doprint(sympy.sympify(f, locals=locs))
        except Exception:
            continue
        if fs in UNIQUES or any(r["fun"] == fs and r["match"] != k for r in rows):
            continue        # in a generated library a string determines its unique: keep the synthetic one consistent with that
        rows.append(dict(fun=fs, match=k, chain=chain, wrong=False))
    # deliberately wrong merges: right map but wrong unique with the same parameter count, or a wrong scale
    cand = [r for r in rows if r["chain"]]
    rng.shuffle(cand)
    for r in cand[:nwrong]:
        if rng.random() < 0.5:
            same = [k for k, u in enumerate(UNIQUES) if k != r["match"] and u.count("a1") == UNIQUES[r["match"]].count("a1")
                    and ("a0" in u) == ("a0" in UNIQUES[r["match"]])]
            if same:
                r["match"] = rng.choice(same); r["wrong"] = True; continue
        r["chain"] = ["{a0: a0/7}"] + r["chain"][1:]
        r["wrong"] = True
    os.makedirs(dirname, exist_ok=True)
    c = compl
    with open(os.path.join(dirname, "all_equations_%d.txt" % c), "w") as f:
        f.writelines(r["fun"] + "\n" for r in rows)
    with open(os.path.join(dirname, "unique_equations_%d.txt" % c), "w") as f:
        f.writelines(u + "\n" for u in UNIQUES)
    with open(os.path.join(dirname, "matches_%d.txt" % c), "w") as f:
        f.writelines("%d\n" % r["match"] for r in rows)
    with open(os.path.join(dirname, "inv_subs_%d.txt" % c), "w") as f:
        csv.writer(f, delimiter=";").writerows([r["chain"] for r in rows])
    for name in ("trees", "aifeyn"):
        with open(os.path.join(dirname, "%s_%d.txt" % (name, c)), "w") as f:
            f.writelines("0\n" for _ in rows)
    return rows
