#!/venv/bin/python
"""MANIFEST.setup_cmd: regenerate the tables from /repo's current working tree, then build the Lean project.

The build of the property theorems against a CHANGED /repo may fail by design (a broken obligation is what the checks
report, each for its own property, after their failing-input search); setup therefore never fails because of a theorem:
it builds everything it can (`lake build ESRVerif esrmodel`, then module by module) and exits non-zero only if the
toolchain itself does not work (the executable model cannot be built even from the committed baseline tables)."""
import glob, os, subprocess, sys

HERE = os.path.dirname(os.path.abspath(__file__))
LEAN = os.path.join(os.path.dirname(HERE), "lean")
sys.path.insert(0, HERE)


def lake(*targets):
    p = subprocess.run(["lake", "build"] + list(targets), cwd=LEAN, capture_output=True, text=True)
    return p.returncode, (p.stdout + p.stderr)


def main():
    repo = os.environ.get("ESRV_REPO", "/repo")
    try:
        import extract
        inf = extract.generate(repo, os.path.join(LEAN, "ESRVerif", "Generated"))
        if inf.get("errors"):
            print("setup: extractors that could not read %s (committed baseline tables stand in): %s" % (repo, sorted(inf["errors"])))
    except Exception as e:                                   # the checks regenerate (and report) on their own
        print("setup: table regeneration failed (%r); building the committed tables" % (e,))
    rc, out = lake("ESRVerif", "esrmodel")
    if rc == 0:
        print("setup: lake build ESRVerif esrmodel ok")
        return 0
    print("setup: full build failed; building module by module (a theorem that no longer checks is reported by its check)")
    print(out[-1500:])
    rc_m, out_m = lake("esrmodel")
    if rc_m != 0:
        print(out_m[-3000:])
        print("setup: the executable model does not build")
        return 1
    for f in sorted(glob.glob(os.path.join(LEAN, "ESRVerif", "Props", "*.lean"))):
        m = "ESRVerif.Props." + os.path.basename(f)[:-5]
        r, _ = lake(m)
        print("setup: %s %s" % (m, "ok" if r == 0 else "DOES NOT BUILD"))
    return 0


if __name__ == "__main__":
    sys.exit(main())
