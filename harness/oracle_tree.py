"""Independent prefix-tree evaluator for ESR label lists (self-contained: no ESR, no sympy, no Lean model).

A label list is the prefix (pre-order) form of an expression tree over a basis
[nullary, unary, binary].  Arity comes from the basis only; parameters `a<k>` and numeric literals are nullary.
Semantics are ESR's: pow(a,b) = |a|**b, sqrt/sqrt_abs = sqrt|a|, log/log_abs = log|a|, inv = 1/a, ...
"""
import math, re
from fractions import Fraction

API_RENAME = {"Mul": "*", "Add": "+", "Div": "/", "Sub": "-"}     # the string API's documented renaming


class Malformed(Exception):
    """The label list is not the prefix form of a tree over the basis. `.sig` is a stable signature."""
    def __init__(self, sig, detail=""):
        Exception.__init__(self, sig + (": " + detail if detail else ""))
        self.sig = sig


def api_name(label):
    """Operator spelling used by the basis for a label as returned by to_list."""
    return API_RENAME.get(label, label.lower())


_PARAM = re.compile(r"a\d+\Z")


def number_value(label):
    """Value of a numeric literal label ('2', '-1', '1/2', '2.50000000000000', '1.0e-5'), else None."""
    try:
        return float(label)
    except (TypeError, ValueError):
        pass
    m = re.match(r"(-?\d+)/(\d+)\Z", label or "")
    if m and int(m.group(2)) != 0:
        return float(Fraction(int(m.group(1)), int(m.group(2))))
    return None


def arity(label, basis):
    for k in (2, 1, 0):
        if label in basis[k]:
            return k
    if _PARAM.match(label):
        return 0
    v = number_value(label)
    if v is not None and re.match(r"[-+]?[0-9.]", label):       # a numeric literal (it may overflow to inf), not 'nan'/'inf'
        return 0
    return None


def parse(labels, basis):
    """-> nested tuples (label, child, ...) with the position of every node: (label, pos, children...)"""
    pos = [0]

    def one(parent):
        if pos[0] >= len(labels):
            raise Malformed("truncated:%s" % parent, "operand missing at end of %r" % (labels,))
        i = pos[0]
        lab = labels[i]
        k = arity(lab, basis)
        if k is None:
            raise Malformed("unknown-label:%s" % lab, "label %r at position %d of %r is not in the basis" % (lab, i, labels))
        pos[0] += 1
        kids = []
        for j in range(k):
            heads = ",".join(c[0] for c in kids)
            kids.append(one("%s(%s)" % (lab, heads)))
        return (lab, i) + tuple(kids)

    if not labels:
        raise Malformed("empty")
    t = one("<root>")
    if pos[0] != len(labels):
        raise Malformed("trailing:%s" % labels[pos[0]], "labels left over after a complete tree in %r" % (labels,))
    return t


def diagnose(labels, basis):
    """Stable signature of a malformed list.  If giving ONE operator one more operand (a dummy leaf) repairs the list, the
    signature names that operator and the head of the operand it does have: `missing-operand:*(-1,_)`; the repair whose
    operator is a product with the literal -1 as its only operand is preferred when several repairs exist."""
    try:
        parse(labels, basis)
        return None
    except Malformed as m:
        base = m.sig
    if base.startswith("unknown-label") or base == "empty":
        return base
    dummy = "a999"
    found = []
    for k in range(1, len(labels) + 1):
        trial = list(labels[:k]) + [dummy] + list(labels[k:])
        try:
            t = parse(trial, basis)
        except Malformed:
            continue

        def find(n):
            for j, c in enumerate(n[2:]):
                if c[1] == k and c[0] == dummy:
                    return n, j
                r = find(c)
                if r:
                    return r
            return None
        r = find(t)
        if r:
            n, j = r
            heads = ["_" if i == j else n[2 + i][0] for i in range(len(n) - 2)]
            found.append("missing-operand:%s(%s)" % (n[0], ",".join(heads)))
    for f in found:
        m = re.match(r"missing-operand:\*\((-1(\.0*)?),_\)\Z", f)
        if m:
            return "missing-operand:*(-1,_)"
    if found:
        return found[0]
    # several operands missing: all of them after a product whose only operand is the literal -1 ?
    import itertools
    cand = [k + 2 for k in range(len(labels) - 1) if labels[k] == "*" and re.match(r"-1(\.0*)?\Z", labels[k + 1])]
    for r in (2, 3):
        for sub in itertools.combinations(cand, r):
            trial = list(labels)
            for k in sorted(sub, reverse=True):
                trial.insert(k, dummy)
            try:
                parse(trial, basis)
                return "missing-operand:*(-1,_)"
            except Malformed:
                pass
    return base


def parents(labels, basis):
    """parent label of every position (None for the root)"""
    out = [None] * len(labels)

    def walk(t):
        for c in t[2:]:
            out[c[1]] = t[0]
            walk(c)
    walk(parse(labels, basis))
    return out


def _pow(a, b):
    return math.pow(abs(a), b)


UNARY = {
    "inv": lambda a: 1.0 / a,
    "square": lambda a: a * a,
    "cube": lambda a: a * a * a,
    "sqrt": lambda a: math.sqrt(abs(a)),
    "sqrt_abs": lambda a: math.sqrt(abs(a)),
    "log": lambda a: math.log(abs(a)),
    "log_abs": lambda a: math.log(abs(a)),
    "log10_abs": lambda a: math.log10(abs(a)),
    "tenexp": lambda a: math.pow(10.0, a),
    "exp": math.exp,
    "sin": math.sin,
    "cos": math.cos,
    "tan": math.tan,
    "abs": abs,
}
BINARY = {
    "+": lambda a, b: a + b,
    "*": lambda a, b: a * b,
    "-": lambda a, b: a - b,
    "/": lambda a, b: a / b,
    "pow": _pow,
    "pow_abs": _pow,
}


def evaluate(tree, env):
    """env: name -> float for 'x' and parameters.  Raises ArithmeticError/ValueError/OverflowError on a singular point."""
    lab = tree[0]
    kids = tree[2:]
    if not kids:
        if lab in env:
            return env[lab]
        v = number_value(lab)
        if v is None:
            raise Malformed("unbound-leaf:%s" % lab)
        return v
    if len(kids) == 1:
        f = UNARY.get(lab)
        if f is None:
            raise Malformed("no-semantics:%s" % lab)
        return f(evaluate(kids[0], env))
    f = BINARY.get(lab)
    if f is None:
        raise Malformed("no-semantics:%s" % lab)
    return f(evaluate(kids[0], env), evaluate(kids[1], env))


def eval_labels(labels, basis, env):
    return evaluate(parse(labels, basis), env)
