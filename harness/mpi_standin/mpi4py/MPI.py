import os, pickle, sys, time

_SIZE = int(os.environ.get("ESRV_MPI_SIZE", "1"))
_RANK = int(os.environ.get("ESRV_MPI_RANK", "0"))
_ADDR = os.environ.get("ESRV_MPI_ADDR")


class _HubError(RuntimeError):
    pass


class _Comm(object):
    def __init__(self):
        self._seq = 0
        self._conn = None
        self.trace = []          # (seq, op, root) per collective, for the harness

    # -- plumbing -----------------------------------------------------------
    def _connect(self):
        if self._conn is None:
            from multiprocessing.connection import Client
            self._conn = Client(_ADDR, family="AF_UNIX")
            self._conn.send(("hello", _RANK))
        return self._conn

    def _collective(self, op, root, payload):
        seq = self._seq
        self._seq += 1
        self.trace.append((seq, op, root))
        blob = pickle.dumps(payload, protocol=pickle.HIGHEST_PROTOCOL)
        if _SIZE == 1:
            obj = pickle.loads(blob)
            if op == "bcast":
                return obj
            if op == "gather":
                return [obj]
            if op == "scatter":
                if len(obj) != 1:
                    raise ValueError("scatter: expecting a sequence of 1 items")
                return obj[0]
            if op == "allgather":
                return [obj]
            return None
        c = self._connect()
        c.send((seq, op, root, blob))
        kind, data = c.recv()
        if kind == "err":
            raise _HubError(data)
        return pickle.loads(data)

    # -- API ------------------------------------------------------------------
    def Get_rank(self):
        return _RANK

    def Get_size(self):
        return _SIZE

    rank = property(Get_rank)
    size = property(Get_size)

    def bcast(self, obj=None, root=0):
        return self._collective("bcast", root, obj if _RANK == root else None)

    def gather(self, sendobj, root=0):
        return self._collective("gather", root, sendobj)

    def allgather(self, sendobj):
        return self._collective("allgather", 0, sendobj)

    def scatter(self, sendobj=None, root=0):
        if _RANK == root:
            sendobj = list(sendobj)
            if len(sendobj) != _SIZE:
                raise ValueError("scatter: expecting a sequence of %d items" % _SIZE)
        return self._collective("scatter", root, sendobj if _RANK == root else None)

    def Barrier(self):
        return self._collective("barrier", 0, None)

    barrier = Barrier

    def Abort(self, errorcode=1):
        os._exit(errorcode)


COMM_WORLD = _Comm()
SUM = "sum"


def Finalize():
    pass
