"""Stand-in for mpi4py used by /verif (no MPI library exists in this sandbox).

Ranks are OS processes started by harness/mpirun.py; collectives go through a
hub (AF_UNIX, multiprocessing.connection) and every payload is pickled, as the
lowercase mpi4py methods do.  With ESRV_MPI_SIZE unset it is a 1-rank world.
"""
