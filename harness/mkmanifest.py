#!/usr/bin/env python3
"""Regenerates /verif/MANIFEST.json from the per-property modules in harness/props (single source of truth)."""
import importlib, json, os, sys
HERE = os.path.dirname(os.path.abspath(__file__))
sys.path.insert(0, HERE)
VERIF = os.path.dirname(HERE)
props = [json.loads(l) for l in open(os.path.join(VERIF, "properties.jsonl"))]
checks, na = [], []
for p in props:
    pid = p["id"]
    path = os.path.join(HERE, "props", pid.lower() + ".py")
    nr = os.path.join(HERE, "not_ready.txt")
    pending = set(open(nr).read().split()) if os.path.exists(nr) else set()
    if not os.path.exists(path) or pid in pending:
        na.append(dict(property_id=pid, reason="check not built yet in this session (planned in DESIGN.md section 3); not claimed until its theorem and code tie exist"))
        continue
    # read metadata without importing heavy deps
    src = open(path).read()
    ns = {}
    meta = {}
    import ast
    for node in ast.parse(src).body:
        if isinstance(node, ast.Assign) and len(node.targets) == 1 and isinstance(node.targets[0], ast.Name):
            try:
                meta[node.targets[0].id] = ast.literal_eval(node.value)
            except Exception:
                pass
    if meta.get("NOT_APPLICABLE"):
        na.append(dict(property_id=pid, reason=meta["NOT_APPLICABLE"]))
        continue
    checks.append(dict(
        property_id=pid,
        quick_cmd="/venv/bin/python harness/check.py %s --tier quick" % pid,
        thorough_cmd="/venv/bin/python harness/check.py %s --tier thorough" % pid,
        evidence_file="evidence/%s.json" % pid,
        replay_cmd_template="/venv/bin/python harness/check.py %s --replay {path}" % pid,
        engine="lean4-esrverif",
        level_claimed=dict(category=meta.get("LEVEL", "other"), text=meta.get("LEVEL_TEXT", meta.get("EXPLANATION", "")),
                           design_ref="DESIGN.md section 3, %s" % pid),
        level_note="; ".join(meta.get("TRUSTED", []) + meta.get("ASSUMPTIONS", [])),
        technique=meta.get("TECHNIQUE", "Lean 4 theorem over a model of the code + checked model/code correspondence"),
    ))
man = dict(
    version=1,
    setup_cmd="/venv/bin/python harness/setup.py",
    hooks=dict(guard="ESR_VERIF", enable="checks copy /repo's working tree to a scratch dir and run it with ESR_VERIF=1 under harness/mpi_standin (no build step: Python)",
               baseline_off_cmd="cd /repo && /venv/bin/python -m pytest -ra -q -p no:cacheprovider --timeout=900 --continue-on-collection-errors",
               source_commits=json.load(open(os.path.join(VERIF, "hooks.json"))).get("source_commits", []) if os.path.exists(os.path.join(VERIF, "hooks.json")) else [],
               add_only=True),
    engines=[dict(name="lean4-esrverif", path="lean/", serves_properties=[c["property_id"] for c in checks],
                  kind_free_text="Lean 4.33 lake project: executable models (Model/), regenerated tables (Generated/), property theorems (Props/), line-protocol driver (Main.lean); harness/check.py ties it to /repo")],
    checks=checks,
    notes="Every check: stage /repo working tree -> regenerate Generated/*.lean -> lake build + axiom audit -> model/code correspondence + property oracle on the real code -> decide. See DESIGN.md.",
    not_applicable=na,
)
json.dump(man, open(os.path.join(VERIF, "MANIFEST.json"), "w"), indent=1)
print("claimed:", [c["property_id"] for c in checks], "not yet:", [n["property_id"] for n in na])
