"""Call-sequence histories of the formula-string API (shared by props/c18.py and props/c20.py).

The property quantifies over every formula and every option setting; a user calls these functions many times in one process.
A history is a PRNG sequence of calls over a small pool of formulas in which, for EVERY formula, EVERY ordered pair of option
settings (the same setting twice included) occurs as two consecutive calls on that formula (an Euler circuit of the complete
directed graph with loops over the settings - enumerated, not left to chance), the formulas interleaved at random.
Oracle: each call returns what the same call returns as the FIRST call of a fresh process (workers/strapi_seq.py, fork mode).
"""
import json, os, subprocess, sys, time

HERE = os.path.dirname(os.path.abspath(__file__))
WORKER = os.path.join(HERE, "workers", "strapi_seq.py")


def euler_pairs(k, rng):
    """a closed walk over 0..k-1 that uses every ordered pair (i, j), i == j included, exactly once: k*k + 1 vertices"""
    out_edges = {i: list(range(k)) for i in range(k)}
    for i in out_edges:
        rng.shuffle(out_edges[i])
    start = rng.randrange(k)
    stack, circuit = [start], []
    while stack:
        v = stack[-1]
        if out_edges[v]:
            stack.append(out_edges[v].pop())
        else:
            circuit.append(stack.pop())
    circuit.reverse()
    return circuit


def covers_all_pairs(seq, k):
    return set(zip(seq, seq[1:])) == set((i, j) for i in range(k) for j in range(k))


def interleave(seqs, rng, stay=0.5):
    """merge the per-formula sequences keeping each one's order; `stay`: probability to go on with the same formula"""
    pos = [0] * len(seqs)
    live = [i for i, s in enumerate(seqs) if s]
    out = []
    cur = None
    while live:
        if cur not in live or rng.random() >= stay:
            cur = rng.choice(live)
        out.append((cur, seqs[cur][pos[cur]]))
        pos[cur] += 1
        if pos[cur] >= len(seqs[cur]):
            live.remove(cur)
    return out


def launch(ctx_env, tmpdir, name, spec):
    os.makedirs(tmpdir, exist_ok=True)
    sp = os.path.join(tmpdir, name + ".spec.json")
    op = os.path.join(tmpdir, name + ".out.json")
    json.dump(spec, open(sp, "w"))
    p = subprocess.Popen([sys.executable, WORKER, sp, op], env=ctx_env, cwd=tmpdir, stdout=subprocess.DEVNULL, stderr=subprocess.PIPE)
    return dict(proc=p, out=op, name=name, spec=spec, t0=time.time())


def collect(h, timeout):
    """-> (results or None, error text or None); never raises"""
    try:
        try:
            _, err = h["proc"].communicate(timeout=timeout)
        except subprocess.TimeoutExpired:
            h["proc"].kill()
            h["proc"].communicate()
            return None, "worker %s did not finish within %d s" % (h["name"], timeout)
        h["wall_s"] = round(time.time() - h["t0"], 1)
        if not os.path.exists(h["out"]):
            return None, "worker %s wrote no result (exit %s): %s" % (h["name"], h["proc"].returncode, (err or b"").decode("utf-8", "replace")[-400:])
        res = json.load(open(h["out"]))
        if not res.get("ok"):
            return res.get("results"), "worker %s: %r" % (h["name"], res.get("error"))
        if len(res["results"]) != len(h["spec"]["tasks"]):
            return None, "worker %s returned %d of %d tasks" % (h["name"], len(res["results"]), len(h["spec"]["tasks"]))
        return res["results"], None
    except Exception as e:                                   # harness trouble is data too
        return None, "collecting worker %s: %r" % (h["name"], e)


def run_many(ctx_env, tmpdir, specs, timeout, maxpar=8):
    """specs: [(name, spec)] -> {name: (results, error)}; at most maxpar workers at a time"""
    out = {}
    todo = list(specs)
    live = []
    while todo or live:
        while todo and len(live) < maxpar:
            n, s = todo.pop(0)
            live.append(launch(ctx_env, tmpdir, n, s))
        h = live.pop(0)
        out[h["name"]] = collect(h, timeout)
    return out


def strip(r, keys):
    """the comparable part of a call's result"""
    if r is None:
        return None
    if not r.get("ok"):
        return dict(ok=False, exc=r.get("exc"))
    return {k: r.get(k) for k in ["ok"] + list(keys) if k in r}
