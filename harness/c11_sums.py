"""C11 — correspondence of the Lean list-level model `US.updateSums` with the real `update_sums`.

* `USRec` records every DISTINCT call the real driver makes to `update_sums` (labels, shape, try_idx, basis) with the
  canonical form of its result;
* `synthetic_calls` draws sum-centred trees WITH integer literals (`2*A + A`, `A - 3*A`, `(-1)*A`, `A*(-2)`, `0*A`,
  nested sums under products) that the driver only reaches after several rewrites, and calls the real function on
  them directly — this is how the `neg_const`, `run_anyway` and rebuild branches are exercised;
* `compare` sends the calls to the model (op `rwus`) and returns (compared, mismatches, unported, result kinds).
A model answer `unported <why>` is counted, never compared and never hidden.
"""
import common

BASIS = [["x", "a"], ["inv", "exp", "log_abs", "square"], ["+", "*", "-", "/", "pow"]]


def _csv(xs):
    return ",".join(xs) if xs else "_"


def canon(res):
    L, sh, n = res
    if L is None:
        return "none" if n == 0 and sh is None else "none?nadded=%r" % (n,)
    if len(L) == 0:
        return "many" if (n == 0 and len(sh) == 0) else "many?nadded=%r" % (n,)
    if isinstance(L[0], str):
        return "one %s %s" % (",".join(L), "".join(str(int(a)) for a in sh)) + ("" if n == 1 else "?nadded=%r" % (n,))
    return "many " + ";".join("%s:%s" % (",".join(l), "".join(str(int(a)) for a in s_)) for l, s_ in zip(L, sh)) + \
        ("" if n == len(L) == len(sh) else "?nadded=%r" % (n,))


class USRec(object):
    def __init__(self, cap):
        self.calls = {}
        self.cap = cap
        self.total = 0

    def install(self):
        from esr.generation import generator as g
        self.g = g
        self.orig = g.update_sums
        rec = self

        def wrapped(tree, labels, try_idx, basis):
            rec.total += 1
            key = None
            if isinstance(labels, list) and all(isinstance(z, str) for z in labels) and len(rec.calls) < rec.cap:
                key = (tuple(labels), "".join(str(int(t.type)) for t in tree), int(try_idx), _csv(basis[1]), _csv(basis[2]))
                if key in rec.calls:
                    key = None
            try:
                res = rec.orig(tree, labels, try_idx, basis)
            except Exception:
                if key is not None:
                    rec.calls[key] = "err"
                raise
            if key is not None:
                rec.calls[key] = canon(res)
            return res
        g.update_sums = wrapped

    def remove(self):
        self.g.update_sums = self.orig


# ---- synthetic sum-centred trees ------------------------------------------------------------------------------------

def _small(rng):
    r = rng.random()
    if r < 0.45:
        return [rng.choice(["x", "a0", "a1"])], [0]
    if r < 0.7:
        l, s = _small(rng)
        return [rng.choice(BASIS[1])] + l, [1] + s
    if r < 0.8:
        return [rng.choice(["1", "2", "-1", "0", "3"])], [0]
    l1, s1 = _small(rng)
    l2, s2 = _small(rng)
    return [rng.choice(["*", "/", "pow", "*"])] + l1 + l2, [2] + s1 + s2


def _wrap(rng, t, depth):
    """a summand: the pool term, possibly under products with integer literals on either side"""
    l, s = t
    r = rng.random()
    if r < 0.45:
        return l, s
    lit = rng.choice(["2", "3", "-1", "-2", "0", "1", "-1", "2"])
    if r < 0.7:
        return ["*", lit] + l, [2, 0] + s
    if r < 0.85:
        return ["*"] + l + [lit], [2] + s + [0]
    if r < 0.93 and depth < 2:
        il, is_ = _sum(rng, depth + 1)
        if rng.random() < 0.5:
            return ["*", lit] + il, [2, 0] + is_
        return ["*"] + il + [lit], [2] + is_ + [0]
    return ["/"] + l + [lit], [2] + s + [0]


def _sum(rng, depth=0, pool=None):
    pool = pool or [_small(rng) for _ in range(rng.choice([1, 2, 2, 3]))]
    m = rng.choice([2, 2, 3, 3, 4, 5])
    terms = [_wrap(rng, rng.choice(pool), depth) for _ in range(m)]
    while len(terms) > 1:
        k = rng.randrange(len(terms) - 1)
        (l1, s1), (l2, s2) = terms[k], terms[k + 1]
        terms[k:k + 2] = [([rng.choice(["+", "-"])] + l1 + l2, [2] + s1 + s2)]
    return terms[0]


def gen_sum_tree(rng):
    l, s = _sum(rng)
    r = rng.random()
    if r < 0.25:
        return [rng.choice(BASIS[1])] + l, [1] + s
    if r < 0.45:
        l2, s2 = _small(rng)
        if rng.random() < 0.5:
            return [rng.choice(["*", "/", "pow"])] + l + l2, [2] + s + s2
        return [rng.choice(["*", "/", "pow"])] + l2 + l, [2] + s2 + s
    if r < 0.55:
        l2, s2 = _sum(rng)
        return ["*"] + l + l2, [2] + s + s2
    return l, s


def synthetic_calls(rng, n, basis=None):
    """n PRNG trees x try_idx 0..2 through the REAL update_sums -> {key: canonical result}"""
    import numpy as np
    from esr.generation import generator as g
    calls = {}
    for _ in range(n):
        b = basis or (BASIS if rng.random() < 0.8 else [BASIS[0], BASIS[1], ["+", "-", "/", "pow"]])    # also a basis without '*'
        l, s = gen_sum_tree(rng)
        if len(l) > 40:
            continue
        tree = g.check_tree(np.array(s, dtype=int))[2]
        for k in range(3):
            key = (tuple(l), "".join(map(str, s)), k, _csv(b[1]), _csv(b[2]))
            if key in calls:
                continue
            try:
                calls[key] = canon(g.update_sums(tree, list(l), k, b))
            except Exception:
                calls[key] = "err"
    return calls


def compare(ctx, calls, tag):
    keys = list(calls)
    ops = ["rwus %s %s %s %s %d" % (k[3], k[4], ",".join(k[0]), k[1], k[2]) for k in keys]
    out = []
    for c in range(0, len(ops), 20000):
        out += common.model(ops[c:c + 20000])
    bad = 0
    bad_keys = []
    unported = {}
    kinds = {}
    growth = 0
    for k, o, m in zip(keys, ops, out):
        real = calls[k]
        kinds[real.split(" ")[0]] = kinds.get(real.split(" ")[0], 0) + 1
        if m.startswith("unported"):
            unported[m] = unported.get(m, 0) + 1
            continue
        if real != m:
            bad += 1
            bad_keys.append(k)
            if ctx is not None:
                ctx.disagree("corr:update_sums:" + tag, "%s: code=%s model=%s" % (o, real[:200], m[:200]))
        if real.startswith(("one ", "many ")):
            body = real.split(" ", 1)[1]
            cands = [body.split(" ")[0]] if real.startswith("one ") else [c.split(":")[0] for c in body.split(";")]
            growth = max(growth, max(len(c.split(",")) for c in cands) - len(k[0]))
    if ctx is not None and keys:
        j = next((i for i, k in enumerate(keys) if calls[k].startswith("many ")), len(keys) // 2)
        ctx.sample(dict(op=ops[j], code=calls[keys[j]][:160], model=out[j][:160]))
    return dict(compared=len(ops) - sum(unported.values()), mismatches=bad, unported=unported, kinds=kinds,
                max_length_growth=growth, ops=ops, out=out, bad_keys=bad_keys)


# ---- from a disagreeing call on a tree WITH integer literals back to original trees over the basis -------------------------------

def _subtrees(labels, arity):
    """spans (start, end) of every subtree of a prefix list"""
    out = []

    def walk(i):
        j = i + 1
        for _ in range(arity(labels[i])):
            j = walk(j)
        out.append((i, j))
        return j
    walk(0)
    return out


def deliteralise(labels, b, cap=24):
    """Trees over the basis (leaves x / a_k only) whose rewriting can REACH the given intermediate tree: a literal 0 becomes a
    cancelling difference `u - u`, an integer multiple `k*A` (k = 2, 3) a repeated sum, `-1*A` becomes `0 - A` -> `(u-u) - A`;
    and - because the fixed-point driver only keeps going while some sister tree still rewrites - one variable/parameter summand
    is replaced by `log_abs(square(.))` / `log_abs(cube(.))` / `exp(square(.))` when the basis has them.  Used only to SEARCH for
    an in-quantifier failing input after the update_sums model and the code disagreed on `labels`; every tree found is judged by
    the ordinary oracle through the real driver."""
    un, bi = set(b[1]), set(b[2])

    def arity(l):
        return 2 if l in bi else 1 if l in un else 0
    if "-" not in bi:
        return []
    labels = list(labels)
    try:
        if _subtrees(labels, arity)[-1] != (0, len(labels)):
            return []                                  # not a well-formed prefix list over this basis
    except IndexError:
        return []

    def is_int(z):
        try:
            int(z); return True
        except ValueError:
            return False
    # 1. remove literals
    base = []
    for u in ("a0", "x"):
        L, ok = [], True
        i = 0
        spans = {st: en for st, en in _subtrees(labels, arity)}
        while i < len(labels):
            z = labels[i]
            if z == "*" and "*" in bi and i + 2 in spans and i + 1 < len(labels) and is_int(labels[i + 1]) and int(labels[i + 1]) in (2, 3) and "+" in bi:
                k = int(labels[i + 1]); A = labels[i + 2:spans[i + 2]]
                if any(is_int(t) for t in A):
                    ok = False; break
                L += ["+"] * (k - 1) + A * k
                i = spans[i + 2]
                continue
            if is_int(z):
                if int(z) == 0:
                    L += ["-", u, u]
                else:
                    ok = False; break
            else:
                L.append(z)
            i += 1
        if ok and L not in base and len(L) <= 40:
            base.append(L)
    # 2. a sister summand that keeps the driver's loop alive
    out = list(base)
    wraps = [w for w in (["log_abs", "square"], ["log_abs", "cube"], ["exp", "square"], ["log_abs", "sqrt_abs"]) if all(t in un for t in w)]
    for L in base:
        for (st, en) in _subtrees(L, arity):
            if en - st == 1 and L[st] in ("x", "a0", "a1") and st > 0 and L[0] in ("+", "-"):
                for w in wraps:
                    cand = L[:st] + w + [L[st]] + L[en:]
                    if cand not in out:
                        out.append(cand)
                    if len(out) >= cap:
                        return out
    return out
