"""Independent closed-form description length of trees that are linear in their parameters under Gaussian noise.

DL(tree) = NLL(theta*) + codelen(theta*, F) + k ln n + sum ln|c|      (the three terms of the property statements)
 theta* = weighted-least-squares solution, F = X^T X / sigma^2 (exact Hessian of the NLL), snapping rule of C07:
 parameters with |theta_i| sqrt(F_ii/12) < 1 are set to zero and dropped (the NLL is re-evaluated there),
 codelen = -(k/2) ln 3 + sum_kept (1/2 ln F_ii + ln|theta_i|).
Nothing here uses ESR code except the symbol table needed to read a function string.
"""
import math, re
import numpy as np

_PARAM = re.compile(r"\ba(\d+)\b")


def params_of(s):
    return sorted(set(int(m) for m in _PARAM.findall(s)))


def linear_model(fstr):
    """(k, cols, offset) with f = offset(x) + sum_j a_j cols[j](x), or None when f is not linear in a0..a(k-1) (gapless)"""
    import sympy
    from esr.fitting.sympy_symbols import sympy_locs
    ps = params_of(fstr)
    if ps != list(range(len(ps))) or not ps:
        return None
    locs = dict(sympy_locs)
    syms = [sympy.Symbol("a%d" % i, real=True) for i in range(len(ps))]
    for i, s in enumerate(syms):
        locs["a%d" % i] = s
    x = locs["x"]
    try:
        f = sympy.sympify(fstr, locals=locs)
    except Exception:
        return None
    cols = []
    try:
        if f.has(sympy.zoo) or f.has(sympy.nan):
            return None
        for a in syms:
            d = sympy.diff(f, a)
            if any(d.has(b) for b in syms) or d == 0 or d.has(sympy.zoo) or d.has(sympy.nan):
                return None
            cols.append(sympy.lambdify([x], d, modules=["numpy"]))
        off = f.subs({a: 0 for a in syms})
        if off.has(sympy.zoo) or off.has(sympy.nan) or off.has(sympy.oo):
            return None
        return len(ps), cols, sympy.lambdify([x], off, modules=["numpy"])
    except Exception:
        return None


def gauss_nll(y, f, s):
    return float(np.sum(0.5 * (f - y) ** 2 / s ** 2 + 0.5 * np.log(2 * np.pi) + np.log(s)))


def closed_form(x, y, s, model):
    """dict(theta, nll, codelen, kept, margin) or None if ill-posed. margin = min |log(|theta|sqrt(F/12))| (distance from the snapping threshold)"""
    k, cols, off = model
    with np.errstate(all="ignore"):
        X = np.column_stack([np.broadcast_to(np.asarray(c(x), dtype=float), x.shape) for c in cols])
        o = np.broadcast_to(np.asarray(off(x), dtype=float), x.shape)
    if not (np.all(np.isfinite(X)) and np.all(np.isfinite(o))):
        return None
    W = 1.0 / s ** 2
    A = X.T @ (X * W[:, None])
    if np.linalg.cond(A) > 1e10:
        return None
    theta = np.linalg.solve(A, X.T @ (W * (y - o)))
    F = np.diag(A)
    N = np.abs(theta) * np.sqrt(F / 12.0)
    kept = N >= 1
    th = np.where(kept, theta, 0.0)
    nll = gauss_nll(y, o + X @ th, s)
    kk = int(kept.sum())
    codelen = -kk / 2.0 * math.log(3.0) + float(np.sum(0.5 * np.log(F[kept]) + np.log(np.abs(theta[kept])))) if kk else 0.0
    margin = float(np.min(np.abs(np.log(np.maximum(N, 1e-300))))) if len(N) else 9.0
    return dict(theta=theta, theta_reported=th, nll=nll, nll_ml=gauss_nll(y, o + X @ theta, s), codelen=codelen, kept=kept, margin=margin, F=F)


def aifeyn(labels):
    """k ln n + sum ln|c| computed from the labels alone"""
    ints = [int(l) for l in labels if re.fullmatch(r"-?\d+", l)]
    isparam = [bool(re.fullmatch(r"a\d+", l)) for l in labels]
    ops = set(l for l, p in zip(labels, isparam) if not p and not re.fullmatch(r"-?\d+", l))
    n = len(ops) + (1 if (any(isparam) or ints) else 0)
    return len(labels) * math.log(n) + sum(math.log(abs(c) if c != 0 else 1) for c in ints)
