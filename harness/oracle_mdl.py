"""Independent closed-form description length of trees that are linear in their parameters under Gaussian noise.

DL(tree) = NLL(theta*) + codelen(theta*, F) + k ln n + sum ln|c|      (the three terms of the property statements)
 theta* = weighted-least-squares solution, F = X^T X / sigma^2 (exact Hessian of the NLL), snapping rule of C07:
 parameters with |theta_i| sqrt(F_ii/12) < 1 are set to zero and dropped (the NLL is re-evaluated there),
 codelen = -(k/2) ln 3 + sum_kept (1/2 ln F_ii + ln|theta_i|).
Nothing here uses ESR code except the symbol table needed to read a function string.
"""
import math, re
import numpy as np

_PARAM = re.compile(r"\ba(\d+)\b")


def params_of(s):
    return sorted(set(int(m) for m in _PARAM.findall(s)))


def linear_model(fstr):
    """(k, cols, offset) with f = offset(x) + sum_j a_j cols[j](x), or None when f is not linear in a0..a(k-1) (gapless)"""
    import sympy
    from esr.fitting.sympy_symbols import sympy_locs
    ps = params_of(fstr)
    if ps != list(range(len(ps))) or not ps:
        return None
    locs = dict(sympy_locs)
    syms = [sympy.Symbol("a%d" % i, real=True) for i in range(len(ps))]
    for i, s in enumerate(syms):
        locs["a%d" % i] = s
    x = locs["x"]
    try:
        f = sympy.sympify(fstr, locals=locs)
    except Exception:
        return None
    cols = []
    try:
        if f.has(sympy.zoo) or f.has(sympy.nan):
            return None
        for a in syms:
            d = sympy.diff(f, a)
            if any(d.has(b) for b in syms) or d == 0 or d.has(sympy.zoo) or d.has(sympy.nan):
                return None
            cols.append(sympy.lambdify([x], d, modules=["numpy"]))
        off = f.subs({a: 0 for a in syms})
        if off.has(sympy.zoo) or off.has(sympy.nan) or off.has(sympy.oo):
            return None
        return len(ps), cols, sympy.lambdify([x], off, modules=["numpy"])
    except Exception:
        return None


def gauss_nll(y, f, s):
    return float(np.sum(0.5 * (f - y) ** 2 / s ** 2 + 0.5 * np.log(2 * np.pi) + np.log(s)))


def closed_form(x, y, s, model):
    """dict(theta, nll, codelen, kept, margin) or None if ill-posed. margin = min |log(|theta|sqrt(F/12))| (distance from the snapping threshold)"""
    k, cols, off = model
    with np.errstate(all="ignore"):
        X = np.column_stack([np.broadcast_to(np.asarray(c(x), dtype=float), x.shape) for c in cols])
        o = np.broadcast_to(np.asarray(off(x), dtype=float), x.shape)
    if not (np.all(np.isfinite(X)) and np.all(np.isfinite(o))):
        return None
    W = 1.0 / s ** 2
    A = X.T @ (X * W[:, None])
    if np.linalg.cond(A) > 1e10:
        return None
    theta = np.linalg.solve(A, X.T @ (W * (y - o)))
    F = np.diag(A)
    N = np.abs(theta) * np.sqrt(F / 12.0)
    kept = N >= 1
    th = np.where(kept, theta, 0.0)
    nll = gauss_nll(y, o + X @ th, s)
    kk = int(kept.sum())
    codelen = -kk / 2.0 * math.log(3.0) + float(np.sum(0.5 * np.log(F[kept]) + np.log(np.abs(theta[kept])))) if kk else 0.0
    margin = float(np.min(np.abs(np.log(np.maximum(N, 1e-300))))) if len(N) else 9.0
    return dict(theta=theta, theta_reported=th, nll=nll, nll_ml=gauss_nll(y, o + X @ theta, s), codelen=codelen, kept=kept, margin=margin, F=F)


def aifeyn(labels):
    """k ln n + sum ln|c| computed from the labels alone"""
    ints = [int(l) for l in labels if re.fullmatch(r"-?\d+", l)]
    isparam = [bool(re.fullmatch(r"a\d+", l)) for l in labels]
    ops = set(l for l, p in zip(labels, isparam) if not p and not re.fullmatch(r"-?\d+", l))
    n = len(ops) + (1 if (any(isparam) or ints) else 0)
    return len(labels) * math.log(n) + sum(math.log(abs(c) if c != 0 else 1) for c in ints)


def separable_model(fstr):
    """Trees that are linear after a one-to-one reparametrisation of each parameter:
    f = off(x) + sum_i G_i(a_i) phi_i(x)  (e.g. x/a0, x + 1/a0, a0**3*x + a1).
    Returns (k, phis, off, Gs, dGs, syms, f_expr) with sympy callables, or None."""
    import sympy
    from esr.fitting.sympy_symbols import sympy_locs
    ps = params_of(fstr)
    if ps != list(range(len(ps))) or not ps:
        return None
    locs = dict(sympy_locs)
    syms = [sympy.Symbol("a%d" % i, real=True) for i in range(len(ps))]
    for i, s_ in enumerate(syms):
        locs["a%d" % i] = s_
    x = locs["x"]
    try:
        f = sympy.sympify(fstr, locals=locs)
        if f.has(sympy.zoo) or f.has(sympy.nan):
            return None
        phis, Gs, dGs = [], [], []
        rest = f
        for i, a in enumerate(syms):
            d = sympy.simplify(sympy.diff(f, a))
            if d == 0 or any(d.has(b) for j, b in enumerate(syms) if j != i):
                return None
            ref = None
            for r in (1, 2, -1, sympy.Rational(1, 2)):
                dr = d.subs(a, r)
                if dr.is_finite is not False and dr != 0 and not dr.has(sympy.zoo) and not dr.has(sympy.nan):
                    ref = r; break
            if ref is None:
                return None
            phi = sympy.simplify(d.subs(a, ref))
            h = sympy.simplify(d / phi)
            if h.has(x):
                return None
            G = sympy.integrate(h, a)
            if G.has(sympy.Integral) or G.has(sympy.log) and not h.has(sympy.log):
                pass
            phis.append(phi); Gs.append(G); dGs.append(h)
            rest = rest - G * phi
        off = sympy.simplify(rest)
        if any(off.has(a) for a in syms) or off.has(sympy.zoo) or off.has(sympy.nan):
            return None
        return dict(k=len(ps), x=x, syms=syms, f=f, phis=phis, off=off, Gs=Gs, dGs=dGs)
    except Exception:
        return None


def closed_form_separable(xv, y, s, m):
    """closed-form ML point, exact Hessian diagonal and code length (ESR's conventions) of a separable tree, or None"""
    import sympy
    x, syms = m["x"], m["syms"]
    try:
        with np.errstate(all="ignore"):
            X = np.column_stack([np.broadcast_to(np.asarray(sympy.lambdify([x], p, modules=["numpy"])(xv), dtype=float), xv.shape) for p in m["phis"]])
            o = np.broadcast_to(np.asarray(sympy.lambdify([x], m["off"], modules=["numpy"])(xv), dtype=float), xv.shape)
        if not (np.all(np.isfinite(X)) and np.all(np.isfinite(o))):
            return None
        W = 1.0 / s ** 2
        A = X.T @ (X * W[:, None])
        if np.linalg.cond(A) > 1e10:
            return None
        b = np.linalg.solve(A, X.T @ (W * (y - o)))
        theta, Fa = [], []
        for i, a in enumerate(syms):
            sols = [v for v in sympy.solve(sympy.Eq(m["Gs"][i], sympy.Float(b[i], 30)), a) if v.is_real]
            if not sols:
                return None
            av = float(sols[0])
            dg = float(m["dGs"][i].subs(a, av))
            if not (math.isfinite(av) and math.isfinite(dg)) or dg == 0:
                return None
            theta.append(av); Fa.append(A[i, i] * dg * dg)
        theta, Fa = np.array(theta), np.array(Fa)
        lam = sympy.lambdify([x] + syms, m["f"], modules=["numpy"])

        def nll_at(th):
            with np.errstate(all="ignore"):
                v = np.broadcast_to(np.asarray(lam(xv, *th), dtype=float), xv.shape)
            return gauss_nll(y, v, s) if np.all(np.isfinite(v)) else float("inf")

        N = np.abs(theta) * np.sqrt(Fa / 12.0)
        weak = N < 1
        margin = float(np.min(np.abs(np.log(np.maximum(N, 1e-300)))))
        th = theta.copy()
        codelen_terms = 0.5 * np.log(Fa) + np.log(np.abs(theta)) - 0.5 * math.log(3.0)
        kind = "none-weak"
        if weak.any():
            trial = np.where(weak, 0.0, theta)
            if math.isfinite(nll_at(trial)):
                th = trial; kind = "snapped"
                codelen = float(np.sum(codelen_terms[~weak]))
            elif weak.sum() == 1:
                # a weak parameter that cannot be zeroed is kept and coded at precision |theta| (ESR's convention): ln 2
                kind = "weak-unzeroable"
                codelen = float(np.sum(codelen_terms[~weak])) + math.log(2.0)
            else:
                return None
        else:
            codelen = float(np.sum(codelen_terms))
        return dict(theta=theta, theta_reported=th, nll=nll_at(th), codelen=codelen, margin=margin, kind=kind, F=Fa)
    except Exception:
        return None
