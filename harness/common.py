"""Shared machinery of the /verif checks (see DESIGN.md section 1.1).

stage -> translate -> prove -> correspond -> decide
"""
import fcntl, hashlib, json, os, random, re, shutil, subprocess, sys, tempfile, time

HARNESS = os.path.dirname(os.path.abspath(__file__))
VERIF = os.path.dirname(HARNESS)
LEAN = os.path.join(VERIF, "lean")
REPO = os.environ.get("ESRV_REPO", "/repo")
PY = os.environ.get("ESRV_PY", "/venv/bin/python")
STANDIN = os.path.join(HARNESS, "mpi_standin")
ALLOWED_AXIOMS = {"propext", "Classical.choice", "Quot.sound"}
FORBIDDEN = re.compile(r"\bsorry\b|\badmit\b|^axiom\s|native_decide|bv_decide|implemented_by|\bunsafe\s|maxHeartbeats\s+0\b")


def log(*a):
    print(*a, file=sys.stderr, flush=True)


class Ctx(object):
    def __init__(self, pid, tier, seed):
        self.pid = pid
        self.tier = tier
        self.seed = seed
        self.rng = random.Random((seed * 1000003) ^ int(hashlib.sha1(pid.encode()).hexdigest()[:8], 16))
        self.t0 = time.time()
        self.stage = None           # staged copy of /repo
        self.tmp = None             # scratch dir (removed at exit)
        self.failures = []          # property fails on the real code: dict(key, what, replay)
        self.disagreements = []     # model/theorem vs code: dict(name, detail)
        self.evaluations = 0
        self.distinct = set()
        self.samples = []
        self.extra = {}             # extra coverage keys
        self.assumptions = []
        self.proof = None
        self.notes = []

    @property
    def quick(self):
        return self.tier == "quick"

    # ---- recording -------------------------------------------------------
    def case(self, key=None, nontrivial=True, n=1):
        self.evaluations += n
        if key is not None and nontrivial:
            if len(self.distinct) < 2000000:
                self.distinct.add(key if isinstance(key, (str, int, tuple)) else repr(key))

    def sample(self, x, cap=12):
        if len(self.samples) < cap:
            self.samples.append(x)

    def fail(self, key, what, replay):
        """The PROPERTY fails on the real code for a concrete input/schedule/history."""
        self.failures.append(dict(key=key, what=what, replay=replay))

    def disagree(self, name, detail):
        """Model (or theorem) and code no longer correspond; not by itself a violation."""
        if len(self.disagreements) < 50:
            self.disagreements.append(dict(name=name, detail=detail))

    def env(self, extra=None):
        e = dict(os.environ)
        e["PYTHONPATH"] = os.pathsep.join([STANDIN, self.stage, HARNESS])
        e["ESR_VERIF"] = "1"
        e["PYTHONHASHSEED"] = "0"
        e["MPLBACKEND"] = "Agg"
        e["OMP_NUM_THREADS"] = "1"
        e["OPENBLAS_NUM_THREADS"] = "1"
        e.update(extra or {})
        return e


# --------------------------------------------------------------------------------------
# staging
# --------------------------------------------------------------------------------------

def make_stage(ctx):
    base = os.environ.get("ESRV_TMP") or tempfile.gettempdir()
    ctx.tmp = tempfile.mkdtemp(prefix="esrverif.%s." % ctx.pid, dir=base)
    os.environ["ESRV_MPI_TMPBASE"] = ctx.tmp        # launcher scratch (hub sockets, rank stdout) dies with ctx.tmp
    ctx.stage = os.path.join(ctx.tmp, "repo")
    shutil.copytree(REPO, ctx.stage, symlinks=True,
                    ignore=shutil.ignore_patterns(".git", "__pycache__", "*.pyc", ".pytest_cache"))
    # ESR writes its libraries inside its own package directory: keep them out of /repo
    os.environ["ESR_VERIF"] = "1"
    os.environ["PYTHONHASHSEED"] = "0"
    os.environ.setdefault("MPLBACKEND", "Agg")
    for p in (HARNESS, ctx.stage, STANDIN):
        if p in sys.path:
            sys.path.remove(p)
        sys.path.insert(0, p)
    return ctx.stage


def drop_stage(ctx):
    if ctx.tmp and os.path.isdir(ctx.tmp) and not os.environ.get("ESRV_KEEP"):
        shutil.rmtree(ctx.tmp, ignore_errors=True)


def fresh_copy(ctx, name):
    """A further private copy of the staged tree (for runs that write libraries)."""
    d = os.path.join(ctx.tmp, name)
    if os.path.isdir(d):
        shutil.rmtree(d)
    shutil.copytree(ctx.stage, d, symlinks=True)
    return d


# --------------------------------------------------------------------------------------
# Lean: translate + prove + audit
# --------------------------------------------------------------------------------------

class _Lock(object):
    def __enter__(self):
        self.fh = open(os.path.join(LEAN, ".verif.lock"), "w")
        fcntl.flock(self.fh, fcntl.LOCK_EX)
        return self

    def __exit__(self, *a):
        fcntl.flock(self.fh, fcntl.LOCK_UN)
        self.fh.close()


def _strip_comments(src):
    src = re.sub(r"/-.*?-/", "", src, flags=re.S)
    return re.sub(r"--.*", "", src)


def theorem_names(path):
    """(namespace-qualified theorem names, number of `example`s) of a Props file."""
    src = _strip_comments(open(path).read())
    ns = []
    names = []
    examples = 0
    for line in src.splitlines():
        m = re.match(r"\s*namespace\s+(\S+)", line)
        if m:
            ns.append(m.group(1)); continue
        m = re.match(r"\s*end\s+(\S+)\s*$", line)
        if m and ns and ns[-1] == m.group(1):
            ns.pop(); continue
        m = re.match(r"\s*(?:@\[[^\]]*\]\s*)?(?:private\s+|protected\s+)?theorem\s+(\S+)", line)
        if m:
            names.append(".".join(ns + [m.group(1)]))
        if re.match(r"\s*example\b", line):
            examples += 1
    return names, examples


def lean_files():
    out = []
    for root, _, files in os.walk(os.path.join(LEAN, "ESRVerif")):
        for f in files:
            if f.endswith(".lean"):
                out.append(os.path.join(root, f))
    out.append(os.path.join(LEAN, "Main.lean"))
    return out


def forbidden_tokens():
    hits = []
    for f in lean_files():
        src = _strip_comments(open(f).read())
        for k, line in enumerate(src.splitlines()):
            if FORBIDDEN.search(line):
                hits.append("%s: %s" % (os.path.relpath(f, LEAN), line.strip()[:100]))
    return hits


def generated_deps(modules):
    """names X of ESRVerif.Generated.X transitively imported by the given Lean modules"""
    seen, todo, gen = set(), list(modules), set()
    while todo:
        m = todo.pop()
        if m in seen or not m.startswith("ESRVerif."):
            continue
        seen.add(m)
        path = os.path.join(LEAN, *m.split(".")) + ".lean"
        if not os.path.exists(path):
            continue
        for line in open(path):
            mm = re.match(r"\s*import\s+(\S+)", line)
            if mm:
                imp = mm.group(1)
                if imp.startswith("ESRVerif.Generated."):
                    gen.add(imp.split(".")[-1])
                todo.append(imp)
    # the drivers of the models these modules use are linked in the executable too
    return gen


def run_extract(ctx):
    import extract
    return extract.generate(ctx.stage, os.path.join(LEAN, "ESRVerif", "Generated"))


def prove(ctx, props_module, extra_targets=("esrmodel",), leanchecker=False):
    """Regenerate Generated/*.lean from the staged source, build the property module, audit axioms.

    Returns dict(ok, build_ok, obligations, discharged, failed=[names], log, axioms, extract)"""
    res = dict(ok=False, build_ok=False, model_ok=False, obligations=0, discharged=0, failed=[], log="",
               axioms={}, extract={}, examples=0)
    t0 = time.time()
    with _Lock():
        try:
            res["extract"] = run_extract(ctx)
        except Exception as e:                       # extractor could not read the source shape
            res["extract"] = dict(error=repr(e))
            res["failed"].append("extract: %r" % (e,))
        modules = [props_module] if isinstance(props_module, str) else list(props_module)
        # an extractor that could not read today's source breaks the obligations of the properties using its table
        errs = (res["extract"] or {}).get("errors", {}) if isinstance(res["extract"], dict) else {}
        res["fallback"] = {}
        if errs:
            used = generated_deps(modules)
            try:
                import importlib
                allowed = dict(getattr(importlib.import_module("props.%s" % ctx.pid.lower()), "FALLBACK", {}))
            except Exception:
                allowed = {}
            for name, msg in errs.items():
                if name in used:
                    if name in allowed and "baseline" in str(res["extract"].get("files", {}).get(name, "")):
                        # translator cannot read today's source: the committed table is the (hand-written) model and the
                        # property's correspondence check, run at escalated depth, is the whole tie (see decide())
                        res["fallback"][name] = dict(reason=msg, tie=allowed[name])
                    else:
                        res["failed"].append("extract:%s: source shape not recognised (%s); theorems about Generated/%s.lean no longer speak about the current source" % (name, msg, name))
            if res["fallback"] and isinstance(res["extract"], dict):
                res["extract"]["fallback_tables"] = sorted(res["fallback"])
        names, nex = [], 0
        for m_ in modules:
            n_, e_ = theorem_names(os.path.join(LEAN, *m_.split(".")) + ".lean")
            names += n_; nex += e_
        res["obligations"] = len(names)
        res["examples"] = nex
        res["theorems"] = names
        # the executable model first (needed by the correspondence even when a proof breaks)
        for tgt in extra_targets:
            p = subprocess.run(["lake", "build", tgt], cwd=LEAN, capture_output=True, text=True)
            res["model_ok"] = p.returncode == 0
            if p.returncode != 0:
                res["log"] += p.stdout[-4000:] + p.stderr[-2000:]
                res["failed"].append("build of executable model (%s)" % tgt)
        p = subprocess.run(["lake", "build"] + modules, cwd=LEAN, capture_output=True, text=True)
        res["build_ok"] = p.returncode == 0
        if p.returncode != 0:
            out = p.stdout + p.stderr
            res["log"] += out[-6000:]
            res["failed"] += _failed_decls(out)
            if not res["failed"]:
                res["failed"].append("lake build %s" % " ".join(modules))
        else:
            # audit
            aud = os.path.join(LEAN, ".audit_%s_%d.lean" % (ctx.pid, os.getpid()))
            with open(aud, "w") as fh:
                fh.write("".join("import %s\n" % m_ for m_ in modules))
                for n in names:
                    fh.write("#print axioms %s\n" % n)
            p = subprocess.run(["lake", "env", "lean", aud], cwd=LEAN, capture_output=True, text=True)
            os.remove(aud)
            out = p.stdout + p.stderr
            ax = {}
            for m in re.finditer(r"'([^']+)' depends on axioms: \[([^\]]*)\]", out, flags=re.S):
                ax[m.group(1)] = [a.strip() for a in m.group(2).replace("\n", " ").split(",") if a.strip()]
            for m in re.finditer(r"'([^']+)' does not depend on any axioms", out):
                ax[m.group(1)] = []
            res["axioms"] = {k: v for k, v in ax.items() if v}
            for n in names:
                if n not in ax:
                    res["failed"].append("audit: no axiom report for %s" % n)
                elif not set(ax[n]) <= ALLOWED_AXIOMS:
                    res["failed"].append("audit: %s uses %s" % (n, sorted(set(ax[n]) - ALLOWED_AXIOMS)))
                else:
                    res["discharged"] += 1
            hits = forbidden_tokens()
            if hits:
                res["failed"] += ["forbidden token: " + h for h in hits]
            if leanchecker and not res["failed"]:
                p = subprocess.run(["lake", "env", "leanchecker"] + modules, cwd=LEAN, capture_output=True, text=True)
                res["leanchecker"] = p.returncode
                if p.returncode != 0:
                    res["failed"].append("leanchecker %s: %s" % (" ".join(modules), (p.stdout + p.stderr)[-500:]))
        # private copy of the executable model built from THIS tree's tables: a concurrent check of another tree
        # (ESRV_REPO) may rebuild the shared binary while this run is still driving it
        exe = os.path.join(LEAN, ".lake", "build", "bin", "esrmodel")
        if res["model_ok"] and os.path.exists(exe) and getattr(ctx, "tmp", None):
            priv = os.path.join(ctx.tmp, "esrmodel")
            shutil.copy2(exe, priv)
            os.environ["ESRV_MODEL_EXE"] = priv
    res["ok"] = res["build_ok"] and not res["failed"] and res["discharged"] == res["obligations"]
    res["wall_s"] = round(time.time() - t0, 2)
    ctx.proof = res
    for f in res["failed"]:
        ctx.disagree("lean", f)
    return res


def _failed_decls(out):
    """Map `error: File.lean:L:C` to the nearest preceding theorem/def/example in that file."""
    failed = []
    for m in re.finditer(r"error: (\S+\.lean):(\d+):(\d+):\s*([^\n]*)", out):
        f, ln = m.group(1), int(m.group(2))
        path = f if os.path.isabs(f) else os.path.join(LEAN, f)
        name = "?"
        try:
            lines = open(path).read().splitlines()
            for k in range(min(ln, len(lines)) - 1, -1, -1):
                mm = re.match(r"\s*(?:@\[[^\]]*\]\s*)?(?:private\s+)?(theorem|def|example|instance|lemma|abbrev)\s*(\S*)", lines[k])
                if mm:
                    name = "%s %s" % (mm.group(1), mm.group(2)); break
        except Exception:
            pass
        s = "%s:%d %s -- %s" % (os.path.relpath(path, LEAN), ln, name, m.group(4)[:120])
        if s not in failed:
            failed.append(s)
    return failed[:20]


# --------------------------------------------------------------------------------------
# executable model (line protocol)
# --------------------------------------------------------------------------------------

def model(lines, timeout=600):
    """Feed op lines to the compiled Lean model; returns the result lines (same length)."""
    exe = os.environ.get("ESRV_MODEL_EXE") or os.path.join(LEAN, ".lake", "build", "bin", "esrmodel")
    if not os.path.exists(exe):
        raise RuntimeError("model executable missing (build failed)")
    data = "\n".join(lines) + "\n"
    p = subprocess.run([exe], input=data, capture_output=True, text=True, timeout=timeout)
    if p.returncode != 0:
        raise RuntimeError("model driver failed: %s" % p.stderr[-500:])
    out = p.stdout.split("\n")
    if out and out[-1] == "":
        out.pop()
    if len(out) != len(lines):
        raise RuntimeError("model driver returned %d lines for %d ops" % (len(out), len(lines)))
    return out


def f2b(x):
    """float -> 64-bit pattern (decimal string) for the line protocol."""
    import struct
    return str(struct.unpack("<Q", struct.pack("<d", float(x)))[0])


def b2f(s):
    import struct
    return struct.unpack("<d", struct.pack("<Q", int(s)))[0]


# --------------------------------------------------------------------------------------
# coverage of the property's anchored source lines (in-process part of a run only)
# --------------------------------------------------------------------------------------

_COVER = dict(on=False, lines={}, hit={})


def _anchors(pid):
    out = {}
    for l in open(os.path.join(VERIF, "properties.jsonl")):
        p = json.loads(l)
        if p["id"] != pid:
            continue
        for m in p["anchors"].get("mechanism", []):
            w = m.get("where", "")
            for part in w.split(";"):
                part = part.strip()
                mm = re.match(r"(\S+\.py):(.*)", part)
                if not mm:
                    continue
                f = mm.group(1)
                for rng in mm.group(2).split(","):
                    r = re.match(r"\s*(\d+)(?:-(\d+))?", rng)
                    if r:
                        a, b = int(r.group(1)), int(r.group(2) or r.group(1))
                        out.setdefault(f, set()).update(range(a, b + 1))
    return out


def start_cover(ctx):
    """record which anchored lines of the staged source execute in this process (each location reports once)"""
    try:
        import sys as _s
        mon = _s.monitoring
        anchors = _anchors(ctx.pid)
        files = {os.path.join(ctx.stage, f): f for f in anchors}
        _COVER.update(on=True, lines=anchors, hit={f: set() for f in anchors})
        TOOL = 4
        mon.use_tool_id(TOOL, "esrverif-cover")

        def on_line(code, line):
            f = files.get(code.co_filename)
            if f is not None:
                _COVER["hit"][f].add(line)
            return mon.DISABLE

        mon.register_callback(TOOL, mon.events.LINE, on_line)
        mon.set_events(TOOL, mon.events.LINE)
    except Exception:
        _COVER["on"] = False


def stop_cover(ctx):
    if not _COVER["on"]:
        return
    try:
        import sys as _s, ast as _ast
        _s.monitoring.set_events(4, 0)
        _s.monitoring.free_tool_id(4)
        rep = {}
        for f, lines in _COVER["lines"].items():
            # only lines that hold executable statements count
            try:
                tree = _ast.parse(open(os.path.join(ctx.stage, f)).read())
                stm = {n.lineno for n in _ast.walk(tree) if isinstance(n, _ast.stmt) and not (
                    isinstance(n, _ast.Expr) and isinstance(getattr(n, "value", None), _ast.Constant))
                       and not isinstance(n, (_ast.FunctionDef, _ast.ClassDef))}
            except Exception:
                stm = set(lines)
            want = sorted(lines & stm)
            hit = _COVER["hit"].get(f, set())
            never = [l for l in want if l not in hit]
            rep[f] = dict(anchored_statements=len(want), executed_in_process=len(want) - len(never), never_executed_in_process=never[:60])
        ctx.extra["anchored_line_coverage"] = rep
    except Exception:
        pass
    _COVER["on"] = False


# --------------------------------------------------------------------------------------
# corpus of minimised past failures (harness/corpus/<ID>/*.json): replayed on the real code before the search starts
# --------------------------------------------------------------------------------------

def run_corpus(ctx, mod):
    """Each corpus file is a replay written by an earlier run of this check against a tree that broke the property
    (a seeded change or a defect since repaired in /repo) and confirmed to HOLD on the tree it was committed with.
    A case that fails today is a concrete failing input; a case the harness can no longer replay is only recorded."""
    import contextlib, glob, io
    d = os.path.join(HARNESS, "corpus", ctx.pid)
    files = sorted(glob.glob(os.path.join(d, "*.json")))
    budget = float(os.environ.get("ESRV_CORPUS_BUDGET", 75 if ctx.quick else 900))
    rep = dict(cases=len(files), replayed=0, held=0, failed=[], not_replayable=[], skipped_for_time=0, wall_s=0.0)
    t0 = time.time()
    for f in files:
        name = os.path.basename(f)[:-5]
        if time.time() - t0 > budget:
            rep["skipped_for_time"] += 1
            continue
        try:
            data = json.load(open(f))
            buf = io.StringIO()
            with contextlib.redirect_stdout(buf):
                ok = bool(mod.replay(ctx, data))
        except BaseException as e:                      # harness cannot run this case on today's source: not a verdict
            if isinstance(e, (KeyboardInterrupt, SystemExit)):
                raise
            rep["not_replayable"].append("%s: %r" % (name, e))
            continue
        rep["replayed"] += 1
        ctx.case(("corpus", name), nontrivial=True)
        if ok:
            rep["held"] += 1
        else:
            rep["failed"].append(name)
            ctx.fail(data.get("key", "corpus:" + name),
                     "corpus case %s (past failing input, from %s) fails again: %s" % (
                         name, data.get("origin", "an earlier run"), str(data.get("what", ""))[:400]),
                     data.get("replay"))
    rep["wall_s"] = round(time.time() - t0, 2)
    ctx.extra["corpus"] = rep
    return rep


# --------------------------------------------------------------------------------------
# known findings, decision, evidence
# --------------------------------------------------------------------------------------

def known_findings(pid):
    p = os.path.join(VERIF, "known_findings.json")
    if not os.path.exists(p):
        return []
    return [e for e in json.load(open(p)).get("entries", []) if e.get("property") == pid and e.get("kind") == "finding"]


def decide(ctx, mod):
    os.makedirs(os.path.join(VERIF, "replays", ctx.pid), exist_ok=True)
    kf = known_findings(ctx.pid)
    unknown = []
    known_printed = set()
    for f in ctx.failures:
        hit = None
        for e in kf:
            if re.fullmatch(e["match"], f["key"]):
                hit = e; break
        if hit is not None:
            if hit["match"] not in known_printed:
                known_printed.add(hit["match"])
                print("KNOWN-FINDING: property=%s %s" % (ctx.pid, hit["what"]), flush=True)
        else:
            unknown.append(f)
    code = 0
    nviol = 0
    seen = set()
    fb = (ctx.proof or {}).get("fallback") or {}
    if fb:
        # the translator could not regenerate these tables: the theorems were checked over the committed tables, and only a
        # complete, clean correspondence run (model executable vs real code) ties them to today's source
        co, cd = int(ctx.extra.get("corr_obligations", 0)), int(ctx.extra.get("corr_discharged", 0))
        if co == 0 or cd != co:
            ctx.disagree("fallback", "translator could not read the source of table(s) %s (%s) and the correspondence that would tie the committed "
                         "model to the code instead is not clean (%d of %d correspondence obligations discharged)" % (
                             sorted(fb), "; ".join(v["reason"] for v in fb.values())[:300], cd, co))
        elif not ctx.disagreements:
            for n, v in sorted(fb.items()):
                print("NOTE property=%s translator could not regenerate table %s (%s); theorems checked over the committed table, tied to the "
                      "current source by the correspondence run at escalated depth (%d/%d obligations, 0 disagreements): %s" % (
                          ctx.pid, n, v["reason"][:160], cd, co, v["tie"][:200]), flush=True)
        ctx.extra["translator_fallback"] = fb
    for f in unknown:
        if f["key"] in seen:
            continue
        seen.add(f["key"])
        if nviol >= 5:
            continue
        nviol += 1
        path = os.path.join(VERIF, "replays", ctx.pid, "viol_%s.json" % hashlib.sha1(f["key"].encode()).hexdigest()[:10])
        json.dump(dict(property=ctx.pid, kind="failing-input", key=f["key"], what=f["what"], replay=f["replay"],
                       seed=ctx.seed, tier=ctx.tier), open(path, "w"), indent=1, default=str)
        print("VIOLATION property=%s replay=%s" % (ctx.pid, os.path.relpath(path, VERIF)), flush=True)
        log("  what: %s" % f["what"])
        code = 1
    if not unknown and ctx.disagreements:
        # property no longer shown to hold, and the search found no failing input
        path = os.path.join(VERIF, "replays", ctx.pid, "unproved_%d.json" % ctx.seed)
        json.dump(dict(property=ctx.pid, kind="obligation-broken",
                       broken=ctx.disagreements, lean_log=(ctx.proof or {}).get("log", "")[-3000:],
                       note="theorem(s)/correspondence named above no longer check against the current source; "
                            "the failing-input search on the real code found nothing",
                       seed=ctx.seed, tier=ctx.tier), open(path, "w"), indent=1, default=str)
        print("VIOLATION property=%s replay=%s no-failing-input-found" % (ctx.pid, os.path.relpath(path, VERIF)), flush=True)
        for d in ctx.disagreements[:8]:
            log("  broken: %s: %s" % (d["name"], str(d["detail"])[:300]))
        code = 1
        nviol = 1
    write_evidence(ctx, mod, nviol)
    return code


def write_evidence(ctx, mod, nviol):
    pr = ctx.proof or {}
    level = getattr(mod, "LEVEL", "other")
    cov = dict(
        evaluations=int(ctx.evaluations),
        distinct_nontrivial=len(ctx.distinct),
        rule=getattr(mod, "RULE", ""),
        samples=ctx.samples or ["(none)"],
        obligations=int(pr.get("obligations", 0)) + int(ctx.extra.get("corr_obligations", 0)),
        discharged=int(pr.get("discharged", 0)) + int(ctx.extra.get("corr_discharged", 0)),
        checker_cmd="cd lean && lake build %s && lake env lean <#print axioms of every theorem in them>" % (
            getattr(mod, "LEAN_MODULE", "") if isinstance(getattr(mod, "LEAN_MODULE", ""), str) else " ".join(mod.LEAN_MODULE)),
        trusted_base=["Lean 4.33.0 kernel", "axioms: propext, Classical.choice, Quot.sound (audited per theorem this run)",
                      "harness/extract.py (translator) and the correspondence harness", "mpi4py stand-in (harness/mpi_standin)"]
                     + list(getattr(mod, "TRUSTED", [])),
        explanation=getattr(mod, "EXPLANATION", ""),
        theorems=pr.get("theorems", []),
        nonvacuity_examples=pr.get("examples", 0),
        axioms_used=pr.get("axioms", {}),
        lean_wall_s=pr.get("wall_s"),
        extract=pr.get("extract", {}),
        known_findings_reported=sorted(set(f["key"] for f in ctx.failures)) if ctx.failures else [],
        disagreements=ctx.disagreements,
    )
    cov.update({k: v for k, v in ctx.extra.items()})
    ev = dict(property_id=ctx.pid, tier=ctx.tier, seed=int(ctx.seed), level=level, coverage=cov,
              assumptions=list(getattr(mod, "ASSUMPTIONS", [])) + ctx.assumptions,
              wall_s=round(time.time() - ctx.t0, 2), violations=int(nviol))
    # evidence/ is only for runs against /repo itself; runs against a scratch tree (ESRV_REPO) go elsewhere
    evdir = "evidence" if os.path.realpath(REPO) == "/repo" else "evidence_scratch"
    os.makedirs(os.path.join(VERIF, evdir), exist_ok=True)
    with open(os.path.join(VERIF, evdir, "%s.json" % ctx.pid), "w") as fh:
        json.dump(ev, fh, indent=1, default=str)
