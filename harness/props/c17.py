"""C17 — parameter-map bookkeeping: file round trip (load_subs) and inverse-pair cancellation (simplify_inv_subs)."""
import contextlib, csv, io, itertools, json, math, os, pickle, re, shutil
import common, extract, mpirun

LEAN_MODULE = ["ESRVerif.Props.C17", "ESRVerif.Props.C17c"]
LEVEL = "proof"
LEVEL_TEXT = ("Lean theorems over the hand model of load_subs / simplify_inv_subs / get_all_dup: the quote insertion by four "
              "str.replace calls is lossless for every separator-free printed term (unbounded), rows are preserved for any "
              "rank count (via C14 tiling), every all_dup element is self-inverse, cancellation preserves the composition of "
              "chains of any length; sympy's printer/parser on the template table (4 parameters, |n| <= 6) is modelled and "
              "tied by exhaustive correspondence; the exception structure of load_subs' per-row conversion (time-limited or not, what a "
              "TimeoutException handler restores the row from, the in-place writes) is regenerated and the conversion of a row is "
              "proved atomic under a timeout unless it is restored from an alias of the list being rewritten; on the real code a "
              "genuine SIGALRM is injected at every line of load_subs at which a time limit of the code under test is active")
TECHNIQUE = "Lean 4 theorem over a model of the code + extracted tables + checked model/code correspondence"
RULE = ("one evaluation = one template string compared, one cell loaded on one rank count, or one chain cancelled; "
        "distinct non-trivial = distinct (template string) with a non-identity value, distinct (file, P) with P>=2, "
        "distinct chain on which cancellation removed something or that contains nan")
EXPLANATION = ("load_dump / rows_preserved / dup_involutive / cancel_preserves proved in Lean for the model; the model's printed "
               "forms are compared with sympy's str() for every template the simplifier can emit (source expressions "
               "re-evaluated), its load with the real load_subs on 1-5 ranks, its cancellation with the real "
               "simplify_inv_subs on all chains up to the bound; an independent oracle checks the property itself on the "
               "real outputs (objects equal, rows aligned, composition numerically unchanged), including the chains [d, d] and "
               "[d, d, d] for every element d of the real get_all_dup(k), k <= 5 (a non-involutive element is a failing input); "
               "C17c: loadRow_atomic / alias_restore_is_not_atomic over the regenerated exception structure of load_subs' row loop, and "
               "a fault phase (harness/inject.py) that discovers at run time whether a time limit is active inside load_subs / "
               "simplify_inv_subs / get_all_dup and, if so, delivers a genuine SIGALRM at every (line, occurrence <= 3) site, one or two "
               "per call, on 1-5 ranks and both use_sympy modes: every row must come back as the written mapping or exactly as its "
               "original text (time_limited_sites: 0 and a no-op on a tree without such a region)")
TRUSTED = ["hand model ESRVerif/Model/Subs.lean of sympy's str() and sympify on the template language (tied by exhaustive "
           "correspondence for 4 parameters, |n| <= 6, rationals with denominator <= 4)",
           "ast.literal_eval and csv reader/writer modelled on the emitted language only (dict of single-quoted strings; "
           "unquoted cells)",
           "the `keep` branches of the pair block of sympy_simplify (str({expr[0]: ...})) are unreachable: keep is False "
           "whenever v is not None (read, not extracted)",
           "sympy Float prints 15 significant digits: the two 1/3 templates are read back with an exponent differing by "
           "3e-16 (checked numerically equal, not structurally)",
           "translator normalisations (harness/extractors/_norm_c17.py N1-N10, applied to get_all_dup and load_subs before they "
           "are read): one level of inlining of straight-line private/nested helpers; chained and independent tuple "
           "assignment split; conditional expression <-> if/else; rest-of-block after `if c: ...; continue/return` moved into "
           "else, tail `continue` dropped, empty-body if inverted; not/==/!=/in/is and De Morgan in test position; adjacent "
           "ifs with one call-free test merged; loops over a literal tuple of constants unrolled; appending loop <-> list "
           "comprehension; single-use pure temporaries inlined into the next statement",
           "translator's symbolic reading of get_all_dup: locals are followed by value, not by name (parameter names list, "
           "sympy symbols, index range ascending/descending through range / np.arange / np.flip / [::-1] / reversed / "
           "sorted(reverse=) / list / tuple, 2-combinations of the descending indices, the list under construction through "
           "= / += / + / extend / append loops; pair variable `c[0], c[1]` or unpacked `p, q`; 'a%i' % i == f'a{i}' == "
           "'a' + str(i) for the ints of a range); anything else is an ExtractError",
           "translator's symbolic reading of load_subs' per-cell statements: the cell text is followed through `.replace` "
           "chains on the cell or on locals (row alias, enumerate, unrolled literal pairs), the nan test and literal_eval "
           "must be applied to the same fully quoted text, keys are sympified before values, `str == literal` is read as "
           "symmetric; the read / split / scatter / gather / chain / bcast statements are matched up to renaming of locals",
           "translator's reading of the exception structure of the row loop: `try` / `with time_limit(..)` around the per-cell loop "
           "in either order, one `except TimeoutException` handler of prints and one `B[i] = name` / `row[:] = name` restore; a name "
           "bound to list(row) / row[:] / row.copy() / copy.copy / copy.deepcopy / [x for x in row] BEFORE the try/with is a snapshot, "
           "a name bound to the row itself is an alias; anything else is an ExtractError",
           "harness/inject.py: a time limit of the code under test is active iff the SIGALRM handler is a Python function compiled "
           "from the staged tree and ITIMER_REAL is pending (signal.alarm and ITIMER_REAL are one timer on Linux); self-tested on "
           "every run against the staged time_limit; fault sites are lines x occurrence (<= 3, plus random later occurrences), not "
           "bytecode offsets"]
ASSUMPTIONS = ["real/rational semantics: -(-x)=x and 1/(1/x)=x for x != 0 (floating-point rounding not modelled)",
               "ranks are OS processes under the stand-in hub (pickle on every collective), not a real MPI progress engine"]
# tables whose committed version may stand in as a hand-written model when the translator cannot read the source;
# value = the correspondence that then ties it to the code (common.prove / common.decide)
FALLBACK = {'Subs': 'model executable vs real code on what the table claims: get_all_dup(k) for k = 0..5 list-equal to allDup k; real load_subs on '
                    '1-5 (deep: 8) ranks cell-for-cell equal to loadFile (replace sequence, nan literal, delimiter, rank blocks); real '
                    'simplify_inv_subs on all chains up to the bound; plus the oracle that every element of the real get_all_dup cancels '
                    'soundly; a genuine SIGALRM injected at every line of load_subs (simplify_inv_subs, get_all_dup) at which a time limit '
                    'of the code under test is active at run time (sites discovered by harness/inject.py, none on a tree without such a '
                    'region): every row read back after a timeout is the written mapping or exactly its original text.  NOT covered by a '
                    'dynamic tie and therefore kept strict: the template table of sympy_simplify'}
MODELLED = ["simplifier.py:get_all_dup", "simplifier.py:simplify_inv_subs", "simplifier.py:load_subs",
            "simplifier.py:convert_params"]

K = 4          # parameters
NMAX = 6       # |n| bound


def hx(s):
    return "-" if s == "" else s.encode("ascii").hex()


def unhx(h):
    return "" if h == "-" else bytes.fromhex(h).decode("ascii")


# --------------------------------------------------------------------------------------------------
# what the simplifier can record, built by the source's own expressions
# --------------------------------------------------------------------------------------------------

def _symbols(k):
    import sympy
    a = sympy.symbols(" ".join("a%i" % i for i in range(k)), real=True)
    return [a] if k == 1 else list(a)


def build_recordable(ctx, k=K, nmax=NMAX):
    """[(kind, family, j, p, q, obj|None, string)] for everything sympy_simplify / get_all_dup can put in a chain."""
    import sympy, numpy as np
    import esr.generation.simplifier as S
    from extractors import subs as xs
    try:
        tmpl, kinds = xs.template_sources(ctx.stage)
    except extract.ExtractError as e:
        # keep exploring with the committed template table; the obligation stays broken (no dynamic tie for it)
        ctx.disagree("extract:Subs(templates)", str(e))
        tmpl, kinds = xs.baseline_templates()
    all_a = _symbols(k)
    ints = [sympy.Integer(n) for n in range(-nmax, nmax + 1)]
    rats = [sympy.Rational(p, q) for q in (2, 3, 4) for p in range(-nmax, nmax + 1) if p != 0 and math.gcd(abs(p), q) == 1]
    out = []
    skipped_zoo = 0
    for t in tmpl:
        if t["domain"] == "numbers":
            ns = ints + rats
        elif t["domain"] == "even":
            ns = [n for n in ints if n.is_even]
        elif t["domain"] == "odd":
            ns = [n for n in ints if n.is_odd]
        else:
            ns = [None]
        for j in range(k):
            for n in ns:
                env = dict(vars(S))
                env.update(all_a=all_a, j=j, n=n)
                obj = {all_a[j]: eval(t["inverse"], env)}          # the source's own expression
                s = str(obj)
                if "zoo" in s:                                       # line 446: never recorded
                    skipped_zoo += 1
                    continue
                p, q = (0, 1) if n is None else (int(n.p), int(n.q))
                out.append(("template", t["family"], j, p, q, obj, s))
    for j in range(k):                                               # line 607
        obj = {all_a[j]: -all_a[j]}
        out.append(("neg", "neg", j, 0, 1, obj, str(obj)))
    seen = set()
    for r in range(2, k + 1):                                        # lines 520-524, any order of the free symbols
        for s_ in itertools.permutations(all_a, r):
            s_ = list(s_)
            perm = list(itertools.permutations(np.flip(np.arange(len(s_))), len(s_)))
            perm.remove(tuple(range(len(s_))))
            for p_ in perm:
                obj = {s_[i]: s_[p_[i]] for i in range(len(p_)) if i != p_[i]}
                st = str(obj)
                if st not in seen:
                    seen.add(st)
                    out.append(("perm", "pmap", 0, 0, 1, obj, st))
    param_list = ["a%i" % i for i in range(k)]
    for r in range(1, k + 1):                                        # lines 652-660
        for common_ in itertools.combinations(param_list, r):
            common_ = sorted(common_)
            if common_[-1] != param_list[len(common_) - 1]:
                c2 = [int(v[1:]) for v in common_]
                obj = {all_a[c2[i]]: all_a[i] for i in range(len(c2))}
                out.append(("rename", "pmap", 0, 0, 1, obj, str(obj)))
    out.append(("nan", "nan", 0, 0, 1, None, str(np.nan)))           # lines 374, 379
    ctx.extra["templates_skipped_zoo"] = skipped_zoo
    ctx.extra["record_sites"] = [list(x) for x in kinds]
    return out, all_a


def parse_dict_string(s, all_a):
    """independent reading of a str(dict) of one-line sympy expressions (not the code under test)"""
    import sympy
    if s == "nan":
        return None
    if not (s.startswith("{") and s.endswith("}")):
        raise ValueError("not a dict string: %r" % s)
    loc = {str(a): a for a in all_a}
    loc["Abs"] = sympy.Abs
    d = {}
    for item in s[1:-1].split(", "):
        kk, vv = item.split(": ")
        d[sympy.sympify(kk, locals=loc)] = sympy.sympify(vv, locals=loc)
    return d


def pmap_spec(obj):
    return ",".join("%s:%s" % (str(kk)[1:], str(vv)[1:]) for kk, vv in obj.items())


# --------------------------------------------------------------------------------------------------
# (a) printed forms: sympy str() vs model toStr ; get_all_dup vs model allDup ; eval
# --------------------------------------------------------------------------------------------------

def _num(x):
    import sympy
    try:
        v = complex(sympy.N(x))
    except Exception:
        return None
    return v


def _close(x, y, tol=1e-9):
    if isinstance(x, complex) or isinstance(y, complex):
        x, y = complex(x), complex(y)
        if any(math.isnan(t) for t in (x.real, x.imag, y.real, y.imag)):
            return (math.isnan(x.real) or math.isnan(x.imag)) and (math.isnan(y.real) or math.isnan(y.imag))
        if math.isinf(x.real) or math.isinf(x.imag) or math.isinf(y.real) or math.isinf(y.imag):
            return x == y
        return abs(x - y) <= tol * max(1.0, abs(x), abs(y))
    if math.isnan(x) or math.isnan(y):
        return math.isnan(x) and math.isnan(y)
    if math.isinf(x) or math.isinf(y):
        return x == y
    return abs(x - y) <= tol * max(1.0, abs(x), abs(y))


def _corr_print(ctx, rec, all_a):
    import esr.generation.simplifier as S
    ops, want, what = [], [], []
    for kind, fam, j, p, q, obj, s in rec:
        if kind in ("template", "neg"):
            ops.append("subs-tmpl %s %d %d %d" % (fam, j, p, q)); want.append(hx(s)); what.append((kind, fam, j, p, q, s))
        elif kind in ("perm", "rename"):
            ops.append("subs-pmap %s" % pmap_spec(obj)); want.append(hx(s)); what.append((kind, fam, j, p, q, s))
    out = common.model(ops)
    bad = 0
    for o, w, g, wh in zip(ops, want, out, what):
        nontriv = not (wh[0] == "template" and wh[5] == "{a%d: a%d}" % (wh[2], wh[2]))
        ctx.case(("str", wh[5]), nontrivial=nontriv)
        if w != g:
            bad += 1
            ctx.disagree("corr:toStr", "%s: sympy str=%r model=%r" % (o, wh[5], unhx(g) if g not in ("none", "bad-args", "bad-op") else g))
    ctx.sample(dict(op=ops[7], sympy=unhx(want[7]), model=unhx(out[7])))
    ctx.sample(dict(op=ops[len(ops) // 3], sympy=unhx(want[len(ops) // 3]), model=unhx(out[len(ops) // 3])))
    # get_all_dup
    bad_dup = 0
    dups = {}
    ks = list(range(0, K + 2))
    outd = common.model(["subs-alldup %d" % k for k in ks])
    for k, line in zip(ks, outd):
        real = list(S.get_all_dup(k))
        dups[k] = real
        mod = [unhx(h) for h in line.split()[:-1]]
        ctx.case(("alldup", k), nontrivial=k >= 1)
        if real != mod:
            bad_dup += 1
            ctx.disagree("corr:get_all_dup", "k=%d: code=%r model=%r" % (k, real, mod))
    ctx.sample(dict(op="subs-alldup 2", code=dups[2], model=[unhx(h) for h in outd[2].split()[:-1]]))
    # eval: model parses sympy's string and evaluates in Float; sympy evaluates the object
    ops, want = [], []
    seen = set()
    for kind, fam, j, p, q, obj, s in rec:
        if obj is None:
            continue
        for kk, vv in obj.items():
            sv = str(vv)
            if sv in seen:
                continue
            seen.add(sv)
            th = [ctx.rng.choice((-1, 1)) * ctx.rng.uniform(0.5, 2.0) for _ in range(K)]
            ref = _num(vv.subs(dict(zip(all_a, th)), simultaneous=True))
            ops.append("subs-eval %s %s" % (hx(sv), " ".join(common.f2b(t) for t in th)))
            want.append((sv, th, ref))
    out = common.model(ops)
    bad_ev = 0
    n_real = 0
    for o, (sv, th, ref), g in zip(ops, want, out):
        ctx.case(None)
        if g in ("err", "bad-args", "bad-op"):
            bad_ev += 1
            ctx.disagree("corr:eval", "%r: model cannot parse/evaluate (%s)" % (sv, g))
            continue
        mv = common.b2f(g)
        if ref is None or abs(ref.imag) > 1e-12 or math.isnan(ref.real):
            continue                                    # sympy's value is not a real number here (odd root of a negative, nan)
        n_real += 1
        if not _close(mv, ref.real):
            bad_ev += 1
            ctx.disagree("corr:eval", "%r at %r: sympy=%r model=%r" % (sv, th, ref.real, mv))
    ctx.extra["eval_terms"] = len(ops)
    ctx.extra["eval_terms_real_valued"] = n_real
    return dict(strings=len(what), strings_bad=bad, alldup_bad=bad_dup, eval_bad=bad_ev), dups


# --------------------------------------------------------------------------------------------------
# (b) load_subs on 1..5 ranks
# --------------------------------------------------------------------------------------------------

def _is_nan(x):
    return isinstance(x, float) and math.isnan(x)


def same_entry(written, loaded, all_a, rng):
    """the property: same keys, equivalent values; unrecoverable stays unrecoverable.  Returns None or a reason."""
    import sympy
    if written is None:
        return None if _is_nan(loaded) else "unrecoverable marker read back as %r" % (loaded,)
    if _is_nan(loaded):
        return "substitution read back as the unrecoverable marker"
    if not isinstance(loaded, dict):
        return "read back as %s, not a dict" % type(loaded).__name__
    wk, lk = list(written.keys()), list(loaded.keys())
    if len(wk) != len(lk) or any(not (a == b) for a, b in zip(wk, lk)):
        return "keys %r read back as %r" % (wk, lk)
    for kk in wk:
        wv, lv = written[kk], loaded[kk]
        if wv == lv:
            continue
        ok = True
        for _ in range(3):
            th = dict(zip(all_a, [rng.choice((-1, 1)) * rng.uniform(0.5, 2.0) for _ in all_a]))
            x, y = _num(sympy.sympify(wv).subs(th, simultaneous=True)), _num(sympy.sympify(lv).subs(th, simultaneous=True))
            if x is None or y is None or not _close(x, y):
                ok = False
        if not ok:
            return "value of %s: %r read back as %r" % (kk, wv, lv)
    return None


def same_entry_str(written_s, loaded, all_a, rng):
    if not isinstance(loaded, str) and not _is_nan(loaded):
        return "use_sympy=False gave %s" % type(loaded).__name__
    if _is_nan(loaded):
        return None if written_s == "nan" else "substitution read back as the unrecoverable marker"
    if loaded == written_s:
        return None
    try:
        return same_entry(parse_dict_string(written_s, all_a), parse_dict_string(loaded, all_a), all_a, rng)
    except Exception as e:
        return "string %r read back as %r (%s)" % (written_s, loaded, e)


def write_file(path, rows):
    """exactly as duplicate_checker.py:258-260 / simplifier.py:875-877 write inv_subs files"""
    os.makedirs(os.path.dirname(path), exist_ok=True)
    with open(path, "w") as f:
        writer = csv.writer(f, delimiter=';')
        writer.writerows(rows)


def canon_rows(res):
    out = []
    for row in res:
        cells = []
        for c in row:
            cells.append("nan" if _is_nan(c) else hx(str(c)))
        out.append("[" + ";".join(cells) + "]")
    return "".join(out) + "."


def run_load(ctx, files, P, tag, jobs=None):
    """real load_subs on P ranks for every (path, k, use_sympy); returns per job the list of per-rank results"""
    if jobs is None:
        jobs = [dict(file=f, k=K, use_sympy=m) for f in files for m in (True, False)]
    d = os.path.join(ctx.tmp, "c17run_%s_%d" % (tag, P))
    os.makedirs(d, exist_ok=True)
    jf = os.path.join(d, "jobs.json")
    json.dump(jobs, open(jf, "w"))
    worker = os.path.join(common.HARNESS, "workers", "c17_load.py")
    res = mpirun.run(P, [worker, jf, os.path.join(d, "out")], timeout=300.0, env_extra=ctx.env(), cwd=d,
                     python=common.PY, stdout_dir=d)
    per_rank = []
    for r in range(P):
        p = os.path.join(d, "out.%d.pkl" % r)
        per_rank.append(pickle.load(open(p, "rb")) if os.path.exists(p) else None)
    log = ""
    if not res["ok"]:
        for f in res["stdout"]:
            try:
                log += open(f).read()[-600:]
            except Exception:
                pass
    shutil.rmtree(res.get("tmp", ""), ignore_errors=True)
    return jobs, per_rank, res, log


def check_loaded(ctx, fname, rows_s, rows_o, P, use_sympy, results, all_a, fail):
    """oracle on what the ranks returned for one file"""
    if any(res is None for res in results):
        return "not-run"                 # an earlier job of this launch raised and took the ranks down
    for r, res in enumerate(results):
        if res[0] != "ok":
            fail("raise", "load_subs raised on rank %d of %d: %s" % (r, P, res[1]), None)
            return
    first = results[0][1]
    for r, res in enumerate(results[1:], 1):
        if canon_rows(res[1]) != canon_rows(first):
            fail("ranks-differ", "rank %d of %d got different substitutions than rank 0" % (r, P), None)
            return
    if len(first) != len(rows_s):
        fail("rows", "%d rows written, %d read back on %d ranks" % (len(rows_s), len(first), P), None)
        return
    for i, (ws, wo, lr) in enumerate(zip(rows_s, rows_o, first)):
        if len(lr) != len(ws):
            fail("rows", "row %d: %d steps written %r, %d read back %r (P=%d)" % (i, len(ws), ws, len(lr), [str(x) for x in lr], P), i)
            return
        for c, (s, o, l) in enumerate(zip(ws, wo, lr)):
            why = same_entry(o, l, all_a, ctx.rng) if use_sympy else same_entry_str(s, l, all_a, ctx.rng)
            if why:
                fail("cell:" + s, "row %d step %d (P=%d, use_sympy=%s): %s" % (i, c, P, use_sympy, why), i)


def _single_row_fails(ctx, S, row_s, row_o, use_sympy, all_a):
    path = os.path.join(ctx.tmp, "c17one", "compl_1", "inv_subs_1.txt")
    write_file(path, [row_s])
    try:
        res = [("ok", S.load_subs(path, K, use_sympy=use_sympy))]
    except Exception as e:
        res = [("raise", repr(e))]
    bad = []
    check_loaded(ctx, path, [row_s], [row_o], 1, use_sympy, res, all_a, lambda what, msg, row: bad.append(msg))
    return bad


def _corr_load(ctx, rec, all_a, deep):
    import sympy
    import esr.generation.simplifier as S
    distinct = {}
    for kind, fam, j, p, q, obj, s in rec:
        distinct.setdefault(s, obj)
    strings = list(distinct)
    lib = os.path.join(ctx.tmp, "c17lib")
    files = {}     # path -> (rows_s, rows_o)

    def mk(name, rows_s):
        path = os.path.join(lib, "compl_%d" % name, "inv_subs_%d.txt" % name)
        write_file(path, rows_s)
        files[path] = (rows_s, [[distinct[s] for s in row] for row in rows_s])
        return path

    rows = [[s] for s in strings]
    for _ in range(60 if deep else 30):
        rows.append([ctx.rng.choice(strings) for _ in range(ctx.rng.randint(2, 6))])
    for _ in range(12):
        rows.insert(ctx.rng.randrange(len(rows) + 1), [])
    rows.append([])                                           # a trailing empty row
    mk(9, rows)
    for n, N in enumerate([0, 1, 2, 3, 4, 7] + ([5, 6, 11, 16] if deep else [])):
        mk(10 + n, [[ctx.rng.choice(strings) for _ in range(ctx.rng.choice([0, 1, 1, 2, 3]))] for _ in range(N)])
    paths = sorted(files, key=lambda p: (-len(files[p][0]), p))      # the big template file first, the empty file last
    ranks = [1, 2, 3, 4, 5] + ([7, 8] if deep else [])
    n_bad = 0
    n_cells = 0
    not_run = 0
    ops, want, meta = [], [], []
    for P in ranks:
        if P == 1:
            jobs = [dict(file=f, k=K, use_sympy=m) for f in paths for m in (True, False)]
            per_rank = [[]]
            for jb in jobs:
                try:
                    per_rank[0].append(("ok", S.load_subs(jb["file"], jb["k"], use_sympy=jb["use_sympy"])))
                except Exception as e:
                    per_rank[0].append(("raise", repr(e)))
            res, log = dict(ok=True, error=None), ""
        else:
            jobs, per_rank, res, log = run_load(ctx, paths, P, "main")
        if not res["ok"] and all(pr is None or len(pr) == 0 for pr in per_rank):
            ctx.disagree("corr:load_subs", "run on %d ranks failed: %s %s" % (P, res.get("error"), log[-400:]))
            n_bad += 1
            continue
        if not res["ok"]:
            ctx.extra.setdefault("load_run_errors", []).append("P=%d: %s" % (P, str(res.get("error"))[:200]))
        for ji, jb in enumerate(jobs):
            rows_s, rows_o = files[jb["file"]]
            results = [pr[ji] if pr is not None and len(pr) > ji else None for pr in per_rank]

            def fail(what, msg, row, jb=jb, rows_s=rows_s, rows_o=rows_o, P=P):
                small = False
                if what.startswith("cell:") and row is not None:
                    # does the row alone, read on one rank, already show it?  then that is the replay
                    small = bool(_single_row_fails(ctx, S, rows_s[row], rows_o[row], jb["use_sympy"], all_a))
                if small:
                    key = "load_subs:%s" % what
                    rp = dict(kind="load", P=P, k=K, use_sympy=jb["use_sympy"], rows=[rows_s[row]], replay_P=1)
                else:
                    key = "load_subs:%s:P=%d:N=%d" % ("row-moved" if what.startswith("cell:") else what, P, len(rows_s))
                    rp = dict(kind="load", P=P, k=K, use_sympy=jb["use_sympy"], rows=rows_s, replay_P=P)
                ctx.fail(key, msg, rp)
            if check_loaded(ctx, jb["file"], rows_s, rows_o, P, jb["use_sympy"], results, all_a, fail) == "not-run":
                not_run += 1
                continue
            ncell = sum(len(r) for r in rows_s)
            n_cells += ncell
            ctx.case(("load", os.path.basename(jb["file"]), P, jb["use_sympy"]), nontrivial=(P >= 2 and ncell > 0), n=max(1, ncell))
            text = open(jb["file"], "rb").read().decode("ascii")
            ops.append("subs-loadfile %d %s" % (P, hx(text)))
            want.append("err" if results[0] is None or results[0][0] != "ok" else canon_rows(results[0][1]))
            meta.append((os.path.basename(jb["file"]), P, jb["use_sympy"]))
    out = common.model(ops)
    for o, w, g, m in zip(ops, want, out, meta):
        if w != g:
            n_bad += 1
            ctx.disagree("corr:load_subs", "file %s P=%d use_sympy=%s: code=%s model=%s" % (m[0], m[1], m[2], w[:300], g[:300]))
    ctx.sample(dict(file=meta[1][0], P=meta[1][1], code=want[1][:160], model=out[1][:160]))
    # observation only (C05 territory): does `np.nan in row` still find the marker after the collectives?
    import numpy as np
    one = S.load_subs(paths[0], K)
    ctx.extra["nan_identity_survives_gather"] = bool(any((np.nan in r) for r in one if any(_is_nan(c) for c in r)))
    ctx.extra["load_files"] = {os.path.basename(p): len(files[p][0]) for p in paths}
    ctx.extra["load_ranks"] = ranks
    if not_run:
        ctx.disagree("corr:load_subs", "%d load jobs not run because an earlier job of the same launch raised" % not_run)
    return dict(load_ops=len(ops), load_bad=n_bad, cells=n_cells)


# --------------------------------------------------------------------------------------------------
# (b') load_subs under a timeout wherever the code under test installs a time limit (harness/inject.py)
# --------------------------------------------------------------------------------------------------

WATCHED = ["load_subs", "simplify_inv_subs", "get_all_dup"]
FAULT_BOUND = 3           # occurrences of a line (with a time limit active) that are fault sites


def _quoted(s):
    return s.replace("{", "{'").replace("}", "'}").replace(", ", "', '").replace(": ", "': '")


def judge_faulted(ctx, rows_s, rows_o, use_sympy, got, all_a):
    """The property after a call in which a time limit struck: every row read back is EITHER the mapping that was written (the
    oracle of check_loaded: same keys, equivalent values, nan stays nan, row i stays row i) OR exactly the original text of that row
    (left unconverted); a mixture is a violation.  Returns ([(row index | None, message)], #rows left as their original text)."""
    bad, raw_rows = [], 0
    if not isinstance(got, list) or len(got) != len(rows_s):
        return [(None, "%d rows written, %r read back" % (len(rows_s), len(got) if isinstance(got, list) else got))], 0
    for i, (ws, wo, lr) in enumerate(zip(rows_s, rows_o, got)):
        if not isinstance(lr, list) or len(lr) != len(ws):
            bad.append((i, "row %d: %d steps written %r, read back %r" % (i, len(ws), ws, lr)))
            continue
        st = []
        for s, o, l in zip(ws, wo, lr):
            why = same_entry(o, l, all_a, ctx.rng) if use_sympy else same_entry_str(s, l, all_a, ctx.rng)
            if not why:
                st.append("converted")
            elif isinstance(l, str) and l == s:
                st.append("raw text")
            elif isinstance(l, str) and l == _quoted(s):
                st.append("quote-inserted text %r" % l)
            else:
                st.append("read back as %r (%s)" % (l, why))
        if all(x == "converted" for x in st):
            continue
        if all(isinstance(l, str) and l == s for s, l in zip(ws, lr)):
            raw_rows += 1               # the whole row is exactly the text that was written: left unconverted
            continue
        bad.append((i, "row %d written %r came back MIXED: %s" % (i, ws, "; ".join("step %d %s" % (c, x) for c, x in enumerate(st)))))
    return bad, raw_rows


def _fault_files(ctx, rec):
    """every recordable string in a chain of <= 4 steps, a few rows per file; plus markers and empty rows"""
    distinct = {}
    for kind, fam, j, p, q, obj, s in rec:
        distinct.setdefault(s, obj)
    strings = list(distinct)
    ctx.rng.shuffle(strings)
    rows, k = [], 0
    while k < len(strings):
        n = ctx.rng.choice((2, 3, 3, 4, 4))
        rows.append(strings[k:k + n]); k += n
    files = []
    per = 4
    for f in range(0, len(rows), per):
        chunk = [list(r) for r in rows[f:f + per]]
        if ctx.rng.random() < 0.5:
            chunk.insert(ctx.rng.randrange(len(chunk) + 1), [])
        if ctx.rng.random() < 0.3:
            r = ctx.rng.choice([c for c in chunk if c])
            r.insert(ctx.rng.randrange(len(r) + 1), "nan")
        path = os.path.join(ctx.tmp, "c17fault", "compl_%d" % (20 + len(files)), "inv_subs_%d.txt" % (20 + len(files)))
        write_file(path, chunk)
        files.append((path, chunk, [[distinct[s] for s in row] for row in chunk]))
    return files


def _fault_replay(rows_s, use_sympy, P, faults):
    return dict(kind="fault", P=P, k=K, use_sympy=use_sympy, rows=rows_s, faults=[list(f) for f in faults])


def _fault_phase(ctx, rec, all_a, deep):
    """fire a genuine SIGALRM at every site of load_subs (simplify_inv_subs, get_all_dup) at which the code under test has a time
    limit active; one fault per run, a few two-fault runs, 1 rank in-process and 2-5 ranks through the worker"""
    import esr.generation.simplifier as S
    import inject
    st = dict(watched=list(WATCHED), time_limited_sites=0, sites={}, runs=0, two_fault_runs=0, multi_rank_runs=0, fired=0,
              rows_left_unconverted=0, timeouts_propagated=0, violations=0, bound=FAULT_BOUND)
    files = _fault_files(ctx, rec)
    inj = inject.Injector(S, WATCHED, root=ctx.stage, bound=FAULT_BOUND)
    if inj.missing:
        st["missing_functions"] = inj.missing
    sites = {}
    for m in (True, False):
        sites[m] = [s for s in inj.record(S.load_subs, files[0][0], K, use_sympy=m) if s[0] == "load_subs"]
        st["sites"]["load_subs,use_sympy=%s" % m] = len(sites[m])
    # the two pure helpers: any chain / k will do to see whether a time limit is ever active inside them
    dup = list(S.get_all_dup(2))
    other = inj.record(lambda: (S.get_all_dup(3), S.simplify_inv_subs([dup[0], dup[0], dup[1]], dup)))
    st["sites"]["get_all_dup+simplify_inv_subs"] = len(other)
    # self-test of the discovery on this tree's own time_limit: the same helper called inside a `with time_limit` must show sites
    def _under_limit():
        with S.time_limit(30):
            return S.get_all_dup(2)
    try:
        probe = inj.record(_under_limit)
    except Exception as e:
        probe = []
        ctx.disagree("fault:selftest", "time_limit of the staged simplifier could not be entered: %r" % (e,))
    st["selftest_sites_under_time_limit"] = len(probe)
    if not probe:
        ctx.disagree("fault:selftest", "no line of get_all_dup was seen with a time limit active inside `with time_limit(30)`: "
                                       "the run-time discovery of time-limited regions does not work on this tree")
    st["lines_watched_last_call"] = inj.lines_seen
    st["time_limited_sites"] = len(sites[True]) + len(sites[False]) + len(other)
    if other:
        ctx.disagree("fault:sites", "a time limit is active inside get_all_dup / simplify_inv_subs (%r): no fault oracle for these yet" % other[:3])
    if not (sites[True] or sites[False]):
        return st
    seen_keys = set()

    def judge(rows_s, rows_o, m, P, faults, res, fired):
        st["runs"] += 1
        st["fired"] += len(fired)
        ctx.case(("fault", tuple(map(tuple, faults)), m, P, tuple(map(tuple, rows_s))), nontrivial=bool(fired), n=max(1, sum(len(r) for r in rows_s)))
        if res[0] == "raise":
            if type(res[1]).__name__ == "TimeoutException" or "TimeoutException" in str(res[1]):
                st["timeouts_propagated"] += 1        # no handler: the call ends, nothing wrong is read back
                return
            bad = [(None, "load_subs raised %r" % (res[1],))]
        else:
            bad, raw = judge_faulted(ctx, rows_s, rows_o, m, res[1], all_a)
            st["rows_left_unconverted"] += raw
        for row, msg in bad:
            st["violations"] += 1
            key = "load_subs:timeout:%s" % ",".join("line%d" % f[1] for f in faults)
            if key in seen_keys and st["violations"] > 12:
                continue
            seen_keys.add(key)
            rs = [rows_s[row]] if (row is not None and P == 1 and _fault_alone_fails(ctx, S, inj, rows_s[row], rows_o[row], m, faults, all_a)) else rows_s
            ctx.fail(key, "timeout at %s (use_sympy=%s, P=%d): %s" % (
                " + ".join("%s:%d occurrence %d" % tuple(f) for f in faults), m, P, msg), _fault_replay(rs, m, P, faults))

    # one fault per run, sites dealt round-robin over the files (every template string is in some file)
    fi = 0
    plans = []
    for m in (True, False):
        # later occurrences first: they strike in a later step of a row, after earlier steps have been converted
        for s in sorted(sites[m], key=lambda x: (-x[2], x[1])):
            plans.append((m, [s]))
    for m in (True, False):                     # a few two-fault runs: two different rows of the same call
        ss = sites[m]
        for _ in range(6 if not deep else 20):
            if len(ss) >= 2:
                a, b = ctx.rng.sample(ss, 2)
                plans.append((m, [a, b]))
    reps = 1 if not deep else 3
    for m, faults in plans * reps:
        path, rows_s, rows_o = files[fi % len(files)]; fi += 1
        with contextlib.redirect_stdout(io.StringIO()):
            res, fired = inj.inject(faults, S.load_subs, path, K, use_sympy=m)
        if len(faults) == 2:
            st["two_fault_runs"] += 1
        judge(rows_s, rows_o, m, 1, faults, res, fired)
    # every file once more with a random site (so that every recordable string is converted under a fault somewhere)
    for path, rows_s, rows_o in files:
        m = ctx.rng.random() < 0.5
        if not sites[m]:
            m = not m
        s = ctx.rng.choice(sites[m])
        s = (s[0], s[1], ctx.rng.randint(1, max(1, sum(len(r) for r in rows_s))))
        with contextlib.redirect_stdout(io.StringIO()):
            res, fired = inj.inject([s], S.load_subs, path, K, use_sympy=m)
        judge(rows_s, rows_o, m, 1, [s], res, fired)
    # 2-5 ranks: the fault strikes on every rank, in that rank's block
    for P in [2, 3, 4, 5]:
        jobs, meta = [], []
        for _ in range(4 if not deep else 10):
            path, rows_s, rows_o = files[fi % len(files)]; fi += 1
            m = ctx.rng.random() < 0.5
            if not sites[m]:
                m = not m
            s = ctx.rng.choice(sites[m])
            jobs.append(dict(file=path, k=K, use_sympy=m, faults=[list(s)], root=ctx.stage))
            meta.append((rows_s, rows_o, m, [s]))
        jobs, per_rank, res, log = run_load(ctx, None, P, "fault", jobs=jobs)
        for ji, (rows_s, rows_o, m, faults) in enumerate(meta):
            results = [pr[ji] if pr is not None and len(pr) > ji else None for pr in per_rank]
            if any(r is None for r in results):
                if ji == 0 or all(r is None for r in results):
                    continue
            r0 = results[0]
            if r0 is None:
                continue
            st["multi_rank_runs"] += 1
            fired = [f for r in results if r is not None and len(r) > 2 for f in r[2]]
            if r0[0] == "ok":
                for r, rr in enumerate(results[1:], 1):
                    if rr is not None and rr[0] == "ok" and canon_rows(rr[1]) != canon_rows(r0[1]):
                        ctx.fail("load_subs:timeout:ranks-differ", "rank %d of %d got different substitutions than rank 0 after a timeout at %r" % (r, P, faults),
                                 _fault_replay(rows_s, m, P, faults))
                judge(rows_s, rows_o, m, P, faults, ("ok", r0[1]), fired)
            else:
                judge(rows_s, rows_o, m, P, faults, ("raise", r0[1]), fired)
    return st


def _fault_alone_fails(ctx, S, inj, row_s, row_o, use_sympy, faults, all_a):
    """does the row alone, on one rank, with the fault at the same line (any occurrence up to its length) show the mixture?"""
    path = os.path.join(ctx.tmp, "c17fault_one", "compl_1", "inv_subs_1.txt")
    write_file(path, [row_s])
    with contextlib.redirect_stdout(io.StringIO()):
        res, fired = inj.inject(faults, S.load_subs, path, K, use_sympy=use_sympy)
    if res[0] != "ok":
        return False
    return bool(judge_faulted(ctx, [row_s], [row_o], use_sympy, res[1], all_a)[0])


# --------------------------------------------------------------------------------------------------
# (c) simplify_inv_subs on all chains up to a length
# --------------------------------------------------------------------------------------------------

class Composer(object):
    """composition of a chain as convert_params 1205-1207 does it: p = p.subs(s, simultaneous=True) for s in order"""

    def __init__(self, k, strings):
        import sympy
        self.k = k
        self.a = _symbols(k)
        self.obj = {s: parse_dict_string(s, self.a) for s in strings}
        self.fn = {}
        for s, d in self.obj.items():
            if d is not None:
                exprs = [d.get(a, a) for a in self.a]
                self.fn[s] = sympy.lambdify(self.a, exprs, "numpy")

    def fast(self, chain, th):
        import numpy as np
        v = list(th)
        with np.errstate(all="ignore"):
            for s in reversed(chain):
                v = [float(x) if not isinstance(x, complex) else x for x in self.fn[s](*v)]
        return v

    def symbolic(self, chain, th):
        import sympy
        p = sympy.Array(self.a)
        for s in chain:
            p = p.subs(self.obj[s], simultaneous=True)
        return [_num(x.subs(dict(zip(self.a, th)), simultaneous=True)) for x in p]


def cancel_oracle(comp, chain, after, thetas, symbolic=False):
    """None if the property holds for this chain, else a reason"""
    after = [] if after is None else list(after)
    if chain.count("nan") != after.count("nan"):
        return "unrecoverable marker count %d -> %d" % (chain.count("nan"), after.count("nan"))
    if "nan" in chain:
        return None
    if after == list(chain):
        return None
    for s in after:
        if s not in comp.obj:
            return "result contains %r, not an element of the input" % s
    for th in thetas:
        if symbolic:
            x, y = comp.symbolic(chain, th), comp.symbolic(after, th)
            ok = all(a is not None and b is not None and _close(a, b) for a, b in zip(x, y))
        else:
            x, y = comp.fast(chain, th), comp.fast(after, th)
            ok = all(_close(a, b) for a, b in zip(x, y))
        if not ok:
            return "composition at a=%r: %r before, %r after cancellation to %r" % (th, x, y, after)
    return None


def _oracle_dups(ctx, dups):
    """the property on the shortest chains there are: every element d of the REAL get_all_dup(k) is cancelled when it is
    repeated, so [d, d] (and [d, d, d]) must compose to the same map after the real simplify_inv_subs as before."""
    import esr.generation.simplifier as S
    st = dict(elements=0, chains=0, unreadable=0)
    for k, dup in sorted(dups.items()):
        if k == 0 or not dup:
            continue
        uniq = sorted(set(dup))
        if len(uniq) > 600:
            uniq = sorted(ctx.rng.sample(uniq, 600))
        try:
            comp = Composer(k, uniq)
        except Exception as e:
            st["unreadable"] += 1
            ctx.disagree("oracle:all_dup", "get_all_dup(%d) has an element the independent reader cannot parse: %r" % (k, e))
            continue
        thetas = [[ctx.rng.choice((-1, 1)) * ctx.rng.uniform(0.5, 2.0) for _ in range(k)] for _ in range(3)]
        for d in uniq:
            st["elements"] += 1
            for chain in ([d, d], [d, d, d]):
                after = S.simplify_inv_subs(list(chain), list(dup))
                st["chains"] += 1
                ctx.case(("cancel", k, tuple(chain)), nontrivial=True)
                why = cancel_oracle(comp, chain, after, thetas)
                if why:
                    ctx.fail("simplify_inv_subs:k=%d:%s" % (k, ";".join(chain)),
                             "chain %r cancelled to %r: %s" % (chain, after, why), dict(kind="cancel", k=k, chain=chain))
    return st


def canon_chain(res):
    if res is None:
        return "None"
    if len(res) == 0:
        return "[]"
    return " ".join(hx(s) for s in res)


def _corr_cancel(ctx, rec, deep):
    import esr.generation.simplifier as S
    nondup_pool = {}
    for kind, fam, j, p, q, obj, s in rec:
        nondup_pool.setdefault(j if kind in ("template", "neg") else -1, []).append(s)
    plans = [(1, 5 if not deep else 7, 3), (2, 4 if not deep else 5, 3), (3, 3, 2), (4, 2, 2)]
    if deep:
        plans.append((2, 6, 1))
    stats = dict(chains=0, changed=0, with_nan=0, bad=0, symbolic=0, convert_params_checked=0)
    sample_changed = []
    for k, L, n_extra in plans:
        dup = list(S.get_all_dup(k))
        pool = [s for j in range(k) for s in nondup_pool.get(j, []) if s not in dup and s != "{a%d: a%d}" % (j, j)]
        pool += [s for s in nondup_pool.get(-1, []) if s not in dup and all(int(t) < k for t in re.findall(r"a(\d+)", s))]
        extra = ctx.rng.sample(sorted(set(pool)), min(n_extra, len(set(pool))))
        alpha = dup + extra + ["nan"]
        comp = Composer(k, alpha)
        thetas = [[ctx.rng.choice((-1, 1)) * ctx.rng.uniform(0.5, 2.0) for _ in range(k)] for _ in range(3)]
        ops, want = [], []
        changed = []
        for n in range(0, L + 1):
            for chain in itertools.product(alpha, repeat=n):
                chain = list(chain)
                after = S.simplify_inv_subs(list(chain), dup)
                ops.append("subs-cancel %d %s" % (k, " ".join(hx(s) for s in chain)) if chain else "subs-cancel %d" % k)
                want.append(canon_chain(after))
                aft = [] if after is None else list(after)
                ch = aft != chain
                hasnan = "nan" in chain
                stats["chains"] += 1
                stats["changed"] += ch
                stats["with_nan"] += hasnan
                ctx.case(("cancel", k, tuple(chain)), nontrivial=(ch or hasnan))
                why = cancel_oracle(comp, chain, after, thetas)
                if why:
                    ctx.fail("simplify_inv_subs:k=%d:%s" % (k, ";".join(chain)),
                             "chain %r cancelled to %r: %s" % (chain, after, why), dict(kind="cancel", k=k, chain=chain))
                if ch and not hasnan:
                    changed.append((chain, after))
        out = common.model(ops)
        for o, w, g in zip(ops, want, out):
            if w != g:
                stats["bad"] += 1
                if stats["bad"] <= 5:
                    ctx.disagree("corr:simplify_inv_subs", "%s: code=%s model=%s" % (
                        " ".join(unhx(t) if i >= 2 else t for i, t in enumerate(o.split())), w, g))
        # the same check through sympy's own substitution loop, and through the real convert_params, on a sample
        ctx.rng.shuffle(changed)
        for chain, after in changed[: (400 if deep else 120)]:
            stats["symbolic"] += 1
            why = cancel_oracle(comp, chain, after, thetas[:1], symbolic=True)
            if why:
                ctx.fail("simplify_inv_subs:k=%d:%s" % (k, ";".join(chain)),
                         "chain %r cancelled to %r: %s" % (chain, after, why), dict(kind="cancel", k=k, chain=chain))
            x1, x2 = comp.fast(chain, thetas[0]), comp.symbolic(chain, thetas[0])
            def _real(v):
                try:
                    return abs(complex(v).imag) <= 1e-12 * max(1.0, abs(complex(v).real))
                except Exception:
                    return False
            # the two evaluators are compared on real values only: off the real axis (odd root of a negative number)
            # numpy's and sympy's principal branches legitimately differ, and the property speaks of real parameters
            if all(b is not None and _real(a) and _real(b) for a, b in zip(x1, x2)) and \
                    not all(_close(a, b) for a, b in zip(x1, x2)):
                ctx.disagree("oracle:composition-order", "chain %r at %r: right-to-left function composition %r, sympy loop %r" % (chain, thetas[0], x1, x2))
            stats["convert_params_checked"] += _via_convert_params(ctx, S, comp, k, chain, after, thetas[0])
        if len(sample_changed) < 3 and changed:
            sample_changed.append(dict(k=k, chain=changed[0][0], after=changed[0][1]))
        ctx.extra.setdefault("cancel_alphabets", {})["k=%d,L<=%d" % (k, L)] = alpha
    for s in sample_changed:
        ctx.sample(s)
    return stats


def _via_convert_params(ctx, S, comp, k, chain, after, th):
    """the composition as the real convert_params computes it (when its Jacobian is invertible)"""
    import numpy as np, io, contextlib
    n = max(k, 1)
    fish = np.eye(n)[np.triu_indices(n)]
    vals = []
    for c in (chain, [] if after is None else list(after)):
        try:
            with contextlib.redirect_stdout(io.StringIO()), np.errstate(all="ignore"):
                p, _ = S.convert_params(list(th), fish, [comp.obj[s] for s in c], n=n)
            vals.append([complex(x) for x in np.atleast_1d(np.array(p, dtype=complex)).ravel()])
        except Exception:
            return 0
    if len(vals[0]) != len(vals[1]) or not all(_close(a, b) for a, b in zip(*vals)):
        ctx.fail("simplify_inv_subs:k=%d:%s" % (k, ";".join(chain)),
                 "convert_params gives %r for %r but %r after cancellation to %r (a=%r)" % (vals[0], chain, vals[1], after, th),
                 dict(kind="cancel", k=k, chain=chain))
    return 1


# --------------------------------------------------------------------------------------------------

def run(ctx):
    drift = extract.drifted(ctx.proof.get("extract", {}), MODELLED)
    deep = (not ctx.quick) or bool(drift)
    ctx.extra["source_drift"] = drift
    ex = ctx.proof.get("extract", {})
    err = ex.get("errors", {}).get("Subs")
    fb = (ctx.proof or {}).get("fallback") or {}
    if err and ("Subs" not in fb or err.startswith("sympy_simplify:")):
        # the template table of sympy_simplify has no dynamic tie (nothing here observes what the simplifier records), so
        # an unreadable sympy_simplify stays strict; get_all_dup / load_subs fall back on the correspondences below
        ctx.disagree("extract:Subs", err)
    rec, all_a = build_recordable(ctx)
    unknown = sorted(set(r[6] for r in rec if r[1] == "unknown"))
    if unknown:
        ctx.disagree("corr:templates", "templates outside the modelled families: %r" % unknown[:5])
    a, dups = _corr_print(ctx, rec, all_a)
    ctx.extra["all_dup_oracle"] = _oracle_dups(ctx, dups)
    b = _corr_load(ctx, rec, all_a, deep)
    ctx.extra["timeout_faults"] = _fault_phase(ctx, rec, all_a, deep)
    c = _corr_cancel(ctx, rec, deep)
    ctx.extra["corr_obligations"] = 5
    ctx.extra["corr_discharged"] = (int(a["strings_bad"] == 0 and not unknown) + int(a["alldup_bad"] == 0) + int(a["eval_bad"] == 0)
                                    + int(b["load_bad"] == 0) + int(c["bad"] == 0))
    ctx.extra["correspondence"] = dict(printed=a, load=b, cancel=c)
    ctx.extra["recordable"] = {k: sum(1 for r in rec if r[0] == k) for k in ("template", "neg", "perm", "rename", "nan")}
    ctx.extra["bounds"] = dict(parameters=K, n_abs_max=NMAX, rational_denominators=[2, 3, 4])
    ctx.extra["exhaustive"] = True


def replay(ctx, data):
    rp = data["replay"]
    import esr.generation.simplifier as S
    if rp["kind"] == "cancel":
        k, chain = rp["k"], list(rp["chain"])
        dup = list(S.get_all_dup(k))
        after = S.simplify_inv_subs(list(chain), dup)
        comp = Composer(k, sorted(set(chain) | set(dup) | set(after or [])))
        thetas = [[ctx.rng.choice((-1, 1)) * ctx.rng.uniform(0.5, 2.0) for _ in range(k)] for _ in range(3)]
        why = cancel_oracle(comp, chain, after, thetas, symbolic=("nan" not in chain))
        print("simplify_inv_subs(%r, get_all_dup(%d)) -> %r" % (chain, k, after))
        print("  " + (why or "composition unchanged at %r" % thetas))
        return why is None
    if rp["kind"] == "load":
        all_a = _symbols(rp["k"])
        rows_s = rp["rows"]
        rows_o = [[parse_dict_string(s, all_a) for s in row] for row in rows_s]
        path = os.path.join(ctx.tmp, "c17replay", "compl_1", "inv_subs_1.txt")
        write_file(path, rows_s)
        P = rp.get("replay_P", rp["P"])
        if P == 1:
            try:
                results = [("ok", S.load_subs(path, rp["k"], use_sympy=rp["use_sympy"]))]
            except Exception as e:
                results = [("raise", repr(e))]
        else:
            jobs, per_rank, res, log = run_load(ctx, [path], P, "replay")
            ji = [i for i, jb in enumerate(jobs) if jb["use_sympy"] == rp["use_sympy"]][0]
            results = [pr[ji] if pr is not None and len(pr) > ji else None for pr in per_rank]
        bad = []
        check_loaded(ctx, path, rows_s, rows_o, P, rp["use_sympy"], results, all_a, lambda what, msg, row: bad.append(msg))
        print("load_subs on %d rank(s), %d row(s) written:" % (P, len(rows_s)))
        for r in rows_s[:6]:
            print("   ", r)
        for m in bad[:5]:
            print("  FAIL:", m)
        if not bad:
            print("  read back equal")
        return not bad
    if rp["kind"] == "fault":
        import inject
        all_a = _symbols(rp["k"])
        rows_s = rp["rows"]
        rows_o = [[parse_dict_string(s, all_a) for s in row] for row in rows_s]
        path = os.path.join(ctx.tmp, "c17replay", "compl_1", "inv_subs_1.txt")
        write_file(path, rows_s)
        P, m, faults = rp["P"], rp["use_sympy"], [tuple(f) for f in rp["faults"]]
        print("load_subs(use_sympy=%s) on %d rank(s), a genuine SIGALRM delivered at %s (n-th time that line of load_subs runs with a "
              "time limit of the code under test active); file rows:" % (m, P, ", ".join("line %d occurrence %d" % (f[1], f[2]) for f in faults)))
        for r in rows_s[:8]:
            print("   ", r)
        if P == 1:
            inj = inject.Injector(S, ["load_subs"], root=ctx.stage)
            res, fired = inj.inject(faults, S.load_subs, path, rp["k"], use_sympy=m)
            if res[0] == "raise":
                res = ("raise", repr(res[1]))
        else:
            jobs, per_rank, rr, log = run_load(ctx, None, P, "replayf", jobs=[dict(file=path, k=rp["k"], use_sympy=m, faults=[list(f) for f in faults], root=ctx.stage)])
            r0 = per_rank[0][0] if per_rank[0] else ("raise", "rank 0 wrote no result: %s" % log[-300:])
            res, fired = (r0[0], r0[1]), (r0[2] if len(r0) > 2 else [])
        print("  fired at:", [list(f) for f in fired])
        if res[0] == "raise":
            print("  load_subs raised", res[1])
            return "TimeoutException" in str(res[1])
        bad, raw = judge_faulted(ctx, rows_s, rows_o, m, res[1], all_a)
        for i, lr in enumerate(res[1][:8]):
            print("  read back row %d: %r" % (i, lr))
        for row, msg in bad[:5]:
            print("  FAIL:", msg)
        if not bad:
            print("  every row is the written mapping or exactly its original text (%d left unconverted)" % raw)
        return not bad
    return True
