"""C01 — exhaustive, duplicate-free enumeration of expression trees."""
import itertools, json, os, re, shutil
import common, extract, libgen

LEAN_MODULE = ["ESRVerif.Props.C01", "ESRVerif.Props.C01b", "ESRVerif.Props.C01c"]
LEVEL = "proof"
LEVEL_TEXT = ("Lean theorems, unbounded in the complexity n and in the basis: check_tree succeeds iff the arity string is the prefix "
              "form of a unary-binary tree; failed-prefix pruning is sound; the extracted pre-filter rules are necessary conditions; "
              "get_allowed_shapes(n) equals, as an ordered list, the lexicographic product filtered by validity (no shape missing, "
              "none extra, none twice); shape_to_functions emits exactly the labellings of a shape with parameters renumbered in order "
              "of appearance, and generate_equations' printed count equals the number of emitted trees; for every well-formed basis "
              "(classes duplicate-free and pairwise disjoint, 'a' only nullary, no label of the form a<digits>; decided by Lean for every "
              "regenerated shipped basis) the emitted list has no duplicates, so it is a duplicate-free enumeration of exactly the "
              "renumbered labellings of the trees with n nodes (generate_nodup, generate_enumerates). check_tree is modelled twice: with a stack of open "
              "binary ancestors (what the theorems above are about) and statement by statement with parent-pointer climb, fuel and the "
              "post-loop None-in-lefts/rights tests on the arrays; checkTreePtr_eq proves the two equal on every string (success, "
              "part_considered, the three pointer arrays, raise; fuel never runs out). The models are tied to the code by exhaustive "
              "correspondence (all 3^n strings against both check_tree models, all shapes, all trees of the six regenerated bases, PRNG sub-bases and one basis "
              "per arity-class size profile - every pattern of empty/singleton/larger classes - through shape_to_functions and through generate_equations as a whole) and by an "
              "independent recursive enumerator run against the real code. shapeToTrees_eq_nil_iff/generate_eq_usable/usable_shape_needed: a shape contributes "
              "trees iff every arity it uses has a non-empty class, so the shape loop must not be narrowed by anything else about the basis.")
TECHNIQUE = "Lean 4 proof (induction over strings/trees; loop invariant relating the stack to the parent-pointer arrays) on hand models of check_tree (stack and pointer level)/get_allowed_shapes/shape_to_functions + regenerated tables + exhaustive model-code correspondence"
RULE = ("check_tree: every string over {0,1,2} up to the tier length, compared with the stack model and the pointer-level model (distinct = the string; non-trivial = length>=2); shapes: every n up to the bound; "
        "labelling: every shape x basis (six shipped + PRNG sub-bases + the arity-class profile grid) with at most the tier's tree budget (distinct = (shape,basis)); "
        "generate_equations in-process: every n up to the bound x (profile grid: one basis per combination of class sizes, nullary in {}, {x}, {a}, {x,a}[, {x,a,1}], "
        "unary and binary 0..2 (0..3 thorough) labels PRNG-drawn, so every emptiness/singleton pattern of the three classes occurs for every seed; six shipped; PRNG sub-bases) "
        "within the tree budget (distinct = (n,basis); non-trivial = at least one tree exists); "
        "files: generated libraries under 1-3 ranks, shipped sets and a verif_* basis with an empty operator class")
EXPLANATION = LEVEL_TEXT
TRUSTED = ["hand models ESRVerif/Model/Shape.lean, ShapePtr.lean, Labeling.lean (ShapePtr mirrors check_tree's parent-pointer climb statement by statement and is proved equal to the stack model; both tied by exhaustive correspondence incl. the three pointer arrays)",
           "harness/extractors/shape.py (pre-filter rules, bases)", "numpy U100 label truncation not modelled"]
ASSUMPTIONS = ["labels shorter than 100 characters", "duplicate-freeness is proved for well-formed bases (Labeling.Basis.WellFormed: classes duplicate-free and pairwise disjoint, 'a' only nullary, no label of the form a<digits>); every basis exercised is checked against that predicate by the Lean model", "a labelled tree is identified with (valid shape, prefix-order label list consistent with the arities)"]
# tables whose committed version may stand in as a hand-written model when the translator cannot read the source;
# value = the correspondence that then ties it to the code (common.prove / common.decide)
FALLBACK = {'Shape': 'real get_allowed_shapes / shape_to_functions / check_tree outputs vs the Lean model driven with the same bases (labelling and shape correspondence, every basis)'}
MODELLED = ["generator.py:check_tree", "generator.py:get_allowed_shapes", "generator.py:shape_to_functions", "generator.py:generate_equations"]


# ---- independent oracle: recursive enumeration of unary-binary trees -------------------------------------------

def _trees(n, memo={}):
    """all prefix arity strings of trees with n nodes (independent of both the code and the Lean model)"""
    if n in memo:
        return memo[n]
    out = []
    if n == 1:
        out = [(0,)]
    elif n > 1:
        out += [(1,) + t for t in _trees(n - 1)]
        for k in range(1, n - 1):
            out += [(2,) + l + r for l in _trees(k) for r in _trees(n - 1 - k)]
    memo[n] = out
    return out


def _labelled(shape, basis):
    """independent: labellings by recursion over positions, then renumber 'a' in order of appearance"""
    res = [[]]
    for a in shape:
        res = [r + [l] for r in res for l in basis[a]]
    out = []
    for r in res:
        k = 0
        rr = []
        for a, l in zip(shape, r):
            if a == 0 and l == "a":
                rr.append("a%d" % k); k += 1
            else:
                rr.append(l)
        out.append(tuple(rr))
    return out


def _fmt_opt(xs):
    return "-" if not xs else ",".join("n" if x is None else str(int(x)) for x in xs)


def _bs(c):
    return "_" if not c else ",".join(c)


def _corr_check_tree(ctx, nmax):
    import numpy as np
    from esr.generation import generator as g
    ops, ops_ptr, real = [], [], []
    valid = {n: set(_trees(n)) for n in range(1, nmax + 1)}
    for n in range(1, nmax + 1):
        for s in itertools.product((0, 1, 2), repeat=n):
            ops.append("ct " + "".join(map(str, s)))
            ops_ptr.append("ctp " + "".join(map(str, s)))
            try:
                succ, part, tree = g.check_tree(np.array(s, dtype=int))
                real.append("%d %s %s %s %s" % (int(bool(succ)), "-" if part is None else "".join(str(int(x)) for x in part),
                                                _fmt_opt([t.parent for t in tree]), _fmt_opt([t.left for t in tree]), _fmt_opt([t.right for t in tree])))
                # oracle (property): success iff s is the prefix form of a tree  (for the strings get_allowed_shapes passes: n==1 or s[0]!=0)
                if n >= 2 and bool(succ) != (s in valid[n]):
                    ctx.fail("check_tree:%s" % "".join(map(str, s)), "check_tree(%s) = %s but the string %s a valid tree" % (s, succ, "is" if s in valid[n] else "is not"),
                             dict(kind="check_tree", s=list(s)))
            except Exception as e:
                real.append("err")
            ctx.case(("ct", s), nontrivial=n >= 2)
    out = common.model(ops)
    bad = [(o, a, b) for o, a, b in zip(ops, real, out) if a != b]
    for o, a, b in bad[:5]:
        ctx.disagree("corr:check_tree", "%s: code=%s model=%s" % (o, a, b))
    # pointer-level model (Model/ShapePtr.lean: parent-pointer climb as the Python is written; "fuel" = climb did not end)
    outp = common.model(ops_ptr)
    badp = [(o, a, b) for o, a, b in zip(ops_ptr, real, outp) if a != b]
    for o, a, b in badp[:5]:
        ctx.disagree("corr:check_tree_ptr", "%s: code=%s pointer-model=%s" % (o, a, b))
    ctx.sample(dict(op=ops[-7], code=real[-7], model=out[-7], pointer_model=outp[-7]))
    ctx.extra["check_tree_models"] = dict(strings=len(ops), stack_model_mismatches=len(bad), pointer_model_mismatches=len(badp),
                                          pointer_model_raises=sum(1 for x in outp if x == "err"), code_raises=sum(1 for x in real if x == "err"),
                                          pointer_model_out_of_fuel=sum(1 for x in outp if x == "fuel"))
    return (len(ops), len(bad)), (len(ops_ptr), len(badp))


def _corr_shapes(ctx, nmax):
    from esr.generation import generator as g
    ops = ["shapes %d" % n for n in range(1, nmax + 1)]
    out = common.model(ops)
    nbad = 0
    counts = {}
    for n, o in zip(range(1, nmax + 1), out):
        sh = g.get_allowed_shapes(n)
        real = [tuple(int(x) for x in r) for r in sh]
        counts[n] = len(real)
        ctx.case(("shapes", n), nontrivial=n >= 3)
        want = sorted(_trees(n))                      # oracle: every tree shape, lexicographic, once
        if real != want:
            miss = [s for s in want if s not in real][:3]
            extra = [s for s in real if s not in set(want)][:3]
            dup = len(real) - len(set(real))
            ctx.fail("get_allowed_shapes:n=%d" % n, "get_allowed_shapes(%d): missing %s extra %s duplicates %d (or order differs)" % (n, miss, extra, dup),
                     dict(kind="shapes", n=n))
        model = [] if o == "-" else [tuple(int(c) for c in w) for w in o.split(";")]
        if model != real:
            nbad += 1
            ctx.disagree("corr:get_allowed_shapes", "n=%d: code has %d shapes, model %d" % (n, len(real), len(model)))
    ctx.extra["shape_counts"] = counts
    return len(ops), nbad


def _sub_bases(ctx, k):
    full = [["x", "a"], ["square", "exp", "inv", "sqrt_abs", "log_abs", "cube", "sin"], ["+", "*", "-", "/", "pow"]]
    out = []
    for _ in range(k):
        b0 = ctx.rng.choice([["x", "a"], ["x"], ["a"], ["x", "a", "1"]])
        b1 = ctx.rng.sample(full[1], ctx.rng.choice([0, 1, 1, 2, 3]))
        b2 = ctx.rng.sample(full[2], ctx.rng.choice([0, 1, 2, 2, 3]))
        out.append(("rnd", [b0, b1, b2]))
    return out


_POOL = (["x", "a", "1"], ["square", "exp", "inv", "sqrt_abs", "log_abs", "cube", "sin"], ["+", "*", "-", "/", "pow"])


def _profile_bases(ctx, deep):
    """The arity-class profile grid: one basis for EVERY combination of class sizes (k0, k1, k2) in the tier's box, so every
    emptiness pattern of the three classes (8 of them), every singleton pattern and every mixed one is present for every seed;
    only the labels filling a profile are drawn from ctx.rng.  The nullary class additionally runs through both singletons
    ['x'] (no parameter) and ['a'] (every leaf renumbered)."""
    null = [[], ["x"], ["a"], ["x", "a"]] + ([["x", "a", "1"]] if deep else [])
    kmax = 3 if deep else 2
    out = []
    for b0 in null:
        for k1 in range(kmax + 1):
            for k2 in range(kmax + 1):
                b1 = ctx.rng.sample(_POOL[1], k1)
                b2 = ctx.rng.sample(_POOL[2], k2)
                out.append(("prof%d%d%d%s" % (len(b0), k1, k2, "".join(b0)), [list(b0), b1, b2]))
    return out


def _corr_label(ctx, nmax, budget, bases):
    import numpy as np
    from esr.generation import generator as g
    save = g.find_additional_trees
    g.find_additional_trees = lambda tree, labels, basis: ([tree], [labels])      # all_tree does not depend on the rewriter
    ops, real, meta = [], [], []
    try:
        for n in range(1, nmax + 1):
            for s in sorted(_trees(n)):
                for name, b in bases:
                    cnt = 1
                    for a in s:
                        cnt *= len(b[a])
                    if cnt > budget:
                        continue
                    try:
                        all_fun, all_tree, _, _, _ = g.shape_to_functions(np.array(s, dtype=int), b)
                    except Exception as e:                                        # a valid shape must be labelled, not crash
                        ctx.case(("label", s, tuple(map(tuple, b))), nontrivial=cnt >= 2, n=max(cnt, 1))
                        if cnt == 0:                                              # nothing to emit: no tree is lost (the model returns the empty list)
                            ctx.disagree("corr:shape_to_functions", "shape %s basis %s: code raised %r, model returns no tree" % (s, b, e))
                            continue
                        ctx.fail("shape_to_functions:%s:%s" % ("".join(map(str, s)), name),
                                 "shape %s basis %s: shape_to_functions raised %r, so none of its %d trees is emitted" % (s, b, e, cnt),
                                 dict(kind="label", s=list(s), basis=b))
                        continue
                    got = [tuple(str(x) for x in t) for t in all_tree]
                    ops.append("label %s %s %s %s" % ("".join(map(str, s)), _bs(b[0]), _bs(b[1]), _bs(b[2])))
                    real.append("-" if not got else ";".join(",".join(t) for t in got))
                    ctx.case(("label", s, tuple(map(tuple, b))), nontrivial=cnt >= 2, n=max(cnt, 1))
                    want = _labelled(s, b)                                        # oracle
                    if sorted(got) != sorted(want) or len(set(got)) != len(got):
                        miss = [t for t in want if t not in set(got)][:2]
                        extra = [t for t in got if t not in set(want)][:2]
                        ctx.fail("shape_to_functions:%s:%s" % ("".join(map(str, s)), name),
                                 "shape %s basis %s: missing %s, unexpected/misnumbered %s, duplicates %d" % (s, b, miss, extra, len(got) - len(set(got))),
                                 dict(kind="label", s=list(s), basis=b))
    finally:
        g.find_additional_trees = save
    out = common.model(ops)
    bad = [(o, a, b) for o, a, b in zip(ops, real, out) if a != b]
    for o, a, b in bad[:5]:
        ctx.disagree("corr:shape_to_functions", "%s: code=%s model=%s" % (o, a[:200], b[:200]))
    if ops:
        ctx.sample(dict(op=ops[len(ops) // 3], code=real[len(ops) // 3][:160]))
    return len(ops), len(bad)


_TOPO = re.compile(r"Original number of trees:\s*(\d+)")


def _run_generate(g, n, b, outdir):
    """one real generate_equations(n, b, outdir) call in this process: the lines of orig_trees_<n>.txt, the printed count and the
    shapes handed to shape_to_functions (None if that hook point is not used by the code)"""
    import contextlib, io
    os.makedirs(outdir, exist_ok=True)
    seen = []
    orig = getattr(g, "shape_to_functions", None)

    def spy(shape, *a, **k):
        seen.append(tuple(int(x) for x in shape))
        return orig(shape, *a, **k)
    fat = getattr(g, "find_additional_trees", None)
    raised = []

    def fat_tolerant(tree, labels, basis, *a, **k):
        # the rewriter that proposes EXTRA trees is not C01's subject (C11; its TypeError for bases with log_abs+inv and no '-'
        # is known finding F13): if it raises, this original tree simply gets no extra trees; the original trees do not depend on it
        try:
            return fat(tree, labels, basis, *a, **k)
        except Exception as e:
            raised.append(repr(e)[:80])
            return [tree], [labels]
    if orig is not None:
        g.shape_to_functions = spy
    if fat is not None:
        g.find_additional_trees = fat_tolerant
    buf = io.StringIO()
    try:
        with contextlib.redirect_stdout(buf):
            g.generate_equations(n, [list(c) for c in b], outdir)
    finally:
        if orig is not None:
            g.shape_to_functions = orig
        if fat is not None:
            g.find_additional_trees = fat
    m = _TOPO.search(buf.getvalue())
    path = os.path.join(outdir, "orig_trees_%d.txt" % n)
    trees = [tuple(t) for t in libgen.read_trees(path) if t] if os.path.exists(path) else None
    return dict(trees=trees, printed=int(m.group(1)) if m else None, shapes=seen, rewriter_raised=len(raised))


def _judge_generate(n, b, r):
    """the property itself on one generate_equations run; returns a list of complaints (empty = holds)"""
    import collections
    want = [t for s in sorted(_trees(n)) for t in _labelled(s, b)]
    bad = []
    if r["trees"] is None:
        return ["orig_trees_%d.txt was not written" % n], want
    cg, cw = collections.Counter(r["trees"]), collections.Counter(want)
    if cg != cw:
        miss = sorted((cw - cg).elements())
        extra = sorted((cg - cw).elements())
        bad.append("orig_trees_%d.txt has %d lines but %d trees with %d nodes exist over this basis: %d missing (e.g. %s), %d unexpected/malformed/duplicated (e.g. %s)" % (
            n, len(r["trees"]), len(want), n, len(miss), [list(t) for t in miss[:2]], len(extra), [list(t) for t in extra[:2]]))
    if r["printed"] is not None and r["printed"] != len(want):
        bad.append("printed 'Original number of trees: %d' but %d trees exist" % (r["printed"], len(want)))
    return bad, want


def _corr_generate(ctx, nmax, bases, budget):
    """generate_equations itself (shape loop + labelling + file writing, one rank, in this process) for every basis of the
    arity-class profile grid and every n: files and printed count vs the independent enumerator (oracle) and vs the model."""
    from esr.generation import generator as g
    root = os.path.join(ctx.tmp, "c01_gen")
    ops, real, hooked = [], [], False
    cons = []
    nrew = 0
    profiles = {}
    for bi, (name, b) in enumerate(bases):
        prof = "".join("0" if not c else "1" if len(c) == 1 else "+" for c in b)
        for n in range(1, nmax + 1):
            cnt = sum(len(b[0]) ** s.count(0) * len(b[1]) ** s.count(1) * len(b[2]) ** s.count(2) for s in _trees(n))
            if cnt > budget:
                continue
            key = "generate_equations:%s:n=%d" % (name, n)
            rp = dict(kind="gen", n=n, basis=b)
            try:
                r = _run_generate(g, n, b, os.path.join(root, "b%d_n%d" % (bi, n)))
            except Exception as e:
                ctx.case(("gen", n, tuple(map(tuple, b))), nontrivial=cnt >= 1, n=max(cnt, 1))
                ctx.fail(key, "generate_equations(%d, %s) raised %r: none of the %d trees with %d nodes over this basis is emitted" % (n, b, e, cnt, n), rp)
                continue
            ctx.case(("gen", n, tuple(map(tuple, b))), nontrivial=cnt >= 1, n=max(cnt, 1))
            profiles[prof] = profiles.get(prof, 0) + 1
            nrew += r["rewriter_raised"]
            bad, want = _judge_generate(n, b, r)
            if bad:
                ctx.fail(key, "generate_equations(%d, %s): %s" % (n, b, "; ".join(bad)), rp)
            hooked = hooked or bool(r["shapes"])
            cons.append((key, rp, n, b, r["shapes"]))
            ops += ["gen %d %s %s %s" % (n, _bs(b[0]), _bs(b[1]), _bs(b[2])), "ntrees %d %s %s %s" % (n, _bs(b[0]), _bs(b[1]), _bs(b[2]))]
            real += ["-" if not r["trees"] else ";".join(",".join(t) for t in r["trees"]), "?" if r["printed"] is None else str(r["printed"])]
    if hooked:
        # "the set of tree shapes it considers is exactly the set of valid shapes with n nodes" (whatever the basis); only judged
        # when generate_equations is seen to route its shapes through shape_to_functions at all
        for key, rp, n, b, shapes in cons:
            if set(shapes) != set(_trees(n)):
                miss = sorted(set(_trees(n)) - set(shapes))[:3]
                extra = sorted(set(shapes) - set(_trees(n)))[:3]
                ctx.fail(key.replace("generate_equations:", "shapes_considered:"),
                         "generate_equations(%d, %s) considered %d shapes, %d valid shapes with %d nodes exist: never considered %s, not a tree shape %s" % (
                             n, b, len(set(shapes)), len(_trees(n)), n, miss, extra), dict(rp, kind="gen_shapes"))
    out = common.model(ops) if ops else []
    bad = [(o, a, m) for o, a, m in zip(ops, real, out) if a != m and a != "?"]
    for o, a, m in bad[:5]:
        ctx.disagree("corr:generate_equations", "%s: code=%s model=%s" % (o, a[:200], m[:200]))
    ctx.extra["generate_profiles"] = dict(note="arity-class profile of the bases run through generate_equations in-process: per class 0 = empty, 1 = singleton, + = two or more; value = (basis, n) runs",
                                          profiles=profiles, shapes_hook_seen=hooked, rewriter_exceptions_tolerated=nrew)
    if ops:
        ctx.sample(dict(op=ops[2 * (len(ops) // 4)], code=real[2 * (len(ops) // 4)][:160]))
    shutil.rmtree(root, ignore_errors=True)
    return len(ops), len(bad)


def _ranks_generate(ctx, cases, P, tag):
    """generate_equations for (n, basis) cases under P ranks (harness/workers/c01_gen_eq.py): shape_to_functions splits its
    labellings over the ranks, rank 0 writes the files.  Oracle and model comparison as in `_corr_generate`."""
    import mpirun
    root = os.path.join(ctx.tmp, "c01_geq_%s" % tag)
    os.makedirs(root, exist_ok=True)
    res = mpirun.run(P, [os.path.join(common.HARNESS, "workers", "c01_gen_eq.py"), json.dumps([[n, b] for n, b in cases]), root],
                     timeout=600, env_extra=ctx.env(), cwd=ctx.stage, python=common.PY, stdout_dir=root)
    out0 = open(res["stdout"][0]).read() if res.get("stdout") else ""
    chunks = {}
    for part in out0.split("@@C01CASE ")[1:]:
        head, _, rest = part.partition("\n")
        if head.strip().isdigit():
            chunks[int(head)] = rest
    ops, real = [], []
    for i, (n, b) in enumerate(cases):
        rp = dict(kind="ranks", n=n, basis=b, P=P)
        key = "generate_equations:P=%d:%s:n=%d" % (P, "|".join(_bs(c) for c in b), n)
        path = os.path.join(root, "case%d" % i, "orig_trees_%d.txt" % n)
        m = _TOPO.search(chunks.get(i, ""))
        done = "New number of trees" in chunks.get(i, "")
        r = dict(trees=[tuple(t) for t in libgen.read_trees(path) if t] if (done and os.path.exists(path)) else None,
                 printed=int(m.group(1)) if m else None, shapes=[])
        bad, want = _judge_generate(n, b, r)
        ctx.case(("ranks", P, n, tuple(map(tuple, b))), nontrivial=len(want) >= 1, n=max(len(want), 1))
        if not done:
            if want or not res["ok"]:
                ctx.fail(key, "generate_equations(%d, %s) under %d ranks did not complete (%s, exit codes %s): %d trees with %d nodes exist over this basis" % (
                    n, b, P, res.get("error"), res.get("exit_codes"), len(want), n), rp)
            if not res["ok"]:
                break                                           # the cases after a crash were never started
            continue
        if bad:
            ctx.fail(key, "generate_equations(%d, %s) under %d ranks: %s" % (n, b, P, "; ".join(bad)), rp)
        ops += ["gen %d %s %s %s" % (n, _bs(b[0]), _bs(b[1]), _bs(b[2])), "ntrees %d %s %s %s" % (n, _bs(b[0]), _bs(b[1]), _bs(b[2]))]
        real += ["-" if not r["trees"] else ";".join(",".join(t) for t in r["trees"]), "?" if r["printed"] is None else str(r["printed"])]
    out = common.model(ops) if ops else []
    nbad = [(o, a, m) for o, a, m in zip(ops, real, out) if a != m and a != "?"]
    for o, a, m in nbad[:5]:
        ctx.disagree("corr:generate_equations_ranks", "P=%d %s: code=%s model=%s" % (P, o, a[:200], m[:200]))
    shutil.rmtree(root, ignore_errors=True)
    return len(ops), len(nbad)


def _wellformed(ctx, bases):
    """hypothesis of generate_nodup: the Lean model decides Basis.WellFormed for every basis exercised; an independent
    Python reading of the same predicate must agree (a basis outside it is reported, not silently covered by the theorem)"""
    ops = ["wf %s %s %s" % (_bs(b[0]), _bs(b[1]), _bs(b[2])) for _, b in bases]
    out = common.model(ops)
    nbad = 0
    notwf = []
    for (name, b), o in zip(bases, out):
        alll = b[0] + b[1] + b[2]
        py = (len(set(alll)) == len(alll) and "a" not in b[1] and "a" not in b[2]
              and not any(re.fullmatch(r"a[0-9]+", l) for l in alll))
        if o != ("1" if py else "0"):
            nbad += 1
            ctx.disagree("corr:well_formed", "basis %s %s: model says %s, python predicate says %s" % (name, b, o, py))
        if o != "1":
            notwf.append([name, b])
    ctx.extra["bases_not_well_formed"] = notwf          # for these generate_nodup does not apply; the oracle still checks duplicates
    ctx.extra["bases_checked_well_formed"] = len(bases) - len(notwf)
    return len(ops), nbad


def _corr_files(ctx, runs):
    """generated libraries: orig_trees file and printed count vs the model and the oracle"""
    nops = nbad = 0
    gen = extract.EXTRACTORS  # noqa (keeps import used)
    from extractors import shape as shx
    bases = {n: b for n, b, _ in shx.bases(ctx.stage)}
    for run_ in runs:
        runname, nmax, P = run_[:3]
        # a 4th entry is an explicit operator basis, generated under a verif_* run name (duplicate_checker.main's guarded hook)
        b = run_[3] if len(run_) > 3 and run_[3] is not None else bases[runname]
        xb = b if len(run_) > 3 and run_[3] is not None else None
        r = libgen.generate(ctx, runname, list(range(1, nmax + 1)), P=P, basis=xb, copy="c01_%s_P%d" % (runname, P))
        if not r["ok"]:
            ctx.fail("generation:%s:P=%d" % (runname, P), "generation of %s%s up to n=%d under %d ranks did not complete: %s exit=%s" % (runname, "" if xb is None else " (basis %s)" % xb, nmax, P, r["res"]["error"], r["res"]["exit_codes"]),
                     dict(kind="files", runname=runname, nmax=nmax, P=P, basis=xb))
            continue
        stdout0 = open(r["stdout"][0]).read()
        printed = [int(x) for x in re.findall(r"Original number of trees: (\d+)", stdout0)]
        ops = []
        for n in range(1, nmax + 1):
            ops += ["gen %d %s %s %s" % (n, _bs(b[0]), _bs(b[1]), _bs(b[2])), "ntrees %d %s %s %s" % (n, _bs(b[0]), _bs(b[1]), _bs(b[2]))]
        out = common.model(ops)
        for n in range(1, nmax + 1):
            trees = [tuple(t) for t in libgen.read_trees(libgen.libfile(r["dir"], n, "orig_trees"))]
            want = [t for s in sorted(_trees(n)) for t in _labelled(s, b)]
            ctx.case(("files", runname, n, P, tuple(map(tuple, b))), nontrivial=True, n=max(len(trees), 1))
            nops += 2
            if sorted(trees) != sorted(want) or len(set(trees)) != len(trees):
                ctx.fail("orig_trees:%s:n=%d:P=%d" % (runname, n, P), "orig_trees_%d.txt of %s%s under %d ranks is not the set of all labelled trees (%d lines, %d expected, %d distinct)" % (n, runname, "" if xb is None else " (basis %s)" % xb, P, len(trees), len(want), len(set(trees))),
                         dict(kind="files", runname=runname, nmax=n, P=P, basis=xb))
            if n - 1 < len(printed) and printed[n - 1] != len(want):
                ctx.fail("count:%s:n=%d:P=%d" % (runname, n, P), "%s%s: printed 'Original number of trees' %d but %d trees with %d nodes exist" % (runname, "" if xb is None else " (basis %s)" % xb, printed[n - 1], len(want), n),
                         dict(kind="files", runname=runname, nmax=n, P=P, basis=xb))
            m = out[2 * (n - 1)]
            model = [] if m == "-" else [tuple(t.split(",")) for t in m.split(";")]
            if model != trees:
                nbad += 1
                ctx.disagree("corr:orig_trees", "%s n=%d P=%d: file has %d trees, model %d (or order differs)" % (runname, n, P, len(trees), len(model)))
            if n - 1 < len(printed) and str(printed[n - 1]) != out[2 * (n - 1) + 1]:
                nbad += 1
                ctx.disagree("corr:ntrees", "%s n=%d: printed %d, model %s" % (runname, n, printed[n - 1], out[2 * (n - 1) + 1]))
    return nops, nbad


def run(ctx):
    drift = extract.drifted(ctx.proof.get("extract", {}), MODELLED)
    deep = (not ctx.quick) or bool(drift)
    ctx.extra["source_drift"] = drift
    from extractors import shape as shx
    shipped = [(n, b) for n, b, _ in shx.bases(ctx.stage)]
    res = {}
    res["check_tree"], res["check_tree_ptr"] = _corr_check_tree(ctx, 10 if deep else 8)
    res["get_allowed_shapes"] = _corr_shapes(ctx, 10 if deep else 9)
    prof = _profile_bases(ctx, deep)
    bases = shipped + _sub_bases(ctx, 12 if deep else 5) + prof
    res["shape_to_functions"] = _corr_label(ctx, 6 if deep else 5, 30000 if deep else 4000, bases)
    res["well_formed"] = _wellformed(ctx, bases)
    # generate_equations as a whole (its own shape loop, counts and files), one rank, in this process: the whole profile grid,
    # the shipped sets and the PRNG sub-bases, every n up to the bound whose tree count fits the budget
    res["generate_equations"] = _corr_generate(ctx, 7 if deep else 6, prof + bases[:len(bases) - len(prof)], 6000 if deep else 2000)
    # generate_equations under several ranks for bases with an empty / singleton class (rank 0 writes, every rank labels its block)
    hole = [pb for pb in prof if pb[1][0] and (not pb[1][1] or not pb[1][2] or len(pb[1][0]) == 1)]
    picks = ctx.rng.sample(hole, min(len(hole), 8 if deep else 3))
    res["generate_equations_ranks"] = _ranks_generate(ctx, [(n, b) for _, b in picks for n in range(1, (6 if deep else 5) + 1)], 3 if deep else 2, "holes")
    # full duplicate_checker.main runs under several ranks; bases with an empty operator class go through the verif_* hook.
    # (nullary [x, a] and no log_abs: the later stages of main are other properties' subject and have their own findings -
    # F13 rewriter TypeError with log_abs+inv, check_results on a one-function library)
    u_ok = [l for l in _POOL[1] if l != "log_abs"]
    holes = [("verif_c01_nounary", [["x", "a"], [], ctx.rng.sample(_POOL[2], ctx.rng.choice([1, 2]))]),
             ("verif_c01_nobinary", [["x", "a"], ctx.rng.sample(u_ok, ctx.rng.choice([1, 2])), []])]
    if deep:
        runs = [("core_maths", 5, 1), ("core_maths", 4, 3), ("ext_maths", 4, 2)] + [(nm, 5, P, b) for (nm, b), P in zip(holes, (2, 3))]
    else:
        nm, b = holes[ctx.rng.randrange(2)]
        runs = [("core_maths", 4, 1), ("core_maths", 3, 3), (nm, 5 if not b[1] else 4, 2, b)]
    res["files"] = _corr_files(ctx, runs)
    ctx.extra["corr_obligations"] = len(res)
    ctx.extra["corr_discharged"] = sum(1 for v in res.values() if v[1] == 0)
    ctx.extra["correspondence"] = {k: dict(ops=v[0], mismatches=v[1]) for k, v in res.items()}
    ctx.extra["exhaustive"] = True


def replay(ctx, data):
    import numpy as np
    rp = data["replay"]
    from esr.generation import generator as g
    if rp["kind"] == "check_tree":
        s = tuple(rp["s"])
        succ = g.check_tree(np.array(s, dtype=int))[0]
        print("check_tree(%s) ->" % (s,), succ, "; valid tree:", s in set(_trees(len(s))))
        return bool(succ) == (s in set(_trees(len(s))))
    if rp["kind"] == "shapes":
        real = [tuple(int(x) for x in r) for r in g.get_allowed_shapes(rp["n"])]
        print("get_allowed_shapes(%d): %d shapes, expected %d" % (rp["n"], len(real), len(_trees(rp["n"]))))
        return real == sorted(_trees(rp["n"]))
    if rp["kind"] == "label":
        save = g.find_additional_trees
        g.find_additional_trees = lambda tree, labels, basis: ([tree], [labels])
        try:
            _, all_tree, _, _, _ = g.shape_to_functions(np.array(rp["s"], dtype=int), rp["basis"])
        except Exception as e:
            print("shape_to_functions raised %r" % (e,))
            return False
        finally:
            g.find_additional_trees = save
        got = [tuple(str(x) for x in t) for t in all_tree]
        want = _labelled(tuple(rp["s"]), rp["basis"])
        print("shape_to_functions: %d trees, expected %d" % (len(got), len(want)))
        return sorted(got) == sorted(want) and len(set(got)) == len(got)
    if rp["kind"] in ("gen", "gen_shapes"):
        n, b = rp["n"], rp["basis"]
        try:
            r = _run_generate(g, n, b, os.path.join(ctx.tmp, "c01_replay_gen"))
        except Exception as e:
            print("generate_equations(%d, %s) raised %r" % (n, b, e))
            return False
        bad, want = _judge_generate(n, b, r)
        print("generate_equations(%d, %s): orig_trees has %s lines, printed count %s, %d trees exist; shapes considered %d of %d valid" % (
            n, b, None if r["trees"] is None else len(r["trees"]), r["printed"], len(want), len(set(r["shapes"])), len(_trees(n))))
        for x in bad:
            print("  " + x)
        if rp["kind"] == "gen_shapes" or r["shapes"]:
            if set(r["shapes"]) != set(_trees(n)):
                print("  shapes never considered: %s ; considered but not a tree shape: %s" % (sorted(set(_trees(n)) - set(r["shapes"]))[:5], sorted(set(r["shapes"]) - set(_trees(n)))[:5]))
                if rp["kind"] == "gen_shapes":
                    return False
        return not bad
    if rp["kind"] == "ranks":
        c2 = common.Ctx("C01", "quick", 0); c2.tmp = ctx.tmp; c2.stage = ctx.stage
        _ranks_generate(c2, [(rp["n"], rp["basis"])], rp["P"], "replay")
        for f in c2.failures:
            print(f["what"])
        return not c2.failures
    if rp["kind"] == "files":
        c2 = common.Ctx("C01", "quick", 0); c2.tmp = ctx.tmp; c2.stage = ctx.stage
        _corr_files(c2, [(rp["runname"], rp["nmax"], rp["P"], rp.get("basis"))])
        for f in c2.failures:
            print(f["what"])
        return not c2.failures
    return True
