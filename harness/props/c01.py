"""C01 — exhaustive, duplicate-free enumeration of expression trees."""
import itertools, os, re
import common, extract, libgen

LEAN_MODULE = ["ESRVerif.Props.C01", "ESRVerif.Props.C01b", "ESRVerif.Props.C01c"]
LEVEL = "proof"
LEVEL_TEXT = ("Lean theorems, unbounded in the complexity n and in the basis: check_tree succeeds iff the arity string is the prefix "
              "form of a unary-binary tree; failed-prefix pruning is sound; the extracted pre-filter rules are necessary conditions; "
              "get_allowed_shapes(n) equals, as an ordered list, the lexicographic product filtered by validity (no shape missing, "
              "none extra, none twice); shape_to_functions emits exactly the labellings of a shape with parameters renumbered in order "
              "of appearance, and generate_equations' printed count equals the number of emitted trees; for every well-formed basis "
              "(classes duplicate-free and pairwise disjoint, 'a' only nullary, no label of the form a<digits>; decided by Lean for every "
              "regenerated shipped basis) the emitted list has no duplicates, so it is a duplicate-free enumeration of exactly the "
              "renumbered labellings of the trees with n nodes (generate_nodup, generate_enumerates). check_tree is modelled twice: with a stack of open "
              "binary ancestors (what the theorems above are about) and statement by statement with parent-pointer climb, fuel and the "
              "post-loop None-in-lefts/rights tests on the arrays; checkTreePtr_eq proves the two equal on every string (success, "
              "part_considered, the three pointer arrays, raise; fuel never runs out). The models are tied to the code by exhaustive "
              "correspondence (all 3^n strings against both check_tree models, all shapes, all trees of the six regenerated bases and PRNG sub-bases) and by an "
              "independent recursive enumerator run against the real code.")
TECHNIQUE = "Lean 4 proof (induction over strings/trees; loop invariant relating the stack to the parent-pointer arrays) on hand models of check_tree (stack and pointer level)/get_allowed_shapes/shape_to_functions + regenerated tables + exhaustive model-code correspondence"
RULE = ("check_tree: every string over {0,1,2} up to the tier length, compared with the stack model and the pointer-level model (distinct = the string; non-trivial = length>=2); shapes: every n up to the bound; "
        "labelling: every shape x basis (six shipped + PRNG sub-bases) with at most the tier's tree budget (distinct = (shape,basis)); "
        "files: generated libraries under 1 and 3 ranks")
EXPLANATION = LEVEL_TEXT
TRUSTED = ["hand models ESRVerif/Model/Shape.lean, ShapePtr.lean, Labeling.lean (ShapePtr mirrors check_tree's parent-pointer climb statement by statement and is proved equal to the stack model; both tied by exhaustive correspondence incl. the three pointer arrays)",
           "harness/extractors/shape.py (pre-filter rules, bases)", "numpy U100 label truncation not modelled"]
ASSUMPTIONS = ["labels shorter than 100 characters", "duplicate-freeness is proved for well-formed bases (Labeling.Basis.WellFormed: classes duplicate-free and pairwise disjoint, 'a' only nullary, no label of the form a<digits>); every basis exercised is checked against that predicate by the Lean model", "a labelled tree is identified with (valid shape, prefix-order label list consistent with the arities)"]
# tables whose committed version may stand in as a hand-written model when the translator cannot read the source;
# value = the correspondence that then ties it to the code (common.prove / common.decide)
FALLBACK = {'Shape': 'real get_allowed_shapes / shape_to_functions / check_tree outputs vs the Lean model driven with the same bases (labelling and shape correspondence, every basis)'}
MODELLED = ["generator.py:check_tree", "generator.py:get_allowed_shapes", "generator.py:shape_to_functions", "generator.py:generate_equations"]


# ---- independent oracle: recursive enumeration of unary-binary trees -------------------------------------------

def _trees(n, memo={}):
    """all prefix arity strings of trees with n nodes (independent of both the code and the Lean model)"""
    if n in memo:
        return memo[n]
    out = []
    if n == 1:
        out = [(0,)]
    elif n > 1:
        out += [(1,) + t for t in _trees(n - 1)]
        for k in range(1, n - 1):
            out += [(2,) + l + r for l in _trees(k) for r in _trees(n - 1 - k)]
    memo[n] = out
    return out


def _labelled(shape, basis):
    """independent: labellings by recursion over positions, then renumber 'a' in order of appearance"""
    res = [[]]
    for a in shape:
        res = [r + [l] for r in res for l in basis[a]]
    out = []
    for r in res:
        k = 0
        rr = []
        for a, l in zip(shape, r):
            if a == 0 and l == "a":
                rr.append("a%d" % k); k += 1
            else:
                rr.append(l)
        out.append(tuple(rr))
    return out


def _fmt_opt(xs):
    return "-" if not xs else ",".join("n" if x is None else str(int(x)) for x in xs)


def _bs(c):
    return "_" if not c else ",".join(c)


def _corr_check_tree(ctx, nmax):
    import numpy as np
    from esr.generation import generator as g
    ops, ops_ptr, real = [], [], []
    valid = {n: set(_trees(n)) for n in range(1, nmax + 1)}
    for n in range(1, nmax + 1):
        for s in itertools.product((0, 1, 2), repeat=n):
            ops.append("ct " + "".join(map(str, s)))
            ops_ptr.append("ctp " + "".join(map(str, s)))
            try:
                succ, part, tree = g.check_tree(np.array(s, dtype=int))
                real.append("%d %s %s %s %s" % (int(bool(succ)), "-" if part is None else "".join(str(int(x)) for x in part),
                                                _fmt_opt([t.parent for t in tree]), _fmt_opt([t.left for t in tree]), _fmt_opt([t.right for t in tree])))
                # oracle (property): success iff s is the prefix form of a tree  (for the strings get_allowed_shapes passes: n==1 or s[0]!=0)
                if n >= 2 and bool(succ) != (s in valid[n]):
                    ctx.fail("check_tree:%s" % "".join(map(str, s)), "check_tree(%s) = %s but the string %s a valid tree" % (s, succ, "is" if s in valid[n] else "is not"),
                             dict(kind="check_tree", s=list(s)))
            except Exception as e:
                real.append("err")
            ctx.case(("ct", s), nontrivial=n >= 2)
    out = common.model(ops)
    bad = [(o, a, b) for o, a, b in zip(ops, real, out) if a != b]
    for o, a, b in bad[:5]:
        ctx.disagree("corr:check_tree", "%s: code=%s model=%s" % (o, a, b))
    # pointer-level model (Model/ShapePtr.lean: parent-pointer climb as the Python is written; "fuel" = climb did not end)
    outp = common.model(ops_ptr)
    badp = [(o, a, b) for o, a, b in zip(ops_ptr, real, outp) if a != b]
    for o, a, b in badp[:5]:
        ctx.disagree("corr:check_tree_ptr", "%s: code=%s pointer-model=%s" % (o, a, b))
    ctx.sample(dict(op=ops[-7], code=real[-7], model=out[-7], pointer_model=outp[-7]))
    ctx.extra["check_tree_models"] = dict(strings=len(ops), stack_model_mismatches=len(bad), pointer_model_mismatches=len(badp),
                                          pointer_model_raises=sum(1 for x in outp if x == "err"), code_raises=sum(1 for x in real if x == "err"),
                                          pointer_model_out_of_fuel=sum(1 for x in outp if x == "fuel"))
    return (len(ops), len(bad)), (len(ops_ptr), len(badp))


def _corr_shapes(ctx, nmax):
    from esr.generation import generator as g
    ops = ["shapes %d" % n for n in range(1, nmax + 1)]
    out = common.model(ops)
    nbad = 0
    counts = {}
    for n, o in zip(range(1, nmax + 1), out):
        sh = g.get_allowed_shapes(n)
        real = [tuple(int(x) for x in r) for r in sh]
        counts[n] = len(real)
        ctx.case(("shapes", n), nontrivial=n >= 3)
        want = sorted(_trees(n))                      # oracle: every tree shape, lexicographic, once
        if real != want:
            miss = [s for s in want if s not in real][:3]
            extra = [s for s in real if s not in set(want)][:3]
            dup = len(real) - len(set(real))
            ctx.fail("get_allowed_shapes:n=%d" % n, "get_allowed_shapes(%d): missing %s extra %s duplicates %d (or order differs)" % (n, miss, extra, dup),
                     dict(kind="shapes", n=n))
        model = [] if o == "-" else [tuple(int(c) for c in w) for w in o.split(";")]
        if model != real:
            nbad += 1
            ctx.disagree("corr:get_allowed_shapes", "n=%d: code has %d shapes, model %d" % (n, len(real), len(model)))
    ctx.extra["shape_counts"] = counts
    return len(ops), nbad


def _sub_bases(ctx, k):
    full = [["x", "a"], ["square", "exp", "inv", "sqrt_abs", "log_abs", "cube", "sin"], ["+", "*", "-", "/", "pow"]]
    out = []
    for _ in range(k):
        b0 = ctx.rng.choice([["x", "a"], ["x"], ["a"], ["x", "a", "1"]])
        b1 = ctx.rng.sample(full[1], ctx.rng.choice([0, 1, 1, 2, 3]))
        b2 = ctx.rng.sample(full[2], ctx.rng.choice([1, 2, 2, 3]))
        out.append(("rnd", [b0, b1, b2]))
    return out


def _corr_label(ctx, nmax, budget, bases):
    import numpy as np
    from esr.generation import generator as g
    save = g.find_additional_trees
    g.find_additional_trees = lambda tree, labels, basis: ([tree], [labels])      # all_tree does not depend on the rewriter
    ops, real, meta = [], [], []
    try:
        for n in range(1, nmax + 1):
            for s in sorted(_trees(n)):
                for name, b in bases:
                    cnt = 1
                    for a in s:
                        cnt *= len(b[a])
                    if cnt > budget:
                        continue
                    try:
                        all_fun, all_tree, _, _, _ = g.shape_to_functions(np.array(s, dtype=int), b)
                    except Exception as e:                                        # a valid shape must be labelled, not crash
                        ctx.case(("label", s, tuple(map(tuple, b))), nontrivial=cnt >= 2, n=max(cnt, 1))
                        ctx.fail("shape_to_functions:%s:%s" % ("".join(map(str, s)), name),
                                 "shape %s basis %s: shape_to_functions raised %r, so none of its %d trees is emitted" % (s, b, e, cnt),
                                 dict(kind="label", s=list(s), basis=b))
                        continue
                    got = [tuple(str(x) for x in t) for t in all_tree]
                    ops.append("label %s %s %s %s" % ("".join(map(str, s)), _bs(b[0]), _bs(b[1]), _bs(b[2])))
                    real.append("-" if not got else ";".join(",".join(t) for t in got))
                    ctx.case(("label", s, tuple(map(tuple, b))), nontrivial=cnt >= 2, n=max(cnt, 1))
                    want = _labelled(s, b)                                        # oracle
                    if sorted(got) != sorted(want) or len(set(got)) != len(got):
                        miss = [t for t in want if t not in set(got)][:2]
                        extra = [t for t in got if t not in set(want)][:2]
                        ctx.fail("shape_to_functions:%s:%s" % ("".join(map(str, s)), name),
                                 "shape %s basis %s: missing %s, unexpected/misnumbered %s, duplicates %d" % (s, b, miss, extra, len(got) - len(set(got))),
                                 dict(kind="label", s=list(s), basis=b))
    finally:
        g.find_additional_trees = save
    out = common.model(ops)
    bad = [(o, a, b) for o, a, b in zip(ops, real, out) if a != b]
    for o, a, b in bad[:5]:
        ctx.disagree("corr:shape_to_functions", "%s: code=%s model=%s" % (o, a[:200], b[:200]))
    if ops:
        ctx.sample(dict(op=ops[len(ops) // 3], code=real[len(ops) // 3][:160]))
    return len(ops), len(bad)


def _wellformed(ctx, bases):
    """hypothesis of generate_nodup: the Lean model decides Basis.WellFormed for every basis exercised; an independent
    Python reading of the same predicate must agree (a basis outside it is reported, not silently covered by the theorem)"""
    ops = ["wf %s %s %s" % (_bs(b[0]), _bs(b[1]), _bs(b[2])) for _, b in bases]
    out = common.model(ops)
    nbad = 0
    notwf = []
    for (name, b), o in zip(bases, out):
        alll = b[0] + b[1] + b[2]
        py = (len(set(alll)) == len(alll) and "a" not in b[1] and "a" not in b[2]
              and not any(re.fullmatch(r"a[0-9]+", l) for l in alll))
        if o != ("1" if py else "0"):
            nbad += 1
            ctx.disagree("corr:well_formed", "basis %s %s: model says %s, python predicate says %s" % (name, b, o, py))
        if o != "1":
            notwf.append([name, b])
    ctx.extra["bases_not_well_formed"] = notwf          # for these generate_nodup does not apply; the oracle still checks duplicates
    ctx.extra["bases_checked_well_formed"] = len(bases) - len(notwf)
    return len(ops), nbad


def _corr_files(ctx, runs):
    """generated libraries: orig_trees file and printed count vs the model and the oracle"""
    nops = nbad = 0
    gen = extract.EXTRACTORS  # noqa (keeps import used)
    from extractors import shape as shx
    bases = {n: b for n, b, _ in shx.bases(ctx.stage)}
    for runname, nmax, P in runs:
        b = bases[runname]
        r = libgen.generate(ctx, runname, list(range(1, nmax + 1)), P=P, copy="c01_%s_P%d" % (runname, P))
        if not r["ok"]:
            ctx.fail("generation:%s:P=%d" % (runname, P), "generation of %s up to n=%d under %d ranks did not complete: %s exit=%s" % (runname, nmax, P, r["res"]["error"], r["res"]["exit_codes"]),
                     dict(kind="files", runname=runname, nmax=nmax, P=P))
            continue
        stdout0 = open(r["stdout"][0]).read()
        printed = [int(x) for x in re.findall(r"Original number of trees: (\d+)", stdout0)]
        ops = []
        for n in range(1, nmax + 1):
            ops += ["gen %d %s %s %s" % (n, _bs(b[0]), _bs(b[1]), _bs(b[2])), "ntrees %d %s %s %s" % (n, _bs(b[0]), _bs(b[1]), _bs(b[2]))]
        out = common.model(ops)
        for n in range(1, nmax + 1):
            trees = [tuple(t) for t in libgen.read_trees(libgen.libfile(r["dir"], n, "orig_trees"))]
            want = [t for s in sorted(_trees(n)) for t in _labelled(s, b)]
            ctx.case(("files", runname, n, P), nontrivial=True, n=len(trees))
            nops += 2
            if sorted(trees) != sorted(want) or len(set(trees)) != len(trees):
                ctx.fail("orig_trees:%s:n=%d:P=%d" % (runname, n, P), "orig_trees_%d.txt of %s under %d ranks is not the set of all labelled trees (%d lines, %d expected, %d distinct)" % (n, runname, P, len(trees), len(want), len(set(trees))),
                         dict(kind="files", runname=runname, nmax=n, P=P))
            if n - 1 < len(printed) and printed[n - 1] != len(want):
                ctx.fail("count:%s:n=%d:P=%d" % (runname, n, P), "printed 'Original number of trees' %d but %d trees exist" % (printed[n - 1], len(want)),
                         dict(kind="files", runname=runname, nmax=n, P=P))
            m = out[2 * (n - 1)]
            model = [] if m == "-" else [tuple(t.split(",")) for t in m.split(";")]
            if model != trees:
                nbad += 1
                ctx.disagree("corr:orig_trees", "%s n=%d P=%d: file has %d trees, model %d (or order differs)" % (runname, n, P, len(trees), len(model)))
            if n - 1 < len(printed) and str(printed[n - 1]) != out[2 * (n - 1) + 1]:
                nbad += 1
                ctx.disagree("corr:ntrees", "%s n=%d: printed %d, model %s" % (runname, n, printed[n - 1], out[2 * (n - 1) + 1]))
    return nops, nbad


def run(ctx):
    drift = extract.drifted(ctx.proof.get("extract", {}), MODELLED)
    deep = (not ctx.quick) or bool(drift)
    ctx.extra["source_drift"] = drift
    from extractors import shape as shx
    shipped = [(n, b) for n, b, _ in shx.bases(ctx.stage)]
    res = {}
    res["check_tree"], res["check_tree_ptr"] = _corr_check_tree(ctx, 10 if deep else 8)
    res["get_allowed_shapes"] = _corr_shapes(ctx, 10 if deep else 9)
    bases = shipped + _sub_bases(ctx, 12 if deep else 5)
    res["shape_to_functions"] = _corr_label(ctx, 6 if deep else 5, 30000 if deep else 4000, bases)
    res["well_formed"] = _wellformed(ctx, bases)
    res["files"] = _corr_files(ctx, [("core_maths", 5, 1), ("core_maths", 4, 3), ("ext_maths", 4, 2)] if deep else [("core_maths", 4, 1), ("core_maths", 3, 3)])
    ctx.extra["corr_obligations"] = len(res)
    ctx.extra["corr_discharged"] = sum(1 for v in res.values() if v[1] == 0)
    ctx.extra["correspondence"] = {k: dict(ops=v[0], mismatches=v[1]) for k, v in res.items()}
    ctx.extra["exhaustive"] = True


def replay(ctx, data):
    import numpy as np
    rp = data["replay"]
    from esr.generation import generator as g
    if rp["kind"] == "check_tree":
        s = tuple(rp["s"])
        succ = g.check_tree(np.array(s, dtype=int))[0]
        print("check_tree(%s) ->" % (s,), succ, "; valid tree:", s in set(_trees(len(s))))
        return bool(succ) == (s in set(_trees(len(s))))
    if rp["kind"] == "shapes":
        real = [tuple(int(x) for x in r) for r in g.get_allowed_shapes(rp["n"])]
        print("get_allowed_shapes(%d): %d shapes, expected %d" % (rp["n"], len(real), len(_trees(rp["n"]))))
        return real == sorted(_trees(rp["n"]))
    if rp["kind"] == "label":
        save = g.find_additional_trees
        g.find_additional_trees = lambda tree, labels, basis: ([tree], [labels])
        try:
            _, all_tree, _, _, _ = g.shape_to_functions(np.array(rp["s"], dtype=int), rp["basis"])
        except Exception as e:
            print("shape_to_functions raised %r" % (e,))
            return False
        finally:
            g.find_additional_trees = save
        got = [tuple(str(x) for x in t) for t in all_tree]
        want = _labelled(tuple(rp["s"]), rp["basis"])
        print("shape_to_functions: %d trees, expected %d" % (len(got), len(want)))
        return sorted(got) == sorted(want) and len(set(got)) == len(got)
    if rp["kind"] == "files":
        c2 = common.Ctx("C01", "quick", 0); c2.tmp = ctx.tmp; c2.stage = ctx.stage
        _corr_files(c2, [(rp["runname"], rp["nmax"], rp["P"])])
        for f in c2.failures:
            print(f["what"])
        return not c2.failures
    return True
