"""C16 — results do not depend on earlier runs."""
import filecmp, json, os, re, shutil, subprocess
import common, extract, libgen, fitlib

LEAN_MODULE = ["ESRVerif.Props.C16", "ESRVerif.Props.C16b"]
LEVEL = "proof"
LEVEL_TEXT = ("Lean theorem (non-interference, unbounded in statements and files): a stage whose every read/append is of a file the same run has already "
              "written, truncated or removed leaves the same bytes in every file it touches whatever persistent state earlier runs left behind. The effect "
              "summary of the generation stage (every open/loadtxt/savetxt/remove and every cat/sed/mv/rm shell command of duplicate_checker.main and "
              "its callees, in execution order, loops over literal lists unrolled) is regenerated from the source on every run and the predicate is decided "
              "on it in Lean. The summary also exists in structured form: an open whose mode is chosen at run time ('w' if i == 0 else 'a', a mode variable bound "
              "in branches or re-bound in a loop) keeps its condition (always / firstIteration / conditional) and counts as the weakest of its modes in the flat "
              "summary, and the effects inside a for/while over a run-time collection form a loop block (for v in range(e): indices in order; anything else: any "
              "index may be skipped). Lean theorem (unbounded in the number of iterations): if the dominance check safeAll passes on the structured summary then on "
              "EVERY execution -- every loop run any number of times including zero, indices skipped, either arm of every run-time mode -- each read/append follows a "
              "truncation/write/remove of that file in the same execution, hence every execution is history independent; conversely an execution that appends to a "
              "file it never truncates has two initial states with different outputs and safeAll rejects its program (append_after_conditional_truncate_depends_on_"
              "history). safeAll is decided on the regenerated generation summary, with the numbered round files of do_sympy (written by one loop, read back by a later "
              "loop over the same count) declared and checked by the audit trace instead. Likewise that every shuffle is seeded in its own stage and every stage (re)writes the symbol-table keys it reads. The summary "
              "is validated against a dynamic audit trace of a real run, and real runs after PRNG-drawn histories (other bases, other complexities, repeats, "
              "left-over and corrupted outputs; same process and fresh process) are compared byte for byte with a fresh run, for generation and for the "
              "four fitting stages; and for one operator basis per arity-class profile (every emptiness/singleton pattern of the unary and binary classes, both nullary "
              "singletons, no leaf label; through the verif_* hook) and every complexity 1..4 (1..5 thorough) the second identical call in one process and a new process "
              "over the directory of the earlier runs are compared byte for byte with the first run, a difference being re-run in isolation against a fresh process "
              "into an empty directory before it is reported. In-memory state: a second table regenerated from the source lists every cell that survives between two calls in one "
              "process (every module-level name of every esr module, mutable default arguments, class and function attributes, lru_cache memos, numpy's and "
              "random's global generators, signal handlers and timers, warning filters, os.environ, cwd, recursion limit, numpy error/print state, sympy "
              "printer settings and cache) with, per entry point, whether it is not touched / only read / written with the import-time literal / completely "
              "re-initialised before use / used before re-initialised and written. Lean theorem (unbounded in cells and in the length of the history): if no "
              "cell outside a declared list is both looked at by some entry point and changed by some entry point, every call of every history returns what "
              "it returns in a fresh process; the hypothesis is decided on the regenerated table, the declared list (numpy generator = the seed the property "
              "fixes; sympy cache and recursion limit = assumed result-neutral) is proved to be exactly the complement. The table is validated each run "
              "against fingerprints of all those cells taken before and after every call of the same-process histories.")
TECHNIQUE = ("Lean 4 non-interference proofs over a file-effect summary and an in-memory cell table, both regenerated from source + audit-trace and "
             "memory-fingerprint validation + differential history runs")
RULE = ("one case = one (history, observed call) pair whose output files are byte-compared with the fresh-process/empty-directory run; non-trivial = "
        "the history has at least one earlier call or left-over file; distinct by the history; rerun grid: one case per (basis, complexity, kind of rerun), "
        "trivial when that basis has no library at that complexity even in a fresh process")
EXPLANATION = LEVEL_TEXT
TRUSTED = ["harness/extractors/effects.py (static effect extraction; validated against the audit trace each run)", "Python audit events 'open', 'os.system', 'os.remove', 'os.rename' are complete for file access of the stage",
           "harness/extractors/_norm_c16.py, semantics-preserving readings shared by both extractors: (A) one level of helper inlining -- a private module-level "
           "helper or a closure of the caller, undecorated, constant defaults only, straight-line body with at most one final return, no yield/global/nonlocal/"
           "nested def/lambda/import/walrus, called as a whole statement `T = h(..)`/`h(..)`/`return h(..)`; locals renamed apart, arguments bound in call order, "
           "a never-rebound parameter replaced by a constant or caller-local argument; refused when a global read by the helper is shadowed in the caller; "
           "(B) order of statements/calls taken from the source order, not from line numbers; (C) key flow -- names that only ever hold a<i> strings / lists of "
           "them (index, zip, enumerate loops, f-string/format/concatenation/%-keys, list indexing) and `dict.update(zip(names, symbols))` / `.update({key: ..})` "
           "read as item-by-item stores into a<i> keys; only the FORM of the keys is claimed, other keys changing is caught by the memory fingerprints",
           "effects.py readings of open modes and loops: a mode name is read flow-insensitively as any literal it is bound to in the function (more than two, or a "
           "non-literal binding: fail closed); `firstIteration` only for `X if v == 0 else Y` (==, !=, >, >=1, <1, <=0, not v, v) on the variable of the innermost loop of "
           "the same function, decided inside that loop, v not re-bound; `if` branches are still read in sequence (rank tests are consistent); a truncation inside a loop "
           "nested in a loop block is read as `may not happen` (alternative r); the numbered round files (inv_idx/inv_subs_<n>_round_<k>) are a declared family",
           "effects.py readings: file names through %/f-string/str.format/concatenation/os.path.join/hoisted locals/module-level constants; literal lists and tuples of "
           "names unrolled; open mode positional, mode=, or via a local literal ('b'/'t' dropped); os.rename/os.replace/shutil.move = mv, os.unlink = os.remove, "
           "shutil.copy* = read+write; unknown pathlib/tempfile/shutil/np.save-like file operations fail closed; the symbol table recognised as the module-level dict "
           "of esr/fitting/sympy_symbols.py under any alias (also returned by a called function); generator objects seeded by a literal, a local literal or a parameter",
           "effects.py readings (C16r2): a file name returned by a straight-line helper of the stage (assignments + one return of a string-building expression, arguments "
           "substituted); sep.join over a display / hoisted list / one-generator comprehension of names; a name piece chosen by a conditional of strings is listed once per arm "
           "(reads/appends: every file it may touch; a truncating open of several candidate names: each only `conditional`; savetxt/remove/rename/shell chosen that way: fail "
           "closed); a conditional on a parameter bound to True/False by the call or by its constant default takes that arm; constant True/False/string defaults are the "
           "parameter's value in the callee when the call does not pass it and the callee never re-binds it (differential self-test: harness/extractors/_norm_c16_selftest.py)",
           "memstate.py readings: a returned plain alias of a mutable cell is tracked in the caller; pairwise tuple assignment; see its docstring",
           "harness/extractors/memstate.py (static cell/access extraction: name-based call graph, methods on unknown receivers resolved to every esr method of that name, "
           "statement-level dominance for 're-initialised before use'; fails closed on unclassified initialisers, decorators, methods of mutable cells, escaping aliases, "
           "process-wide setters; validated against memory fingerprints each run)",
           "state kept inside third-party libraries is not enumerated cell by cell: sympy's cache is one declared cell assumed result-neutral, covered only by the differential runs",
           "objects passed in as arguments (the likelihood object) are inputs of a call, not cells"]
ASSUMPTIONS = ["earlier runs completed (no stale per-rank temp files)",
               "the later loop over the rounds reads only round files (inv_idx_<n>_round_<k>, inv_subs_<n>_round_<k>) that the rounds loop of the same run wrote: a fact about "
               "the round count, declared in Props/C16.lean (roundFamilies) and checked with exact file names by the audit trace of every reference run", "the fitting stages are observed with the numpy RNG re-seeded at the start of the observed stage",
               "the interpreter recursion limit (only ever raised, by fitting calls at complexity >= 8) and sympy's internal cache do not change results",
               "the single-function API (esr.fitting.fit_single) is outside the statement: its string front end reads the a<i> entries of the shared sympy symbol "
               "table without binding them first (theorem carried_with_single_function_api_partial; observed each run, reported in coverage.fit_single_api_probe)"]
# tables whose committed version may stand in as a hand-written model when the translator cannot read the source;
# value = the correspondence that then ties it to the code (common.prove / common.decide)
FALLBACK = {'Effects': 'audit trace of every file operation of real generation runs vs the committed effect summary (every traced open/remove/rename/shell effect must be '
                        'a (file pattern, access) pair of the committed table and follow a write of the same run) + byte comparison of real runs after drawn histories'}
MODELLED = []

BASES = {"core_maths": None, "ext_maths": None, "osc_maths": None, "base_e_maths": None}


_MEM = dict(n=0, records=[], probes=[])


def _mem_path(ctx):
    _MEM["n"] += 1
    return os.path.join(ctx.tmp, "memstate_%d.json" % _MEM["n"])


def _mem_collect(path, what):
    try:
        for r in json.load(open(path)):
            r["history"] = what
            _MEM["records"].append(r)
    except Exception:
        pass


def _gen(ctx, copy, calls, trace=None, timeout=900, mem=False, pre_recursionlimit=None):
    env = ctx.env()
    env["PYTHONPATH"] = os.pathsep.join([common.STANDIN, copy, common.HARNESS])
    mp = _mem_path(ctx) if mem else None
    p = subprocess.run([common.PY, os.path.join(common.HARNESS, "workers", "gen_history.py"),
                        json.dumps(dict(calls=calls, trace=trace, memstate=mp, pre_recursionlimit=pre_recursionlimit))],
                       env=env, cwd=copy, capture_output=True, text=True, timeout=timeout)
    if mp:
        _mem_collect(mp, "generation %s" % json.dumps(calls))
    return p.returncode, (p.stdout[-300:] + p.stderr[-800:])


def _libdir(copy, runname, compl):
    return os.path.join(copy, "esr", "function_library", runname, "compl_%d" % compl)


def _cmp_dirs(a, b):
    """names of files that differ / are missing"""
    fa, fb = sorted(os.listdir(a)), sorted(os.listdir(b))
    # every file the fresh run produces must be there with the same bytes; files only the history directory holds are
    # stale intermediates of the earlier run (e.g. inv_subs_<n>_round_<k> of a run with more rounds) that this run neither
    # writes nor reads: recorded, not a difference of what the run produces
    bad = [f for f in set(fa) - set(fb)]
    for f in set(fa) & set(fb):
        if not filecmp.cmp(os.path.join(a, f), os.path.join(b, f), shallow=False):
            bad.append(f)
    return sorted(bad)


def _shell_effects(cmd):
    from extractors import effects as fx
    return fx._shell(cmd, "trace", 0)


def _validate_trace(ctx, trace, libdir):
    """dynamic no-read-before-write + every dynamic effect is in the static summary"""
    from extractors import effects as fx
    try:
        static = set((k, a) for _, _, k, a in fx.analyse(ctx.stage)[0])
    except Exception as e:
        static = _committed_summary(ctx) if isinstance(e, extract.ExtractError) else None
        if static is not None:
            # translator fallback (FALLBACK['Effects']): the theorems were checked over the committed table; every file operation of the
            # real runs must be an effect of THAT table (and, below, follow a write of the same run)
            ctx.extra["trace_vs_committed_summary"] = str(e)[:200]
        else:
            # the translator cannot read today's source: a broken obligation (the failing-input search goes on), never a crash
            ctx.disagree("trace:summary-unreadable", "the static effect summary cannot be regenerated from the current source (%s: %s); "
                         "the audit trace is only checked for read-before-write" % (type(e).__name__, str(e)[:200]))
    fresh = set()
    n = 0
    for ev in trace:
        effs = []
        if ev[0] == "open":
            path, mode, flags = ev[1], ev[2], ev[3]
            if not os.path.abspath(path).startswith(os.path.abspath(libdir)):
                continue
            acc = "w" if ("w" in mode or flags & os.O_TRUNC) else ("a" if ("a" in mode or flags & os.O_APPEND) else "r")
            effs.append((path, acc))
        elif ev[0] == "remove":
            effs.append((ev[1], "rm"))
        elif ev[0] == "rename":
            if not (os.path.abspath(ev[1]).startswith(os.path.abspath(libdir)) or os.path.abspath(ev[2]).startswith(os.path.abspath(libdir))):
                continue
            effs += [(ev[1], "r"), (ev[2], "w"), (ev[1], "rm")]
        elif ev[0] == "system":
            try:
                for k, a in _shell_effects(ev[1]):
                    effs.append((os.path.join(libdir, k), a))
            except Exception as e:
                ctx.disagree("trace:shell", "unmodelled shell command in a real run: %s" % ev[1][:80]); continue
        for path, acc in effs:
            n += 1
            base = os.path.basename(path)
            key = re.sub(r"\d+", "#", base)
            if acc in ("w", "rm"):
                fresh.add(base)
            elif base not in fresh:
                ctx.disagree("trace:read-before-write", "the run %s %s before writing it" % ("appends to" if acc == "a" else "reads", base))
            if static is not None and (key, acc) not in static and (key, "w" if acc == "rm" else acc) not in static \
                    and not (acc == "w" and (key, "a") in static and _may_truncate(ctx, key)):
                ctx.disagree("trace:not-in-summary", "dynamic effect (%s,%s) is not in the static effect summary" % (key, acc))
    return n


def _committed_summary(ctx):
    """the (file pattern, access) pairs of the committed generation summary, when common.prove put that table in place of the one the
    translator could not regenerate (ExtractError on a source shape it does not read); None otherwise"""
    if "Effects" not in ((getattr(ctx, "proof", None) or {}).get("fallback") or {}):
        return None
    try:
        txt = open(os.path.join(common.HARNESS, "baseline_generated", "Effects.lean"), encoding="utf-8").read()
        body = re.search(r"def generation : List ESR\.Effects\.Eff := \[(.*?)\n  \]", txt, re.S).group(1)
        pairs = set(re.findall(r'⟨"[^"]*", \d+, "([^"]*)", \.(\w+)⟩', body))
        return pairs or None
    except Exception:
        return None


def _may_truncate(ctx, key):
    """the flat summary lists an open whose mode is chosen at run time under its weakest arm (`a`); a dynamic `w` of that file is an
    instance of it when the structured summary says the other arm truncates"""
    from extractors import effects as fx
    try:
        effs, _, _, effx = fx.analyse(ctx.stage, structured=True)
    except Exception:
        return False
    return any(k == key and m["cond"] != "always" and "w" in (m["acc"], m["alt"]) for (_, _, k, _), m in zip(effs, effx))


def _RNG2(ctx):
    """a second stream (the histories drawn from ctx.rng stay what they were before the in-memory tie was added)"""
    if not hasattr(ctx, "_rng2"):
        import random
        ctx._rng2 = random.Random(ctx.seed * 7919 + 16)
    return ctx._rng2


def _history_generation(ctx, target, nhist):
    runname, compl = target
    ref = common.fresh_copy(ctx, "c16_ref_%s_%d" % (runname, compl))
    trace = os.path.join(ctx.tmp, "trace_%s_%d.json" % (runname, compl))
    rc, tail = _gen(ctx, ref, [[runname, compl, None]], trace=trace, mem=True)
    if rc != 0:
        ctx.disagree("reference-run", "fresh generation of %s n=%d failed: %s" % (runname, compl, tail)); return
    refdir = _libdir(ref, runname, compl)
    try:
        events = json.load(open(trace))
    except Exception as e:
        events = []
        ctx.disagree("trace:missing", "no audit trace of the reference run of %s n=%d (%s)" % (runname, compl, e))
    ntr = _validate_trace(ctx, events, refdir)
    ctx.extra["trace_effects"] = ctx.extra.get("trace_effects", 0) + ntr
    names = list(BASES)
    for h in range(nhist):
        kind = ctx.rng.choice(["same-process", "same-process", "leftover", "corrupted", "repeat"])
        copy = common.fresh_copy(ctx, "c16_h%d" % h)
        hist = []
        if kind in ("same-process", "repeat"):
            for _ in range(ctx.rng.randint(1, 3)):
                hist.append([ctx.rng.choice(names), ctx.rng.randint(1, 4), None])
            if not any(c[1] >= 3 for c in hist):
                hist[0][1] = ctx.rng.choice([3, 4])      # at least one earlier call that runs every stage of generation (check_results needs n > 2)
            if kind == "repeat":
                hist.append([runname, compl, None])
            calls = hist + [[runname, compl, None]]
        else:
            # outputs of an earlier completed run left in the directory: a higher-complexity library of another basis renamed into place, or appended garbage
            other = ctx.rng.choice([n for n in names if n != runname])
            rc, tail = _gen(ctx, copy, [[other, compl, None]])
            src = _libdir(copy, other, compl)
            dst = _libdir(copy, runname, compl)
            os.makedirs(os.path.dirname(dst), exist_ok=True)
            shutil.copytree(src, dst)
            if kind == "corrupted":
                for f in os.listdir(dst):
                    with open(os.path.join(dst, f), "a") as fh:
                        fh.write("left over by an earlier run\n")
            hist = [["<left-over files of %s in the target directory%s>" % (other, ", every file with an extra line" if kind == "corrupted" else ""), compl, None]]
            calls = [[runname, compl, None]]
        # what an earlier fitting call at complexity >= 8 leaves behind (sys.setrecursionlimit, test_all.py l.70): same-process histories only
        pre = _RNG2(ctx).choice([None, 2000 + 500 * 2]) if kind in ("same-process", "repeat") else None
        rc, tail = _gen(ctx, copy, calls, mem=kind in ("same-process", "repeat"), pre_recursionlimit=pre)
        key = json.dumps(hist)
        if pre:
            ctx.extra["histories_with_raised_recursion_limit"] = ctx.extra.get("histories_with_raised_recursion_limit", 0) + 1
        ctx.case(("gen", runname, compl, key), nontrivial=True)
        rp = dict(kind="generation", target=[runname, compl], history=hist, hkind=kind, recursion_limit_raised_before=pre)
        if rc != 0:
            ctx.fail("generation-after-history-fails:%s" % kind, "generation of %s n=%d fails after history %s: %s" % (runname, compl, hist, tail[-300:]), rp)
            continue
        bad = _cmp_dirs(refdir, _libdir(copy, runname, compl))
        if bad:
            ctx.fail("history-dependent:generation:%s:%s" % (kind, bad[0].split("_")[0]), "generation of %s n=%d after history %s differs from the fresh run in %s" % (runname, compl, hist, bad[:5]), rp)
        else:
            ctx.sample(dict(target=[runname, compl], history=hist, kind=kind, identical_files=len(os.listdir(refdir))), cap=5)
        shutil.rmtree(copy, ignore_errors=True)


_POOL = (["x", "a"], ["inv", "exp", "square", "sqrt_abs", "log_abs", "sin"], ["+", "*", "-", "/", "pow"])
RERUN_HISTORIES = {"same": "the identical call made once before in the same process (same directory)",
                   "newproc": "a new process over the directory left by two earlier completed identical runs"}


def _rerun_bases(ctx, deep):
    """the arity-class profile grid (cf. props/c01.py): one basis for EVERY combination of class sizes in the tier's box -- every
    emptiness pattern of the unary and binary classes, singleton classes, both nullary singletons -- labels drawn from ctx.rng"""
    kmax = 3 if deep else 2
    out = []
    for b0 in (["x"], ["a"], ["x", "a"]):
        for k1 in range(kmax + 1):
            for k2 in range(kmax + 1):
                out.append([list(b0), ctx.rng.sample(_POOL[1], k1), ctx.rng.sample(_POOL[2], k2)])
    out.append([[], ctx.rng.sample(_POOL[1], 1), ctx.rng.sample(_POOL[2], 1)])       # no leaf label at all
    out.append([["x", "a"], [], ["+", "*", "-", "/"]])                                  # rational functions
    return out


def _rerun_worker(ctx, copy, runname, basis, compls, snap, phase, timeout=900):
    env = ctx.env()
    env["PYTHONPATH"] = os.pathsep.join([common.STANDIN, copy, common.HARNESS])
    out = os.path.join(snap, "report_%s.json" % phase)
    os.makedirs(snap, exist_ok=True)
    try:
        p = subprocess.run([common.PY, os.path.join(common.HARNESS, "workers", "gen_rerun.py"),
                            json.dumps(dict(runname=runname, basis=basis, compls=compls, snap=snap, phase=phase, out=out))],
                           env=env, cwd=copy, capture_output=True, text=True, timeout=timeout)
        tail = p.stderr[-400:]
    except subprocess.TimeoutExpired:
        tail = "timeout after %d s" % timeout
    try:
        return json.load(open(out)), tail
    except Exception:
        return None, tail


def _rerun_one(ctx, copy, k, basis, compls):
    """phase A then phase B for one basis -> {n: dict(first=ok?, same=.., newproc=.., err=..)}, snapshot directory"""
    runname = "verif_c16_%d" % k
    snap = os.path.join(ctx.tmp, "c16_rerun_snap", runname)
    res = {n: {} for n in compls}
    ra, tail = _rerun_worker(ctx, copy, runname, basis, compls, snap, "A")
    if ra is None:
        return dict(worker_failed="A: " + tail), snap
    for r in ra:
        res[r["n"]]["first" if r["call"] == 1 else "same"] = r["ok"] or r.get("error", "?")
    okc = [n for n in compls if res[n].get("first") is True]
    if okc:
        rb, tail = _rerun_worker(ctx, copy, runname, basis, okc, snap, "B")
        if rb is None:
            return dict(worker_failed="B: " + tail), snap
        for r in rb:
            res[r["n"]]["newproc"] = r["ok"] or r.get("error", "?")
    return res, snap


def _rerun_confirm(ctx, basis, n, tag, compls=None):
    """the history in isolation: reference = ONE call in a fresh process into an empty directory; history = the calls of `compls`
    (default: just n) twice in one process [+ a new process].  -> (differing files | None when it cannot be run, note)"""
    _MEM["n"] += 1
    ref = common.fresh_copy(ctx, "c16_rr_ref_%d" % _MEM["n"]); his = common.fresh_copy(ctx, "c16_rr_his_%d" % _MEM["n"])
    try:
        sref = os.path.join(ctx.tmp, "c16_rr_snap_%d_ref" % _MEM["n"]); shis = os.path.join(ctx.tmp, "c16_rr_snap_%d_his" % _MEM["n"])
        r0, t0 = _rerun_worker(ctx, ref, "verif_c16_r", basis, [n], sref, "B")          # phase B on an empty directory = one fresh call
        if not r0 or not r0[0]["ok"]:
            return None, "reference run fails: %s" % (r0 or t0)
        ra, ta = _rerun_worker(ctx, his, "verif_c16_r", basis, compls or [n], shis, "A")
        if tag == "newproc" and ra:
            ra, ta = _rerun_worker(ctx, his, "verif_c16_r", basis, compls or [n], shis, "B")
        d = os.path.join(shis, "%s_%d" % (tag, n))
        if not os.path.isdir(d):
            return ["<the call after the history fails: %s>" % ([r.get("error") for r in (ra or []) if not r["ok"]] or ta)], ""
        return _cmp_dirs(os.path.join(sref, "newproc_%d" % n), d), ""
    finally:
        shutil.rmtree(ref, ignore_errors=True); shutil.rmtree(his, ignore_errors=True)


def _history_reruns(ctx, deep):
    """Repeated identical calls and runs over the directories of earlier completed runs, for every arity-class profile: the second
    identical call in one process and a new process over the old directory must leave, byte for byte, the files of the first run."""
    from concurrent.futures import ThreadPoolExecutor
    bases = _rerun_bases(ctx, deep)
    compls = [1, 2, 3, 4] if not deep else [1, 2, 3, 4, 5]
    copy = common.fresh_copy(ctx, "c16_rerun")
    os.makedirs(os.path.join(copy, "esr", "function_library"), exist_ok=True)
    with ThreadPoolExecutor(max_workers=min(16, os.cpu_count() or 4)) as ex:
        results = list(ex.map(lambda kb: _rerun_one(ctx, copy, kb[0], kb[1], compls), enumerate(bases)))
    profiles, notgen, ncmp, confirmed, also = {}, [], 0, set(), []
    for basis, (res, snap) in zip(bases, results):
        prof = "".join("0" if not c else ("1" if len(c) == 1 else "+") for c in basis)
        if "worker_failed" in res:
            ctx.disagree("rerun:worker", "rerun worker for basis %s did not report: %s" % (basis, res["worker_failed"][-300:]))
            continue
        for n in compls:
            r = res[n]
            if r.get("first") is not True:
                # this basis has no library at this complexity even in a fresh process (no leaf label, no tree of that size, ...):
                # nothing to compare, not a matter of history
                notgen.append([basis, n, str(r.get("first"))[:120]])
                ctx.case(("rerun", json.dumps(basis), n), nontrivial=False)
                continue
            profiles[prof + (" odd" if n % 2 else " even")] = profiles.get(prof + (" odd" if n % 2 else " even"), 0) + 1
            first = os.path.join(snap, "first_%d" % n)
            for tag in ("same", "newproc"):
                ctx.case(("rerun", json.dumps(basis), n, tag), nontrivial=True)
                ncmp += 1
                if r.get(tag) is not True:
                    bad = ["<the call fails: %s>" % str(r.get(tag))[:200]]
                else:
                    bad = _cmp_dirs(first, os.path.join(snap, "%s_%d" % (tag, n)))
                if not bad:
                    continue
                if tag in confirmed:
                    also.append([basis, n, tag, bad[:3]])            # one isolated, replayable instance per kind of history is enough
                    continue
                # seen in the batch (the calls for lower complexities came before in the same process): isolate it
                iso, note = _rerun_confirm(ctx, basis, n, tag)
                rp = dict(kind="rerun", basis=basis, compl=n, history=tag, history_text=RERUN_HISTORIES[tag], compls=[n])
                if not iso:
                    iso2, note2 = _rerun_confirm(ctx, basis, n, tag, compls=[c for c in compls if c <= n])
                    if iso2:
                        iso, rp["compls"] = iso2, [c for c in compls if c <= n]
                if iso is None:
                    ctx.disagree("rerun:unconfirmed", "basis %s n=%d %s: differs in the batch (%s) but the isolated run could not be made: %s" % (basis, n, tag, bad[:3], note))
                    continue
                if not iso:
                    ctx.disagree("rerun:unconfirmed", "basis %s n=%d %s: differs in the batch (%s) but not when replayed alone" % (basis, n, tag, bad[:3]))
                    continue
                confirmed.add(tag)
                ctx.fail("history-dependent:generation:rerun:%s:%s" % (tag, iso[0].split("_")[0]),
                         "generation with basis %s at complexity %d after %s%s differs from the run of a fresh process into an empty directory in %s" % (
                             basis, n, RERUN_HISTORIES[tag], "" if rp["compls"] == [n] else " (each of the complexities %s twice before)" % rp["compls"][:-1], iso[:6]), rp)
        shutil.rmtree(snap, ignore_errors=True)
    shutil.rmtree(copy, ignore_errors=True)
    ctx.extra["rerun_profiles"] = dict(
        note="arity-class profile (per class 0 = empty, 1 = singleton, + = two or more) and parity of the complexity -> number of (basis, complexity) "
             "whose second identical call and new-process rerun were byte-compared with the first run",
        profiles=profiles, bases=len(bases), complexities=compls, comparisons=ncmp, differing_in_batch_not_isolated=also[:20], no_library_even_fresh=len(notgen), no_library_examples=notgen[:4])


def _fit_calls(ctx, copy, dd, calls, timeout=1200, pre_recursionlimit=None, api_fit=False):
    env = ctx.env()
    env["PYTHONPATH"] = os.pathsep.join([common.STANDIN, copy, common.HARNESS])
    mp = _mem_path(ctx)
    pp = mp.replace("memstate_", "apiprobe_")
    p = subprocess.run([common.PY, os.path.join(common.HARNESS, "workers", "fit_history.py"),
                        json.dumps(dict(data_dir=dd, calls=calls, memstate=mp, api_probe=pp, api_fit=api_fit, pre_recursionlimit=pre_recursionlimit))],
                       env=env, cwd=copy, capture_output=True, text=True, timeout=timeout)
    _mem_collect(mp, "fitting %s" % json.dumps([(c["fn_set"], c["comp"], c["data_file"]) for c in calls]))
    try:
        _MEM["probes"].append(json.load(open(pp)))
    except Exception:
        pass
    return p.returncode, (p.stdout[-200:] + p.stderr[-700:])


def _history_fitting(ctx, nhist):
    """the four fitting stages observed after earlier pipeline calls IN THE SAME PROCESS (other bases, other complexities,
    other data, repeats) writing into the same output directories, with and without ignore_previous_eqns"""
    import numpy as np
    lib = libgen.generate(ctx, "core_maths", [1, 2, 3, 4], P=1, copy="c16_fit")
    lib2 = libgen.generate(ctx, "ext_maths", [1, 2, 3], P=1, copy="c16_fit")
    if not (lib["ok"] and lib2["ok"]):
        ctx.disagree("fit-library", "library generation failed"); return
    rs = np.random.default_rng(ctx.seed + 5)
    x = np.linspace(0.5, 3, 20); s = np.full(20, 0.3); y = 0.8 * x * x + rs.normal(0, 0.3, 20)
    y2 = 3.0 / x + rs.normal(0, 0.3, 20)
    for h in range(nhist):
        ipe = (h % 2 == 1)
        kw = {"ignore_previous_eqns": True} if ipe else {}
        fn_set = ctx.rng.choice(["core_maths", "ext_maths"])
        obs = dict(fn_set=fn_set, comp=3, data_file="d.txt", run_name="obs", seed=ctx.seed + 3, kw=kw)
        outs = {}
        hist = []
        for tag in ("ref", "hist"):
            dd = os.path.join(ctx.tmp, "c16_fit_%s%d" % (tag, h)); os.makedirs(dd)
            fitlib.write_data(os.path.join(dd, "d.txt"), x, y, s)
            fitlib.write_data(os.path.join(dd, "e.txt"), x, y2, s)
            calls = [obs]
            if tag == "hist":
                for _ in range(ctx.rng.randint(1, 2)):
                    hist.append(dict(fn_set=ctx.rng.choice(["core_maths", "ext_maths"]), comp=ctx.rng.choice([2, 3]), data_file=ctx.rng.choice(["d.txt", "e.txt"]),
                                     run_name="obs", seed=ctx.rng.randint(0, 99), kw=dict(kw)))
                if not any(c["comp"] == 3 and c["fn_set"] != fn_set for c in hist):
                    hist[0].update(comp=3, fn_set=("ext_maths" if fn_set == "core_maths" else "core_maths"))
                calls = hist + [obs]
            pre = (2000 + 500 * 2) if (tag == "hist" and _RNG2(ctx).random() < 0.5) else None
            rc, tail = _fit_calls(ctx, lib["copy"], dd, calls, pre_recursionlimit=pre, api_fit=(tag == "hist" and h == 0))
            if pre:
                ctx.extra["histories_with_raised_recursion_limit"] = ctx.extra.get("histories_with_raised_recursion_limit", 0) + 1
            if rc != 0:
                outs[tag] = None
                ctx.fail("fitting-after-history-fails" if tag == "hist" else "fitting-reference-fails", "fitting stages (%s n=3%s) fail%s: %s" % (
                    fn_set, ", ignore_previous_eqns" if ipe else "", " after earlier calls %s in the same process" % hist if tag == "hist" else "", tail[-300:]),
                    dict(kind="fitting", history=hist, obs=obs))
                break
            outs[tag] = os.path.join(dd, "fitting", "output", "output_obs")
        ctx.case(("fit", json.dumps(hist, sort_keys=True)), nontrivial=True)
        if outs.get("ref") and outs.get("hist"):
            names = [f for f in sorted(os.listdir(outs["ref"])) if "comp3" in f or "_3." in f]
            diff = [f for f in names if not (os.path.exists(os.path.join(outs["hist"], f)) and filecmp.cmp(os.path.join(outs["ref"], f), os.path.join(outs["hist"], f), shallow=False))]
            if diff:
                ctx.fail("history-dependent:fitting:%s" % diff[0].split("_comp")[0], "fitting outputs (%s n=3%s) after earlier calls %s in the same process differ from the fresh-process run in %s" % (
                    fn_set, ", ignore_previous_eqns" if ipe else "", [(c["fn_set"], c["comp"], c["data_file"]) for c in hist], diff[:5]), dict(kind="fitting", history=hist, obs=obs))
            else:
                ctx.sample(dict(fitting_observed=[fn_set, 3, "ignore_previous_eqns" if ipe else "default"], history=[(c["fn_set"], c["comp"], c["data_file"]) for c in hist], identical_files=len(names)), cap=8)


def _delta(r, c):
    v = r["changed"].get(c)
    return "%s -> %s" % (v[0][13:60], v[1][13:60]) if v else "appeared during the call"


def _check_memstate(ctx):
    """dynamic tie of Generated/MemState.lean: every cell whose fingerprint changed across a call must be a cell the table says
    that entry point can change; in particular every cell of kind (a) is unchanged across every observed call"""
    from extractors import memstate as ms
    try:
        tb = ms.analyse(ctx.stage)
    except Exception as e:
        ctx.disagree("corr:memstate", "the in-memory cell table cannot be regenerated from the current source: %s" % e)
        return
    col = {ms.ENTRY_CALLABLE[l]: i for i, (l, _) in enumerate(tb["entries"])}
    cells, alias = tb["cells"], tb["aliases"]
    kinds = ms.kinds(tb)
    pipe = [i for i, (_, p) in enumerate(tb["entries"]) if p]

    def canon(c):
        c = alias.get(c, c)
        if c not in cells and c.endswith("[a<i>]"):
            c = alias.get(c[:-6], c[:-6])
        return c

    changed, unknown, seen_entries, ncalls, nsnap = {}, {}, {}, 0, 0
    for r in _MEM["records"]:
        e = r["entry"]
        if e not in col:
            ctx.disagree("corr:memstate", "observed call %s is not an entry point of the table" % e); continue
        ncalls += 1
        nsnap = max(nsnap, r["ncells"])
        seen_entries[e] = seen_entries.get(e, 0) + 1
        if r.get("vanished"):
            ctx.disagree("corr:memstate", "cells %s vanished across a call of %s (history %s)" % (r["vanished"][:4], e, r["history"][:200]))
        for c0 in list(r["changed"]) + list(r.get("appeared", [])):
            c = canon(c0)
            if c not in cells:
                unknown.setdefault(c0, e)
                ctx.disagree("corr:memstate", "cell %s changed across a call of %s (%s) but is not in the table regenerated from the source (history %s)" % (
                    c0, e, _delta(r, c0), r["history"][:200]))
                continue
            changed.setdefault(c, set()).add(e)
            acc = cells[c]["acc"][col[e]]
            if acc not in ("reset", "rmw"):
                ctx.disagree("corr:memstate", "cell %s changed across a call of %s (%s) but the table says that entry point's access is `%s` (kind %s) (history %s)" % (
                    c, e, _delta(r, c0), acc, kinds[c][col[e]], r["history"][:200]))
    if not _MEM["records"]:
        ctx.disagree("corr:memstate", "no memory fingerprint was recorded (workers failed?)")
    cnt = {k: sum(1 for c in cells for i in pipe if kinds[c][i] == k) for k in "abc"}
    written = sorted(c for c, v in cells.items() if any(a in ("reset", "rmw") for a in v["acc"]))
    ctx.extra["memstate"] = dict(
        cells_in_table=len(cells), entry_points=[l for l, _ in tb["entries"]],
        cells_by_kind={k: len([c for c in cells.values() if c["kind"] == k]) for k in sorted(set(c["kind"] for c in cells.values()))},
        mutable_cells=sorted(c for c, v in cells.items() if v["mutable"] and v["kind"] != "process"),
        pipeline_cell_entry_pairs=dict(a_never_written=cnt["a"], b_reset_or_not_looked_at=cnt["b"], c_carried=cnt["c"]),
        carried_pipeline=sorted(c for c in cells if any(kinds[c][i] == "c" for i in pipe)),
        carried_with_api=sorted(c for c in cells if "c" in kinds[c]),
        write_sites=len([s for s in tb["sites"] if "(first)" not in s[3]]),
        calls_fingerprinted=ncalls, calls_by_entry=seen_entries, cells_per_snapshot=nsnap,
        cells_seen_changing={c: sorted(v) for c, v in sorted(changed.items())},
        written_in_table_never_seen_changing=[c for c in written if c not in changed],
        changed_but_unknown=unknown)
    # the single-function API in a fresh process versus after the pipeline calls (outside the statement: reported, not judged)
    diffs = []
    for pr in _MEM["probes"]:
        if "fresh" in pr and "after" in pr:
            for a, b in zip(pr["fresh"], pr["after"]):
                if a != b and [a, b] not in diffs:
                    diffs.append([a, b])
    ctx.extra["fit_single_api_probe"] = dict(
        what="fit_single.string_to_aifeyn / tree_to_aifeyn in the still fresh process and again after the pipeline calls of the same process",
        processes=len(_MEM["probes"]), differing=diffs[:6],
        note=("string_to_node reads sympy_locs['a<i>'] without binding it: the same formula string gives another tree once any earlier call has "
              "registered a<i> as a real symbol" if diffs else "no difference seen"))


def run(ctx):
    deep = not ctx.quick
    _MEM.update(n=0, records=[], probes=[])
    # base_e_maths n=4: check_results un-merges several functions there, so the order of its seeded shuffle is observable
    targets = [("core_maths", 4), ("base_e_maths", 4)] if not deep else [("core_maths", 4), ("base_e_maths", 4), ("ext_maths", 3), ("keep_duplicates", 4), ("core_maths", 5)]
    def phase(name, f, *a):
        # a failure of the harness/extractor inside a phase is a broken obligation of that phase, never a crash of the check:
        # the other phases (and with them the failing-input search) still run
        try:
            f(ctx, *a)
        except Exception as e:
            import traceback
            ctx.disagree("phase:%s" % name, "%s: %s | %s" % (type(e).__name__, str(e)[:300], traceback.format_exc()[-500:]))
    for t in targets:
        phase("generation-histories", _history_generation, t, 4 if not deep else 12)
    phase("fitting-histories", _history_fitting, 2 if not deep else 8)
    phase("rerun-histories", _history_reruns, deep)
    phase("memstate", _check_memstate)
    ctx.extra["corr_obligations"] = 2
    ctx.extra["corr_discharged"] = int(not [d for d in ctx.disagreements if d["name"].startswith("trace") or d["name"].startswith("phase:")]) + \
        int(not [d for d in ctx.disagreements if d["name"].startswith("corr:memstate")])


def replay(ctx, data):
    rp = data["replay"]
    c2 = common.Ctx("C16", "quick", 0); c2.tmp = ctx.tmp; c2.stage = ctx.stage; c2.seed = data.get("seed", 0)
    if rp["kind"] == "rerun":
        bad, note = _rerun_confirm(c2, rp["basis"], rp["compl"], rp["history"], compls=rp.get("compls"))
        print("basis %s complexity %d after %s: differing files: %s %s" % (rp["basis"], rp["compl"], rp.get("history_text"), bad, note))
        return bad is not None and not bad
    if rp["kind"] == "generation":
        runname, compl = rp["target"]
        ref = common.fresh_copy(c2, "r_ref"); _gen(c2, ref, [[runname, compl, None]])
        copy = common.fresh_copy(c2, "r_h")
        calls = [c for c in rp["history"] if not str(c[0]).startswith("<")] + [[runname, compl, None]]
        if rp.get("hkind") in ("leftover", "corrupted"):
            print("left-over-file histories are replayed by the quick check itself (seeded)"); return True
        rc, tail = _gen(c2, copy, calls, pre_recursionlimit=rp.get("recursion_limit_raised_before"))
        bad = _cmp_dirs(_libdir(ref, runname, compl), _libdir(copy, runname, compl)) if rc == 0 else ["<run failed>"]
        print("differing files:", bad)
        return not bad
    return True
