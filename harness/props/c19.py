"""C19 — supernova distance-modulus prediction equals its defining integral (PanthLikelihood.get_pred)."""
import ast, math, os, sys, warnings
import common, extract

LEAN_MODULE = ["ESRVerif.Props.C19", "ESRVerif.Props.C19b", "ESRVerif.Props.C19c"]
LEVEL = "other"
LEVEL_TEXT = ("Partial. Lean theorems over a hand model of get_pred/clear_data and the regenerated formulas: the integration grid contains "
              "every data point, is strictly increasing and (for 1+z >= 1) starts at 1; the mask indexes each data point in the grid "
              "(unsorted input, duplicates); the value selected for data point i is the composite trapezoid sum of G = 1/sqrt(H^2) from the "
              "first grid point to that data point, exact when G is piecewise linear on the grid; for G twice continuously differentiable "
              "on [1, 1+z_max] (in particular for H^2 C^2 and positive with the real square root) "
              "|dL_i - integral_1^{zp1_i} G| <= sum_{j<k_i} zeta_j |g_{j+1}-g_j|^3 / 12 <= zeta/12 sum |g_{j+1}-g_j|^3 <= zeta h^2 (zp1_i - 1)/12 "
              "with zeta_j, zeta bounds of |G''| on the j-th grid interval / on the hull and h = max((lo-1)/9, 1/25) a PROVED bound of the "
              "steps of the grid built from the shipped constants (Mathlib trapezoidal_error_le_of_c2 on every grid interval, summed); "
              "|delta mu| <= 5 E / (ln 10 min(dL, integral)); mu_i = 5 log10(zp1_i dL_i) + 5 log10(c/H0/10pc); after clear_data the next "
              "call rebuilds grid and mask from its own argument. Analytic path (Props/C19c): with P the lambdified expression run_sympify returns and "
              "the NAMED hypothesis AntiderivativeContract G P b (P' = G = 1/sqrt(H^2) on [1, b]; the contract of sympy.integrate, third party) "
              "the regenerated branch dL = P(zp1) - P(1) equals the defining integral (Mathlib FTC-2), mu_i = 5 log10(zp1_i int_1^{zp1_i} G) + const, "
              "and it agrees with the numerical path within zeta h^2 (zp1_i - 1)/12 (analytic_path_agrees_with_numeric_partial); the hypothesis is "
              "needed: P' = -G gives minus the integral, a negative dL (posified_antiderivative_negates: log x / a for H^2 = (a x)^2, a < 0). "
              "run_sympify's call sympy.integrate(1/sqrt(eq), x) is regenerated fail-closed (result must reach the returned eq unprocessed). "
              "NOT proved: floating-point rounding, and the contract itself - it is CHECKED on every run on the real antiderivative expressions "
              "(sympy.diff and central differences vs 1/sqrt(H^2), parameter values of both signs), next to the analytic path vs the numerical "
              "path and scipy.integrate.quad.")
TECHNIQUE = ("Lean 4 proof on a hand model of the grid/mask/cumulative-trapezoid/cache logic + formulas regenerated from source; "
             "Mathlib trapezoid error bound summed over the non-uniform grid; model-code correspondence on random redshift samples; "
             "independent quad oracle that checks the real get_pred against exactly the three bounds of the theorems on the real data_x; "
             "analytic branch: Mathlib FTC-2 from a named derivative hypothesis + run-time check of that hypothesis on the antiderivatives the real "
             "run_sympify returns, over families whose parameters enter through even powers / absolute values / products / quotients at both signs")
RULE = ("one evaluation = one get_pred call on the real code compared with the model (correspondence) or with scipy.integrate.quad (oracle); "
        "distinct = (function string, parameter vector, sample) ; non-trivial = sample with >= 2 distinct redshifts; samples of 1-200 points, "
        "sorted / reversed / shuffled, with duplicates and values coinciding with auxiliary grid points; one antiderivative-contract evaluation = "
        "one (function, parameter vector) with the derivative compared at 16 points of [1, 3.4]; signed families at every sign pattern of their "
        "parameters, magnitudes 10^U(-1, 3.7)")
EXPLANATION = LEVEL_TEXT
TRUSTED = ["hand model ESRVerif/Model/Panth.lean of get_pred/clear_data (tied by correspondence: grid bits, mask, mu)",
           "harness/extractors/panth.py (formulas, constants, unit algebra for mu_const)",
           "numpy.linspace/unique/where/log10 and scipy cumulative_trapezoid semantics (conformance-sampled against the model)",
           "scipy.integrate.quad as the reference integral",
           "zeta_j: |G''| (closed form from hand-written H^2, H^2', H^2'', cross-checked against sympy's second derivative of the "
           "expression the real run_sympify returns) maximised on 9 points per grid interval (end points included) times 1.05",
           "pointwise evaluation of the lambdified H^2 (eq_numpy)",
           "sympy.integrate (third party): its contract is the hypothesis AntiderivativeContract of Props/C19c.lean, checked at run time with "
           "sympy.diff + numpy evaluation and with central differences of the lambdified antiderivative against the hand-written 1/sqrt(H^2)",
           "hand-written H^2, H^2', H^2'' of the signed families (cross-checked against sympy's second derivative of the sympified string)"]
ASSUMPTIONS = ["1+z >= 1 and NaN-free finite redshifts", "H^2 positive, twice continuously differentiable on [1, 1+z_max]",
               "exact real arithmetic in the theorems (rounding not modelled)",
               "instances are built with object.__new__ and the constructor's own attribute assignments (the covariance files of this "
               "snapshot are empty and pandas>=3 rejects delim_whitespace, so __init__ cannot run)",
               "the run-time oracle's zeta_j / zeta are not interval-arithmetic enclosures of max|G''|: closed-form G'' sampled on a mesh of 9 "
               "points per grid interval (spacing <= 0.005 on the shipped grid) with a 5% safety factor; the run-time bound is the theorem's "
               "expression evaluated with these zeta on the grid the real code built (data_x) plus the slack 1e-12*|I| + 2*(quad's own error estimate)",
               "sympy.integrate is tested, not proved: AntiderivativeContract is checked at 16 points per (function, parameter vector), tolerance "
               "1e-9 relative (sympy.diff) / 1e-5 relative + rounding (central differences), not for all x and all parameter values",
               "analytic path vs quad: 1e-9 relative + 2 quad error estimates + 16 ulps of |F(1+z)| + |F(1)| (cancellation in the subtraction is "
               "floating-point rounding, outside the property)"]
# tables whose committed version may stand in as a hand-written model when the translator cannot read the source;
# value = the correspondence that then ties it to the code (common.prove / common.decide)
FALLBACK = {'Panth': 'real get_pred grid, mask, cumulative sums and mu vs the Lean model (bit patterns); real run_sympify antiderivatives vs '
                     'the derivative contract and the analytic path vs quad'}
MODELLED = ["likelihood.py:PanthLikelihood.get_pred", "likelihood.py:PanthLikelihood.clear_data",
            "likelihood.py:PanthLikelihood.run_sympify", "likelihood.py:PanthLikelihood.__init__"]

INIT_ATTRS = ("Hfid", "mu_const", "delta_z", "min_nz", "data_x", "data_mask")
LN10 = math.log(10.0)


# --------------------------------------------------------------------------------------------------------------------
# anchored-line coverage of the real code (sys.monitoring, each line reported once)
# --------------------------------------------------------------------------------------------------------------------

class LineCov(object):
    def __init__(self, funcs):
        self.codes = [f.__code__ for f in funcs]
        self.hit = set()
        self.tool = None

    def __enter__(self):
        mon = getattr(sys, "monitoring", None)
        if mon is None:
            return self
        try:
            mon.use_tool_id(mon.COVERAGE_ID, "esrverif-c19")
        except ValueError:
            return self
        self.tool = mon.COVERAGE_ID

        def line(code, ln):
            self.hit.add((code.co_name, ln))
            return mon.DISABLE
        mon.register_callback(self.tool, mon.events.LINE, line)
        for c in self.codes:
            mon.set_local_events(self.tool, c, mon.events.LINE)
        return self

    def __exit__(self, *a):
        if self.tool is not None:
            mon = sys.monitoring
            for c in self.codes:
                mon.set_local_events(self.tool, c, 0)
            mon.register_callback(self.tool, mon.events.LINE, None)
            mon.free_tool_id(self.tool)

    def report(self):
        if self.tool is None:
            return dict(available=False)
        out, missing = {}, []
        for c in self.codes:
            lines = sorted(set(l for _, _, l in c.co_lines() if l and l != c.co_firstlineno))
            hit = [l for l in lines if (c.co_name, l) in self.hit]
            out[c.co_name] = "%d/%d" % (len(hit), len(lines))
            missing += ["likelihood.py:%d (%s)" % (l, c.co_name) for l in lines if (c.co_name, l) not in self.hit]
        return dict(available=True, executed=out, anchored_lines_not_executed=missing)


# --------------------------------------------------------------------------------------------------------------------
# the real object
# --------------------------------------------------------------------------------------------------------------------

_INIT_CODE = {}


def new_instance(ctx):
    """object.__new__(PanthLikelihood) + the constructor's own assignments of the attributes get_pred reads."""
    import esr.fitting.likelihood as lk
    key = lk.__file__
    if key not in _INIT_CODE:
        tree = ast.parse(open(lk.__file__).read())
        init = extract.find_def(tree, "__init__", "PanthLikelihood")
        stmts = [n for n in init.body if isinstance(n, ast.Assign) and len(n.targets) == 1 and isinstance(n.targets[0], ast.Attribute)
                 and isinstance(n.targets[0].value, ast.Name) and n.targets[0].value.id == "self" and n.targets[0].attr in INIT_ATTRS]
        mod = ast.Module(body=stmts, type_ignores=[])
        ast.fix_missing_locations(mod)
        _INIT_CODE[key] = (compile(mod, lk.__file__, "exec"), sorted(set(n.targets[0].attr for n in stmts)))
    code, have = _INIT_CODE[key]
    inst = object.__new__(lk.PanthLikelihood)
    exec(code, vars(lk), {"self": inst})
    missing = [a for a in INIT_ATTRS if not hasattr(inst, a)]
    if missing:
        ctx.disagree("corr:constructor", "PanthLikelihood.__init__ no longer assigns %s" % missing)
        for a, v in (("delta_z", 0.02), ("min_nz", 10), ("mu_const", 0.0), ("data_x", None), ("data_mask", None)):
            if not hasattr(inst, a):
                setattr(inst, a, v)
    inst.mu_const = float(inst.mu_const)
    return inst


_SYMPIFY = {}


def lambdify(ctx, inst, fstr, nparam, try_integration):
    """as esr/fitting/test_all.py:153-171 does.  The real run_sympify is called once per (source file, function string, mode)
    and its result reused (it is a pure function of its arguments; sympy.integrate dominates the run time otherwise)."""
    import sympy
    import esr.fitting.likelihood as lk
    from esr.fitting.sympy_symbols import x, a0
    key = (lk.__file__, fstr, bool(try_integration))
    if key not in _SYMPIFY:
        _SYMPIFY[key] = inst.run_sympify(fstr, tmax=5 if fstr in SIGNED else 2, try_integration=try_integration)
    fcn, eq, integrated = _SYMPIFY[key]
    if nparam == 0:
        f = sympy.lambdify(x, eq, modules=["numpy"])
    elif nparam > 1:
        all_a = list(sympy.symbols(" ".join("a%d" % i for i in range(nparam)), real=True))
        f = sympy.lambdify([x] + all_a, eq, modules=["numpy"])
    else:
        f = sympy.lambdify([x, a0], eq, modules=["numpy"])
    return f, integrated, eq


# --------------------------------------------------------------------------------------------------------------------
# families of smooth positive H^2 with hand-written derivatives (independent of sympy and of ESR)
# each: ESR function string, number of parameters, parameter sampler, (h, h', h'') as functions of (x, params)
# --------------------------------------------------------------------------------------------------------------------

def _draw(r, kinds, signs=None, same=False):
    """parameter vector for a SIGNED family: kind 'mag' = 10^U(-1, 3.7) (a few decades), 'rate' = U(0.2, 1.6), 'pow' = U(0.3, 4.5);
    every parameter takes the sign given (or a random one); same=True: all parameters share the first one's sign (the
    function is a product / quotient of parameters that has to be positive)."""
    out = []
    for i, k in enumerate(kinds):
        sg = (signs[i] if signs is not None else r.choice([-1.0, 1.0]))
        if same and i:
            sg = math.copysign(1.0, out[0])
        mag = 10.0 ** r.uniform(-1.0, 3.7) if k == "mag" else r.uniform(0.2, 1.6) if k == "rate" else r.uniform(0.3, 4.5)
        out.append(sg * mag)
    return out


def _signed_families():
    """H^2 that are smooth and POSITIVE on x >= 1 for parameter values of EITHER sign because the parameters enter through even
    powers, absolute values (ESR's sqrt/pow/log take |.|), same-sign products and quotients; 1/sqrt(H^2) has an elementary
    antiderivative.  (fstr, npar, sampler(r, signs=None), H^2, H^2', H^2'') - hand-written, independent of sympy and ESR."""
    import numpy as np
    D = _draw
    sq = lambda v: v * v
    F = [
        ("square(a0*x)", ["mag"], 0, lambda x, p: sq(p[0] * x), lambda x, p: 2 * sq(p[0]) * x, lambda x, p: 2 * sq(p[0]) + 0 * x),
        ("pow(a0*x,2)", ["mag"], 0, lambda x, p: sq(p[0] * x), lambda x, p: 2 * sq(p[0]) * x, lambda x, p: 2 * sq(p[0]) + 0 * x),
        ("square(a0)*cube(x)", ["mag"], 0, lambda x, p: sq(p[0]) * x ** 3, lambda x, p: 3 * sq(p[0]) * x ** 2, lambda x, p: 6 * sq(p[0]) * x),
        ("square(x)/square(a0)", ["mag"], 0, lambda x, p: sq(x) / sq(p[0]), lambda x, p: 2 * x / sq(p[0]), lambda x, p: 2 / sq(p[0]) + 0 * x),
        ("square(a0)*x", ["mag"], 0, lambda x, p: sq(p[0]) * x, lambda x, p: sq(p[0]) + 0 * x, lambda x, p: 0 * x),
        ("sqrt(square(a0))*x", ["mag"], 0, lambda x, p: abs(p[0]) * x, lambda x, p: abs(p[0]) + 0 * x, lambda x, p: 0 * x),
        ("sqrt(a0)*x", ["mag"], 0, lambda x, p: math.sqrt(abs(p[0])) * x, lambda x, p: math.sqrt(abs(p[0])) + 0 * x, lambda x, p: 0 * x),
        ("pow(a0,2)*x", ["mag"], 0, lambda x, p: sq(p[0]) * x, lambda x, p: sq(p[0]) + 0 * x, lambda x, p: 0 * x),
        ("square(a0)*exp(a1*x)", ["mag", "rate"], 0, lambda x, p: sq(p[0]) * np.exp(p[1] * x), lambda x, p: sq(p[0]) * p[1] * np.exp(p[1] * x),
         lambda x, p: sq(p[0]) * sq(p[1]) * np.exp(p[1] * x)),
        ("square(a0)*pow(x,a1)", ["mag", "pow"], 0, lambda x, p: sq(p[0]) * x ** p[1], lambda x, p: sq(p[0]) * p[1] * x ** (p[1] - 1),
         lambda x, p: sq(p[0]) * p[1] * (p[1] - 1) * x ** (p[1] - 2)),
        ("a0*a1*x", ["mag", "mag"], 1, lambda x, p: p[0] * p[1] * x, lambda x, p: p[0] * p[1] + 0 * x, lambda x, p: 0 * x),
        ("a0*x/a1", ["mag", "mag"], 1, lambda x, p: p[0] * x / p[1], lambda x, p: p[0] / p[1] + 0 * x, lambda x, p: 0 * x),
        ("inv(square(a0))*x", ["mag"], 0, lambda x, p: x / sq(p[0]), lambda x, p: 1 / sq(p[0]) + 0 * x, lambda x, p: 0 * x),
        ("square(a0*a1)*cube(x)", ["mag", "mag"], 0, lambda x, p: sq(p[0] * p[1]) * x ** 3, lambda x, p: 3 * sq(p[0] * p[1]) * x ** 2,
         lambda x, p: 6 * sq(p[0] * p[1]) * x),
        ("square(a0/a1)*x", ["mag", "mag"], 0, lambda x, p: sq(p[0] / p[1]) * x, lambda x, p: sq(p[0] / p[1]) + 0 * x, lambda x, p: 0 * x),
        ("square(a0)*inv(x)", ["mag"], 0, lambda x, p: sq(p[0]) / x, lambda x, p: -sq(p[0]) / x ** 2, lambda x, p: 2 * sq(p[0]) / x ** 3),
        ("square(a0)*square(a1)*pow(x,a2)", ["mag", "mag", "pow"], 0, lambda x, p: sq(p[0] * p[1]) * x ** p[2],
         lambda x, p: sq(p[0] * p[1]) * p[2] * x ** (p[2] - 1), lambda x, p: sq(p[0] * p[1]) * p[2] * (p[2] - 1) * x ** (p[2] - 2)),
        ("square(a0)+square(a1)*x", ["mag", "mag"], 0, lambda x, p: sq(p[0]) + sq(p[1]) * x, lambda x, p: sq(p[1]) + 0 * x, lambda x, p: 0 * x),
        ("square(a0*x)+square(a1)", ["mag", "mag"], 0, lambda x, p: sq(p[0] * x) + sq(p[1]), lambda x, p: 2 * sq(p[0]) * x, lambda x, p: 2 * sq(p[0]) + 0 * x),
        ("pow(a0,4)*square(x)", ["mag"], 0, lambda x, p: p[0] ** 4 * sq(x), lambda x, p: 2 * p[0] ** 4 * x, lambda x, p: 2 * p[0] ** 4 + 0 * x),
        ("inv(square(a0*x))", ["mag"], 0, lambda x, p: 1 / sq(p[0] * x), lambda x, p: -2 / (sq(p[0]) * x ** 3), lambda x, p: 6 / (sq(p[0]) * x ** 4)),
    ]
    mk = lambda kinds, same: (lambda r, signs=None: D(r, kinds, signs, bool(same)))
    return [(fs, len(kinds), mk(kinds, same), h, h1, h2) for fs, kinds, same, h, h1, h2 in F]


SIGNED = frozenset(["square(a0*x)", "pow(a0*x,2)", "square(a0)*cube(x)", "square(x)/square(a0)", "square(a0)*x", "sqrt(square(a0))*x",
                    "sqrt(a0)*x", "pow(a0,2)*x", "square(a0)*exp(a1*x)", "square(a0)*pow(x,a1)", "a0*a1*x", "a0*x/a1", "inv(square(a0))*x",
                    "square(a0*a1)*cube(x)", "square(a0/a1)*x", "square(a0)*inv(x)", "square(a0)*square(a1)*pow(x,a2)",
                    "square(a0)+square(a1)*x", "square(a0*x)+square(a1)", "pow(a0,4)*square(x)", "inv(square(a0*x))"])
SAME_SIGN = frozenset(["a0*a1*x", "a0*x/a1"])


def _sign_patterns(fam):
    """every sign pattern of a signed family's parameters (same-sign families: all + / all -); [None] for the others"""
    import itertools
    if fam[0] not in SIGNED:
        return [None]
    if fam[0] in SAME_SIGN:
        return [tuple([1.0] * fam[1]), tuple([-1.0] * fam[1])]
    return list(itertools.product([1.0, -1.0], repeat=fam[1]))


def _families():
    return _base_families() + _signed_families()


def _base_families():
    import numpy as np
    u = lambda r, a, b: r.uniform(a, b)
    return [
        ("a0*cube(x)+a1", 2, lambda r: [u(r, 300, 4000), u(r, 500, 6000)],
         lambda x, p: p[0] * x ** 3 + p[1], lambda x, p: 3 * p[0] * x ** 2, lambda x, p: 6 * p[0] * x),
        ("a0*pow(x,a1)", 2, lambda r: [u(r, 500, 9000), u(r, 0.3, 4.5)],
         lambda x, p: p[0] * x ** p[1], lambda x, p: p[0] * p[1] * x ** (p[1] - 1), lambda x, p: p[0] * p[1] * (p[1] - 1) * x ** (p[1] - 2)),
        ("a0*exp(a1*x)+a2", 3, lambda r: [u(r, 100, 3000), u(r, 0.2, 1.6), u(r, 0, 3000)],
         lambda x, p: p[0] * np.exp(p[1] * x) + p[2], lambda x, p: p[0] * p[1] * np.exp(p[1] * x), lambda x, p: p[0] * p[1] ** 2 * np.exp(p[1] * x)),
        ("a0*square(x)+a1*x+a2", 3, lambda r: [u(r, 100, 3000), u(r, 0, 3000), u(r, 100, 3000)],
         lambda x, p: p[0] * x ** 2 + p[1] * x + p[2], lambda x, p: 2 * p[0] * x + p[1], lambda x, p: 2 * p[0] + 0 * x),
        ("a0", 1, lambda r: [u(r, 100, 9000)],
         lambda x, p: p[0] + 0 * x, lambda x, p: 0 * x, lambda x, p: 0 * x),
        ("cube(x)", 0, lambda r: [],
         lambda x, p: x ** 3, lambda x, p: 3 * x ** 2, lambda x, p: 6 * x),
        # H^2 = 1: the antiderivative of 1/sqrt(H^2) is x itself, so the lambdified analytic function hands back the very
        # array it was given (an in-place update of its result then corrupts the sample: seeded change C19b)
        ("1", 0, lambda r: [],
         lambda x, p: 1 + 0 * x, lambda x, p: 0 * x, lambda x, p: 0 * x),
        ("a0*x", 1, lambda r: [u(r, 100, 9000)],
         lambda x, p: p[0] * x, lambda x, p: p[0] + 0 * x, lambda x, p: 0 * x),
        ("a0*cube(x)", 1, lambda r: [u(r, 100, 9000)],
         lambda x, p: p[0] * x ** 3, lambda x, p: 3 * p[0] * x ** 2, lambda x, p: 6 * p[0] * x),
        ("a0*inv(x)+a1", 2, lambda r: [u(r, 100, 3000), u(r, 100, 3000)],
         lambda x, p: p[0] / x + p[1], lambda x, p: -p[0] / x ** 2, lambda x, p: 2 * p[0] / x ** 3),
        ("a0*sqrt(x)+a1", 2, lambda r: [u(r, 100, 3000), u(r, 100, 3000)],
         lambda x, p: p[0] * np.sqrt(x) + p[1], lambda x, p: 0.5 * p[0] / np.sqrt(x), lambda x, p: -0.25 * p[0] * x ** -1.5),
        ("a0*log(x)+a1", 2, lambda r: [u(r, 100, 3000), u(r, 100, 3000)],
         lambda x, p: p[0] * np.log(x) + p[1], lambda x, p: p[0] / x, lambda x, p: -p[0] / x ** 2),
        ("square(a0+x)", 1, lambda r: [u(r, 5, 80)],
         lambda x, p: (p[0] + x) ** 2, lambda x, p: 2 * (p[0] + x), lambda x, p: 2 + 0 * x),
        ("a0*exp(a1*x)", 2, lambda r: [u(r, 100, 3000), u(r, 0.2, 1.6)],
         lambda x, p: p[0] * np.exp(p[1] * x), lambda x, p: p[0] * p[1] * np.exp(p[1] * x), lambda x, p: p[0] * p[1] ** 2 * np.exp(p[1] * x)),
        ("pow(x,a0)", 1, lambda r: [u(r, 0.3, 4.5)],
         lambda x, p: x ** p[0], lambda x, p: p[0] * x ** (p[0] - 1), lambda x, p: p[0] * (p[0] - 1) * x ** (p[0] - 2)),
    ]


def _sample(rng, nmax=200, allow_one=True):
    """1+z for a redshift sample: sizes 1..nmax, rounded values (duplicates, coincidences with min+k*0.02), any order."""
    n = rng.choice([1, 2, 3, 5, 8]) if rng.random() < 0.25 else rng.randint(1, nmax)
    zmax = rng.choice([0.05, 0.3, 1.0, 2.3])
    mode = rng.choice(["unif", "log", "round2", "round3", "lattice"])
    zs = []
    z0 = round(rng.uniform(0.0101, 0.05), 3)
    for _ in range(n):
        if mode == "unif":
            z = rng.uniform(0.0101, zmax)
        elif mode == "log":
            z = math.exp(rng.uniform(math.log(0.0101), math.log(max(zmax, 0.02))))
        elif mode == "round2":
            z = round(rng.uniform(0.0101, zmax), 2) + 0.01
        elif mode == "round3":
            z = round(rng.uniform(0.0101, zmax), 3)
        else:
            z = z0 + 0.02 * rng.randint(0, max(1, int(zmax / 0.02)))
        zs.append(z)
    if n >= 2 and rng.random() < 0.5:                    # explicit duplicates
        for _ in range(rng.randint(1, max(1, n // 4))):
            zs[rng.randrange(n)] = zs[rng.randrange(n)]
    if allow_one and rng.random() < 0.04:
        zs[rng.randrange(n)] = 0.0                       # zp1 = 1 exactly: dL = 0, mu = -inf on both sides
    order = rng.choice(["sorted", "reversed", "shuffled"])
    if order == "sorted":
        zs.sort()
    elif order == "reversed":
        zs.sort(reverse=True)
    else:
        rng.shuffle(zs)
    return [1.0 + z for z in zs], mode, order


# --------------------------------------------------------------------------------------------------------------------
# correspondence: model vs code
# --------------------------------------------------------------------------------------------------------------------

def fam_params_probe(fam, fstr, r):
    return [f for f in fam if f[0] == fstr][0][2](r)


def _bits(xs):
    xs = list(xs)
    return "-" if not xs else ",".join(common.f2b(v) for v in xs)


def _unbits(s):
    return [] if s == "-" else [common.b2f(t) for t in s.split(",")]


def _close(a, b, rel=1e-12):
    if a == b or (a != a and b != b):
        return True
    if math.isinf(a) or math.isinf(b) or a != a or b != b:
        return False
    return abs(a - b) <= rel * max(abs(a), abs(b))


def _corr_linspace(ctx, n):
    import numpy as np
    ops, real = [], []
    r = ctx.rng
    for k in range(n):
        a = r.choice([1.0, 1.0, r.uniform(1, 2)])
        b = a + r.choice([0.0, r.uniform(0, 0.05), r.uniform(0, 2.5)])
        num = r.choice([0, 1, 2, 3, 10, 10, r.randint(0, 130)])
        ops.append("panth_linspace %s %s %d" % (common.f2b(a), common.f2b(b), num))
        real.append(_bits(np.linspace(a, b, num)))
        ctx.case(("linspace", a, b, num), nontrivial=num >= 2)
    out = common.model(ops)
    bad = [(o, x, y) for o, x, y in zip(ops, real, out) if x != y]
    for o, x, y in bad[:3]:
        ctx.disagree("corr:linspace", "%s: numpy=%s model=%s" % (o, x[:200], y[:200]))
    return len(ops), len(bad)


def _corr_cumtrapz(ctx, n):
    import numpy as np, scipy.integrate
    ops, real = [], []
    r = ctx.rng
    for k in range(n):
        m = r.choice([1, 2, 3, r.randint(1, 300)])
        xs = np.sort(np.array([r.uniform(1, 3.3) for _ in range(m)]))
        ys = np.array([r.uniform(0.001, 0.1) for _ in range(m)])
        ops.append("panth_cumtrapz %s %s" % (_bits(xs), _bits(ys)))
        real.append(list(scipy.integrate.cumulative_trapezoid(ys, x=xs, initial=0)))
        ctx.case(("cumtrapz", m, k), nontrivial=m >= 3)
    out = common.model(ops)
    nbad = 0
    exact = 0
    for o, x, y in zip(ops, real, out):
        y = _unbits(y)
        if len(x) != len(y) or not all(_close(float(p), q) for p, q in zip(x, y)):
            nbad += 1
            if nbad <= 3:
                ctx.disagree("corr:cumulative_trapezoid", "%s...: scipy=%r model=%r" % (o[:80], list(x)[:4], y[:4]))
        elif all(float(p) == q for p, q in zip(x, y)):
            exact += 1
    ctx.extra["cumtrapz_bit_exact"] = "%d/%d" % (exact, len(ops))
    return len(ops), nbad


def _eval(f, xs, params):
    import numpy as np
    xs = np.asarray(xs, dtype=float)
    v = f(xs, *params) if len(params) else f(xs)
    return np.broadcast_to(np.asarray(v, dtype=float), xs.shape)


def _run_script(ctx, fams, script):
    """script: list of ('C',) | ('P', zp1, fam index, params) | ('I', zp1, fam index, params).
    Runs it on one real instance; returns (op line, canonical real result list)."""
    import numpy as np
    inst = new_instance(ctx)
    cfg = "%s %d %s %s" % (common.f2b(inst.delta_z), int(inst.min_nz), common.f2b(1.0), common.f2b(inst.mu_const))
    toks, real = [], []
    for st in script:
        if st[0] == "C":
            inst.clear_data()
            toks.append("C"); real.append(("c",))
            continue
        kind, zp1, fi, params = st
        f, fint = fams[fi]
        z = np.array(zp1, dtype=float)
        a = np.atleast_1d(np.array(params, dtype=float)) if params else np.array([])
        if kind == "P":
            try:
                mu = np.atleast_1d(inst.get_pred(z, a, f))
                res = ("P", [float(v) for v in mu], [float(v) for v in inst.data_x], [int(v) for v in np.atleast_1d(inst.data_mask)])
            except Exception as e:
                res = ("err", type(e).__name__)
            pts = [] if inst.data_x is None else [float(v) for v in inst.data_x]
            vals = _eval(f, pts, list(a)) if pts else []
        else:
            try:
                mu = np.atleast_1d(inst.get_pred(z, a, fint, integrated=True))
                res = ("I", [float(v) for v in mu])
            except Exception as e:
                res = ("err", type(e).__name__)
            pts = sorted(set([1.0] + [float(v) for v in zp1]))
            vals = _eval(fint, pts, list(a))
        tab = "-" if not pts else ",".join("%s:%s" % (common.f2b(p), common.f2b(v)) for p, v in zip(pts, vals))
        toks.append("%s/%s/%s" % (kind, _bits(zp1), tab))
        real.append(res)
    return "panth_run %s %s" % (cfg, " ".join(toks)), real, float(inst.mu_const)


def _cmp_run(real, out, mu_const):
    """compare canonical real results with the model's output line; returns None or a description"""
    parts = out.split(";") if out else []
    if len(parts) != len(real):
        return "model returned %d step results for %d steps: %s" % (len(parts), len(real), out[:120])
    for k, (r, m) in enumerate(zip(real, parts)):
        f = m.split("/")
        if r[0] == "c":
            if m != "c":
                return "step %d: clear vs %s" % (k, m[:60])
        elif r[0] == "err":
            if m != "err":
                return "step %d: code raised %s, model gives %s" % (k, r[1], m[:80])
        elif f[0] != r[0]:
            return "step %d: code gives %s..., model gives %s" % (k, r[0], m[:80])
        else:
            mu_m = _unbits(f[1])
            if len(mu_m) != len(r[1]):
                return "step %d: %d predictions vs %d" % (k, len(r[1]), len(mu_m))
            for i, (p, q) in enumerate(zip(r[1], mu_m)):
                # 1e-12 relative on zp1*dL = 10^((mu - const)/5)
                if not (_close(p, q, 1e-15) or abs(p - q) <= 1e-12 * 5 / LN10 + 8e-15 * max(abs(p), abs(q), 1)):
                    return "step %d: mu[%d] code=%r model=%r" % (k, i, p, q)
            if r[0] == "P":
                if [common.f2b(v) for v in r[2]] != ([] if f[2] == "-" else f[2].split(",")):
                    g = _unbits(f[2])
                    return "step %d: data_x differs (code %d points, model %d points; first difference at %s)" % (
                        k, len(r[2]), len(g), next((i for i, (p, q) in enumerate(zip(r[2], g)) if p != q), min(len(g), len(r[2]))))
                if r[3] != ([] if f[3] == "-" else [int(t) for t in f[3].split(",")]):
                    return "step %d: data_mask code=%r model=%s" % (k, r[3][:12], f[3][:60])
    return None


def _corr_run(ctx, n):
    import numpy as np
    r = ctx.rng
    fam = _families()
    fams = []
    probe = new_instance(ctx)
    for fstr, npar, _, _, _, _ in fam:
        f, _, _ = lambdify(ctx, probe, fstr, npar, False)
        try:
            fi, integ, _ = lambdify(ctx, probe, fstr, npar, True)
        except Exception:
            fi, integ = None, False
        if integ:
            try:
                with warnings.catch_warnings():
                    warnings.simplefilter("ignore")
                    fi(np.array([1.5]), *fam_params_probe(fam, fstr, r))
            except NameError:
                integ = False                 # not a numpy function: the pipeline falls back to the numerical path
            except Exception:
                pass
        fams.append((f, fi if integ else None))
    ops, reals, consts = [], [], []
    shapes = {}
    for k in range(n):
        sh = r.choice(["P", "P", "PP", "PCP", "PCP", "PP1", "P1P", "PI", "PPsame", "E", "PCPC"])
        shapes[sh] = shapes.get(sh, 0) + 1
        fi = r.randrange(len(fam))
        params = fam[fi][2](r)
        A, _, _ = _sample(r, 200)
        B, _, _ = _sample(r, 200)
        one, _, _ = _sample(r, 1)
        one = one[:1]
        if sh == "P":
            script = [("P", A, fi, params)]
        elif sh == "PP":                       # stale cache, arbitrary second sample (usually a broadcast error)
            script = [("P", A, fi, params), ("P", B, fi, params)]
        elif sh == "PPsame":                   # stale cache, same length: old grid/mask silently reused
            B2 = (B * (len(A) // len(B) + 1))[:len(A)]
            script = [("P", A, fi, params), ("P", B2, fi, fam[fi][2](r))]
        elif sh == "PCP":
            script = [("P", A, fi, params), ("C",), ("P", B, fi, params)]
        elif sh == "PCPC":
            script = [("C",), ("P", A, fi, params), ("C",), ("C",), ("P", B, fi, fam[fi][2](r)), ("C",), ("P", one, fi, params)]
        elif sh == "PP1":
            script = [("P", A, fi, params), ("P", one, fi, params)]
        elif sh == "P1P":
            script = [("P", one, fi, params), ("P", B, fi, params)]
        elif sh == "PI":
            if fams[fi][1] is None:
                script = [("P", A, fi, params)]
            else:
                script = [("P", A, fi, params), ("I", A, fi, params), ("P", A, fi, params)]
        else:                                  # empty sample: ValueError before anything is cached; then a normal call
            script = [("P", [], fi, params), ("P", A, fi, params), ("P", [], fi, params)]
        with warnings.catch_warnings():
            warnings.simplefilter("ignore")
            with np.errstate(all="ignore"):
                op, real, mc = _run_script(ctx, fams, script)
        ops.append(op); reals.append(real); consts.append(mc)
        for st in script:
            if st[0] != "C":
                ctx.case(("run", fam[st[2]][0], tuple(st[3]), tuple(st[1])), nontrivial=len(set(st[1])) >= 2)
    out = common.model(ops)
    nbad = 0
    for op, real, o, mc in zip(ops, reals, out, consts):
        why = _cmp_run(real, o, mc)
        if why:
            nbad += 1
            if nbad <= 3:
                ctx.disagree("corr:get_pred", "%s | op=%s..." % (why, op[:300]))
    k = len(ops) // 2
    ctx.sample(dict(correspondence_op=ops[k][:160] + "...", code=str(reals[k])[:200], model=out[k][:200]))
    ctx.extra["corr_script_shapes"] = shapes
    return len(ops), nbad


def _corr_shipped(ctx):
    """constants: the model's shipped configuration vs the attributes the constructor's statements produce"""
    inst = new_instance(ctx)
    out = common.model(["panth_shipped", "panth_muconst"])
    dz, nz, st, mc = out[0].split()
    bad = 0
    ref = 5 * math.log10(299792.458 * 1e6 / 10.0)         # 5 log10(c / (1 km/s/Mpc) / 10 pc), independent arithmetic
    checks = [("delta_z", common.f2b(inst.delta_z) == dz), ("min_nz", int(inst.min_nz) == int(nz)), ("grid start", common.b2f(st) == 1.0),
              ("mu_const", _close(common.b2f(mc), inst.mu_const, 1e-13)), ("mu_const (driver op)", _close(common.b2f(out[1]), inst.mu_const, 1e-13)),
              ("mu_const vs 5log10(c/H0/10pc)", _close(ref, inst.mu_const, 1e-13))]
    for name, ok in checks:
        if not ok:
            bad += 1
            ctx.disagree("corr:constants", "%s: code=%r model=%s" % (name, dict(delta_z=inst.delta_z, min_nz=inst.min_nz, mu_const=inst.mu_const), out))
    ctx.extra["constants"] = dict(delta_z=inst.delta_z, min_nz=int(inst.min_nz), mu_const=inst.mu_const, mu_const_reference=ref)
    ctx.case("constants", nontrivial=True, n=len(checks))
    return len(checks), bad


# --------------------------------------------------------------------------------------------------------------------
# the property on the real code: independent oracle
# --------------------------------------------------------------------------------------------------------------------

def _g2(fam, x, p):
    """g = h^(-1/2);  g'' = 3/4 h^(-5/2) h'^2 - 1/2 h^(-3/2) h''"""
    h, h1, h2 = fam[3](x, p), fam[4](x, p), fam[5](x, p)
    return 0.75 * h ** -2.5 * h1 ** 2 - 0.5 * h ** -1.5 * h2


def _corr_g2(ctx, n):
    """zeta of the quadrature bound: the hand-written G'' (from the families' H^2, H^2', H^2'') against sympy's second derivative
    of 1/sqrt(eq), eq being the expression the REAL run_sympify returns for the family's function string."""
    import numpy as np, sympy
    from esr.fitting.sympy_symbols import x
    r = ctx.rng
    probe = new_instance(ctx)
    ops = bad = 0
    for fam in _families():
        fstr, npar = fam[0], fam[1]
        _, _, eq = lambdify(ctx, probe, fstr, npar, False)
        # 1+z > 0 and the unsigned families sample positive parameters: Abs/sign (e.g. sqrt((a0+x)^2)) reduce before differentiating
        xp = sympy.Symbol("xp", positive=True)
        # the signed families are drawn at BOTH signs: their parameters stay real (sqrt(a^2 x^2) must not become a x)
        ap = [sympy.Symbol("ap%d" % i, **({"real": True} if fstr in SIGNED else {"positive": True})) for i in range(npar)]
        sub = {x: xp}
        for sym in eq.free_symbols:
            if sym.name.startswith("a") and sym.name[1:].isdigit() and int(sym.name[1:]) < npar:
                sub[sym] = ap[int(sym.name[1:])]
        d2 = sympy.diff(1 / sympy.sqrt(eq.subs(sub)), xp, 2)
        args = xp if npar == 0 else [xp] + ap
        f2 = sympy.lambdify(args, d2, modules=["numpy"])
        for _ in range(n):
            p = fam[2](r)
            xs = np.array([r.uniform(1.0, 3.4) for _ in range(16)])
            want = np.broadcast_to(np.asarray(f2(xs, *p) if npar else f2(xs), dtype=float), xs.shape)
            got = np.broadcast_to(np.asarray(_g2(fam, xs, p), dtype=float), xs.shape)
            h, h1, h2 = fam[3](xs, p), fam[4](xs, p), fam[5](xs, p)
            scale = 0.75 * h ** -2.5 * h1 ** 2 + 0.5 * h ** -1.5 * np.abs(h2)
            ops += 1
            if not np.all(np.abs(want - got) <= 1e-9 * scale + 1e-300):
                bad += 1
                if bad <= 3:
                    k = int(np.argmax(np.abs(want - got)))
                    ctx.disagree("corr:g2", "%s a=%r x=%r: hand-written G''=%r, sympy d2/dx2 (1/sqrt(%s))=%r" % (fstr, p, float(xs[k]), float(got[k]), eq, float(want[k])))
        ctx.case(("g2", fstr), nontrivial=True, n=n)
    return ops, bad


ROUND_ULPS = 16          # analytic path: ulps of |F(1+z)| + |F(1)| granted to the subtraction F(1+z) - F(1)
ANA_REL = 1e-9           # analytic path vs quad: relative tolerance (plus twice quad's own error estimate)
MESH = 9                 # points per grid interval (end points included) on which |G''| is maximised
SAFETY = 1.05            # factor on the sampled maximum
STEP_DIV, STEP_MIN = 9.0, 1.0 / 25.0      # ESR.C19.grid_step_le_shipped:  h = max((lo - 1)/9, 1/25)


def _reference(fam, params, zp1, data_x):
    """Per data point: the integral of G = 1/sqrt(H^2) from 1 to zp1_i by quad, and the three bounds of Props/C19b.lean
    evaluated on the grid g = data_x THE REAL CODE BUILT, k_i = position of zp1_i in it:

      tight  sum_{j<k_i} zeta_j |g_{j+1}-g_j|^3 / 12        ESR.C19.trapezoid_error_le_per_interval_real
      zeta   zeta/12 * sum_{j<k_i} |g_{j+1}-g_j|^3            ESR.C19.trapezoid_error_le_real
      step   zeta * h^2 * (zp1_i - 1) / 12                    ESR.C19.dL_error_le_shipped_real, h = max((lo-1)/9, 1/25)

    zeta_j = SAFETY * max |G''| on MESH points of [g_j, g_{j+1}],  zeta = max_j zeta_j over the hull [1, max zp1].
    The theorems' hypotheses on the grid (strictly increasing, first point 1, every data point on it) are facts about the
    real data_x here; where one of them fails the bounds are formed, exactly as before these theorems existed, on the
    refinement {1} u zp1 u (data_x points between) - the grid a correct get_pred would have had at least."""
    import numpy as np, scipy.integrate
    g = lambda t: 1.0 / math.sqrt(float(fam[3](t, params)))
    uniq = sorted(set(zp1))
    dx = [] if data_x is None else [float(v) for v in np.atleast_1d(data_x)]
    posx = {v: i for i, v in enumerate(dx)}
    hyp = bool(dx) and dx[0] == 1.0 and all(p < q for p, q in zip(dx, dx[1:])) and all(v in posx for v in uniq)
    if hyp:
        pts = dx[:posx[uniq[-1]] + 1]
    else:
        pts = sorted(set([1.0] + uniq + [v for v in dx if 1.0 < v < uniq[-1]]))
    xs = np.array(pts)
    hk = np.diff(xs)
    h = max((uniq[0] - 1.0) / STEP_DIV, STEP_MIN)
    if len(hk):
        t = xs[:-1, None] + hk[:, None] * np.linspace(0, 1, MESH)[None, :]
        mk = SAFETY * np.max(np.abs(_g2(fam, t, params)), axis=1)
        zeta = float(np.max(mk))
        cb = np.concatenate(([0.0], np.cumsum(hk ** 3 / 12.0 * mk)))
        cz = np.concatenate(([0.0], zeta / 12.0 * np.cumsum(np.abs(hk) ** 3)))
        maxstep = float(np.max(hk))
    else:
        cb = cz = np.array([0.0])
        zeta, maxstep = 0.0, 0.0
    pos = {v: i for i, v in enumerate(pts)}
    # integral piecewise between consecutive distinct data points
    I, E = {}, {}
    acc, err, prev = 0.0, 0.0, 1.0
    for v in uniq:
        if v > prev:
            val, e = scipy.integrate.quad(g, prev, v, epsabs=0, epsrel=1e-13, limit=200)
            acc += val; err += e
        elif v < prev:
            val, e = scipy.integrate.quad(g, v, prev, epsabs=0, epsrel=1e-13, limit=200)   # 1+z < 1 (not generated)
            acc -= val; err += e
        prev = v
        I[v], E[v] = acc, err
    return dict(I=[I[v] for v in zp1], E=[E[v] for v in zp1],
                tight=[float(cb[pos[v]]) for v in zp1], zeta=[float(cz[pos[v]]) for v in zp1],
                step=[zeta * h * h * (v - 1.0) / 12.0 for v in zp1],
                k=[pos[v] for v in zp1], zeta_value=zeta, h=h, maxstep=maxstep, theorem_grid=hyp, npts=len(pts))


def _dl_from_mu(mu, zp1, mu_const):
    return 10.0 ** ((mu - mu_const) / 5.0) / zp1


def check_case(ctx, fam_index, params, zp1, zp1_b=None, record=True):
    """The property on one input; returns list of failure descriptions (and records them)."""
    import numpy as np
    fam = _families()[fam_index]
    fstr, npar = fam[0], fam[1]
    fails = []

    def fail(kind, what):
        fails.append(what)
        if record:
            ctx.fail("get_pred:%s:%s" % (kind, fstr), what,
                     dict(kind="case", fam=fam_index, fn=fstr, params=[float(p).hex() for p in params],
                          zp1=[float(v).hex() for v in zp1], zp1_b=None if zp1_b is None else [float(v).hex() for v in zp1_b]))

    def one(inst, z, f, tag):
        """numerical path on sample z; returns (mu, dL) or None"""
        zz = np.array(z, dtype=float)
        a = np.atleast_1d(np.array(params, dtype=float)) if npar else np.array([])
        try:
            with warnings.catch_warnings():
                warnings.simplefilter("ignore")
                mu = np.atleast_1d(np.asarray(inst.get_pred(zz, a, f), dtype=float))
        except Exception as e:
            fail(tag + "raises", "get_pred raises %s: %s for %s, a=%r, %d redshifts" % (type(e).__name__, e, fstr, list(params), len(z)))
            return None
        if mu.shape != (len(z),):
            fail(tag + "shape", "get_pred returns shape %r for %d redshifts (%s)" % (mu.shape, len(z), fstr))
            return None
        ref = _reference(fam, params, z, inst.data_x)
        I, B, E = ref["I"], ref["tight"], ref["E"]
        st = ctx.extra.setdefault("quadrature_bound", dict(
            theorems=dict(tight="ESR.C19.trapezoid_error_le_per_interval_real", zeta="ESR.C19.trapezoid_error_le_real",
                          step="ESR.C19.dL_error_le_shipped_real", grid_step="ESR.C19.grid_step_le_shipped"),
            ratio_is="max(0, |dL - quad| - (1e-12*|quad| + 2*quad_error_estimate)) / bound, over data points with bound > 0",
            cases_compared=0, points_compared=0, cases_on_theorem_grid=0, max_ratio=dict(tight=0.0, zeta=0.0, step=0.0),
            max_step_over_h=0.0, mesh_points_per_interval=MESH, safety_factor=SAFETY))
        st["cases_compared"] += 1
        st["points_compared"] += len(z)
        st["cases_on_theorem_grid"] += int(ref["theorem_grid"])
        if ref["h"] > 0:
            st["max_step_over_h"] = max(st["max_step_over_h"], round(ref["maxstep"] / ref["h"], 6))
        if ref["maxstep"] > ref["h"] * (1 + 1e-12):
            ctx.disagree("corr:grid-step", "%s, %d redshifts: data_x has a step %r below max(zp1) but grid_step_le_shipped proves <= %r "
                         "for the shipped constants" % (fstr, len(z), ref["maxstep"], ref["h"]))
        worst = None
        worst_step = None
        ratio = 0.0
        for i in range(len(z)):
            dl = float(_dl_from_mu(mu[i], z[i], inst.mu_const))
            slack = 1e-12 * abs(I[i]) + 2 * E[i]
            tol = B[i] + slack
            d = abs(dl - I[i])
            if not (d <= tol):
                if worst is None or d / tol > worst[0]:
                    worst = (d / tol, i, dl, I[i], tol)
            tol_s = ref["step"][i] * (1 + 1e-9) + slack
            if not (d <= tol_s):
                if worst_step is None or d / tol_s > worst_step[0]:
                    worst_step = (d / tol_s, i, dl, I[i], tol_s)
            over = max(0.0, d - slack) if d == d else float("inf")
            for name in ("tight", "zeta", "step"):
                if ref[name][i] > 0:
                    st["max_ratio"][name] = max(st["max_ratio"][name], round(over / ref[name][i], 4))
            if d <= tol and B[i] > 0:
                ratio = max(ratio, max(0.0, d - slack) / B[i])
        if worst is not None:
            _, i, dl, Ii, tol = worst
            fail(tag + "trapz-vs-quad",
                 "%s a=%r: prediction for 1+z=%r (index %d of %d) is mu=%r, i.e. integral %r, but quad gives %r "
                 "(mu_ref=%r); difference %.3e exceeds the trapezoid error bound of the grid %.3e "
                 "(sum_{j<%d} zeta_j |g_{j+1}-g_j|^3/12 on data_x, trapezoid_error_le_per_interval_real)"
                 % (fstr, list(params), z[i], i, len(z), float(mu[i]), dl, Ii,
                    5 * math.log10(z[i] * Ii) + inst.mu_const if Ii > 0 else float("-inf"), abs(dl - Ii), tol, ref["k"][i]))
        elif worst_step is not None:
            _, i, dl, Ii, tol = worst_step
            fail(tag + "trapz-vs-quad-shipped-step",
                 "%s a=%r: prediction for 1+z=%r (index %d of %d) is mu=%r, i.e. integral %r, but quad gives %r; difference %.3e "
                 "exceeds zeta h^2 (zp1-1)/12 = %.3e with zeta=%.4g, h=max((lo-1)/9, 1/25)=%.4g (dL_error_le_shipped_real); "
                 "largest step of data_x below max(zp1): %.4g"
                 % (fstr, list(params), z[i], i, len(z), float(mu[i]), dl, Ii, abs(dl - Ii), tol, ref["zeta_value"], ref["h"], ref["maxstep"]))
        ctx.extra["max_error_over_bound"] = max(ctx.extra.get("max_error_over_bound", 0.0), round(ratio, 4))
        return mu, I, B, E

    inst = new_instance(ctx)
    f, _, _ = lambdify(ctx, inst, fstr, npar, False)
    got = one(inst, zp1, f, "")
    nontriv = len(set(zp1)) >= 2
    ctx.case(("quad", fstr, tuple(params), tuple(zp1)), nontrivial=nontriv)
    # analytic path vs numerical path
    integ, fi, eq = False, None, None
    if got is not None:
        mu, I, B, E = got
        try:
            fi, integ, eq = lambdify(ctx, inst, fstr, npar, True)
        except Exception as e:
            fi, integ = None, False
        ctx.extra.setdefault("analytic", {})[fstr] = bool(integ)
        if integ:
            a = np.atleast_1d(np.array(params, dtype=float)) if npar else np.array([])
            try:
                with warnings.catch_warnings():
                    warnings.simplefilter("ignore")
                    zin = np.array(zp1, dtype=float)
                    mua = np.atleast_1d(np.asarray(inst.get_pred(zin, a, fi, integrated=True), dtype=float))
                if not np.array_equal(zin, np.array(zp1, dtype=float)):
                    fail("analytic-mutates-input", "%s a=%r: get_pred(..., integrated=True) changed the redshift sample it was given: %r became %r"
                         % (fstr, list(params), list(zp1)[:6], zin[:6].tolist()))
                if mua.shape != (len(zp1),):
                    fail("analytic-shape", "integrated get_pred returns shape %r for %d redshifts (%s)" % (mua.shape, len(zp1), fstr))
                    mua = np.full(len(zp1), float("nan"))
                # floating-point cancellation in F(1+z) - F(1) (rounding is outside the property: exact arithmetic in the theorems):
                # a few ulps of the two values that are subtracted
                with np.errstate(all="ignore"):
                    rnd = ROUND_ULPS * 2.3e-16 * (np.abs(_eval(fi, zp1, list(a))) + abs(float(_eval(fi, [1.0], list(a))[0])))
                rnd = np.where(np.isfinite(rnd), rnd, 0.0)
                for i in range(len(zp1)):
                    da = float(_dl_from_mu(mua[i], zp1[i], inst.mu_const))
                    dn = float(_dl_from_mu(mu[i], zp1[i], inst.mu_const))
                    tol = B[i] + 1e-11 * abs(I[i]) + 2 * E[i] + rnd[i]
                    if not (abs(da - dn) <= tol):
                        fail("analytic-vs-numeric",
                             "%s a=%r at 1+z=%r: analytic path mu=%r (integral %r), numerical path mu=%r (integral %r); quad %r; "
                             "difference %.3e exceeds the trapezoid bound %.3e" % (fstr, list(params), zp1[i], float(mua[i]), da, float(mu[i]), dn, I[i], abs(da - dn), tol))
                        break
                # ... and against the defining integral itself (analytic_dL_eq_integral: no quadrature error on this path)
                st = ctx.extra.setdefault("analytic_vs_quad", dict(theorem="ESR.C19.analytic_dL_eq_integral", cases=0, points=0,
                                                                    cases_with_a_negative_parameter=0, max_rel_err=0.0))
                st["cases"] += 1; st["points"] += len(zp1); st["cases_with_a_negative_parameter"] += int(any(v < 0 for v in params))
                for i in range(len(zp1)):
                    da = float(_dl_from_mu(mua[i], zp1[i], inst.mu_const))
                    tol = ANA_REL * abs(I[i]) + 2 * E[i] + rnd[i]
                    if abs(da - I[i]) <= tol:
                        if I[i]:
                            st["max_rel_err"] = max(st["max_rel_err"], float("%.3g" % (abs(da - I[i]) / abs(I[i]))))
                        continue
                    fail("analytic-vs-quad",
                         "%s a=%r at 1+z=%r (index %d of %d): get_pred(integrated=True) gives mu=%r, i.e. dL = F(1+z)-F(1) = %r with F = %s, but the "
                         "defining integral int_1^{1+z} dx/sqrt(H^2) is %r (quad; mu_ref=%r; numerical path mu=%r)"
                         % (fstr, list(params), zp1[i], i, len(zp1), float(mua[i]), da, str(eq)[:160], I[i],
                            5 * math.log10(zp1[i] * I[i]) + inst.mu_const if I[i] > 0 else float("-inf"), float(mu[i])))
                    break
            except NameError as e:
                # sympy's antiderivative uses a function numpy does not implement (meijerg, hyper, ...): the pipeline
                # (test_all.py:286-289, 385-395) catches exactly this and repeats the fit on the numerical path
                ctx.extra["analytic"][fstr] = "unavailable in numpy (%s): pipeline falls back to the numerical path" % e
            except Exception as e:
                fail("analytic-raises", "integrated get_pred raises %s: %s (%s)" % (type(e).__name__, e, fstr))
            ctx.case(("analytic", fstr, tuple(params), tuple(zp1)), nontrivial=nontriv)
    # cache: after clear_data a different sample is predicted from its own grid
    if zp1_b is not None:
        inst.clear_data()
        gb = one(inst, zp1_b, f, "after-clear:")
        fresh = new_instance(ctx)
        with warnings.catch_warnings():
            warnings.simplefilter("ignore")
            try:
                muf = np.atleast_1d(np.asarray(fresh.get_pred(np.array(zp1_b, dtype=float),
                                                              np.atleast_1d(np.array(params, dtype=float)) if npar else np.array([]), f), dtype=float))
            except Exception:
                muf = None
        if gb is not None and muf is not None:
            same = gb[0].shape == muf.shape and all((p == q) or (p != p and q != q) for p, q in zip(gb[0], muf))
            dx = inst.data_x
            contains = dx is not None and all(np.any(np.asarray(dx) == v) for v in zp1_b)
            if not same or not contains:
                fail("after-clear:cache-not-rebuilt",
                     "%s: get_pred(A) [%d redshifts]; clear_data(); get_pred(B) [%d redshifts] %s"
                     % (fstr, len(zp1), len(zp1_b), "differs from a fresh instance's get_pred(B)" if not same
                        else "leaves a data_x that does not contain B's redshifts"))
        # the analytic path after clear_data, on the other sample (it neither reads nor writes the cache)
        if gb is not None and integ and not isinstance(ctx.extra.get("analytic", {}).get(fstr), str):
            try:
                with warnings.catch_warnings():
                    warnings.simplefilter("ignore")
                    a = np.atleast_1d(np.array(params, dtype=float)) if npar else np.array([])
                    mub = np.atleast_1d(np.asarray(inst.get_pred(np.array(zp1_b, dtype=float), a, fi, integrated=True), dtype=float))
                if mub.shape != (len(zp1_b),):
                    mub = np.full(len(zp1_b), float("nan"))
                with np.errstate(all="ignore"):
                    rnd = ROUND_ULPS * 2.3e-16 * (np.abs(_eval(fi, zp1_b, list(a))) + abs(float(_eval(fi, [1.0], list(a))[0])))
                rnd = np.where(np.isfinite(rnd), rnd, 0.0)
                for i in range(len(zp1_b)):
                    db = float(_dl_from_mu(mub[i], zp1_b[i], inst.mu_const))
                    if not (abs(db - gb[1][i]) <= ANA_REL * abs(gb[1][i]) + 2 * gb[3][i] + rnd[i]):
                        fail("analytic-after-clear-vs-quad", "%s a=%r: after clear_data(), get_pred(integrated=True) at 1+z=%r gives dL=%r (mu=%r), the defining "
                             "integral is %r" % (fstr, list(params), zp1_b[i], db, float(mub[i]), gb[1][i]))
                        break
                if inst.data_x is None or not all(np.any(np.asarray(inst.data_x) == v) for v in zp1_b):
                    fail("analytic-touches-cache", "%s: integrated get_pred after the numerical one changed the cached grid" % fstr)
            except Exception as e:
                fail("analytic-raises", "integrated get_pred raises %s: %s (%s, after clear_data)" % (type(e).__name__, e, fstr))
        ctx.case(("clear", fstr, tuple(params), tuple(zp1), tuple(zp1_b)), nontrivial=nontriv)
    return fails


def check_contract(ctx, fam_index, params, xs, record=True):
    """The named hypothesis of Props/C19c.lean, `ESR.C19.AntiderivativeContract G P b`, on the REAL objects: P = the expression the real
    run_sympify(try_integration=True) returned for the family's function string (as a function of x at these parameter values),
    G = 1/sqrt(H^2) from the hand-written H^2.  P' is formed (i) by sympy.diff of the expression, evaluated with numpy, and (ii) by
    central differences of the very lambdified function get_pred is given.  Returns the list of failures (recorded as failing inputs
    together with the mu mismatch they cause)."""
    import numpy as np, sympy, scipy.integrate
    from esr.fitting.sympy_symbols import x
    fam = _families()[fam_index]
    fstr, npar = fam[0], fam[1]
    inst = new_instance(ctx)
    try:
        fi, integ, F = lambdify(ctx, inst, fstr, npar, True)
    except Exception:
        return None
    if not integ:
        return None
    xs = np.array(xs, dtype=float)
    g = 1.0 / np.sqrt(np.broadcast_to(np.asarray(fam[3](xs, params), dtype=float), xs.shape))
    fails = []
    with warnings.catch_warnings():
        warnings.simplefilter("ignore")
        with np.errstate(all="ignore"):
            try:
                Fx = _eval(fi, xs, list(params))
            except NameError:
                return None                       # not a numpy function: the pipeline falls back to the numerical path
            key = (fstr, "dF")
            if key not in _SYMPIFY:
                try:
                    syms = list(sympy.symbols(" ".join("a%d" % i for i in range(npar)), real=True, seq=True)) if npar else []
                    _SYMPIFY[key] = sympy.lambdify([x] + syms, sympy.diff(F, x), modules=["numpy"])
                except Exception as e:
                    _SYMPIFY[key] = None
            how = []
            if _SYMPIFY[key] is not None:
                try:
                    how.append(("sympy.diff of the returned expression", _eval(_SYMPIFY[key], xs, list(params)), 1e-9 * g))
                except Exception:
                    pass
            e = 1e-6
            num = (_eval(fi, xs * (1 + e), list(params)) - _eval(fi, xs * (1 - e), list(params))) / (2 * e * xs)
            how.append(("central differences of the lambdified function", num, 1e-5 * g + 8 * 2.3e-16 * np.abs(Fx) / (e * xs)))
    for name, d, tol in how:
        bad = ~(np.abs(d - g) <= tol)
        if np.any(bad):
            k = int(np.argmax(np.where(bad, np.abs(d - g) / g, 0)))
            xb = float(xs[k])
            # the mu mismatch this causes on the real get_pred at the single redshift 1+z = x
            zz = max(xb, 1.0 + 1e-3)
            a = np.atleast_1d(np.array(params, dtype=float)) if npar else np.array([])
            with warnings.catch_warnings():
                warnings.simplefilter("ignore")
                with np.errstate(all="ignore"):
                    try:
                        mua = float(np.atleast_1d(inst.get_pred(np.array([zz]), a, fi, integrated=True))[0])
                    except Exception as ex:
                        mua = "raises %s" % type(ex).__name__
                    I = scipy.integrate.quad(lambda t: 1.0 / math.sqrt(float(fam[3](t, params))), 1.0, zz, epsabs=0, epsrel=1e-13)[0]
            what = ("%s a=%r: the antiderivative run_sympify returned, F = %s, violates the contract of ESR.C19.AntiderivativeContract at x=%r: "
                    "dF/dx = %r (%s) but 1/sqrt(H^2) = %r; consequently get_pred(integrated=True) at 1+z=%r gives mu=%r whereas the defining "
                    "integral gives mu=%r" % (fstr, list(params), str(F)[:160], xb, float(d[k]), name, float(g[k]), zz, mua,
                                              5 * math.log10(zz * I) + inst.mu_const if I > 0 else float("-inf")))
            fails.append(what)
            if record:
                ctx.fail("get_pred:antiderivative-contract:%s" % fstr, what,
                         dict(kind="contract", fn=fstr, fam=fam_index, params=[float(v).hex() for v in params], xs=[float(v).hex() for v in xs]))
            break
    return fails


def _contract(ctx, n):
    """check_contract over every family run_sympify integrates, every sign pattern of the signed ones, n parameter draws each"""
    r = ctx.rng
    fams = _families()
    st = dict(hypothesis="ESR.C19.AntiderivativeContract", used_by=["ESR.C19.analytic_dL_eq_integral", "ESR.C19.analytic_mu_eq_defining_integral",
                                                                    "ESR.C19.analytic_path_agrees_with_numeric_partial"],
              functions_checked=0, functions_not_integrated=[], parameter_vectors=0, with_a_negative_parameter=0, points=0, failed=0)
    for fi, fam in enumerate(fams):
        done = False
        for sg in _sign_patterns(fam):
            for _ in range(n):
                params = fam[2](r) if sg is None else fam[2](r, sg)
                xs = [1.0] + [r.uniform(1.0, 3.4) for _ in range(14)] + [3.4]
                res = check_contract(ctx, fi, params, xs)
                if res is None:
                    break
                done = True
                st["parameter_vectors"] += 1; st["points"] += len(xs); st["with_a_negative_parameter"] += int(any(v < 0 for v in params))
                st["failed"] += int(bool(res))
                ctx.case(("contract", fam[0], tuple(params)), nontrivial=True, n=len(xs))
            if not done:
                break
        if done:
            st["functions_checked"] += 1
        else:
            st["functions_not_integrated"].append(fam[0])
    ctx.extra["antiderivative_contract"] = st
    if st["functions_checked"] == 0 or st["with_a_negative_parameter"] == 0:
        ctx.disagree("hyp:AntiderivativeContract", "the hypothesis of analytic_dL_eq_integral was checked on no antiderivative at a negative parameter "
                     "value (run_sympify integrated %d functions of the family)" % st["functions_checked"])
    return st["parameter_vectors"], 0


def _oracle_signed(ctx, reps):
    """the signed families at EVERY sign pattern of their parameters: numerical path vs quad, analytic path vs numerical path and vs
    quad, sorted/unsorted/duplicated samples, and again after clear_data on another sample"""
    r = ctx.rng
    fams = _families()
    per = {}
    for fi, fam in enumerate(fams):
        if fam[0] not in SIGNED:
            continue
        for sg in _sign_patterns(fam):
            for k in range(reps):
                params = fam[2](r, sg)
                A, _, _ = _sample(r, 40, allow_one=False)
                B, _, _ = _sample(r, 25, allow_one=False)
                check_case(ctx, fi, params, A, B)
                per[fam[0]] = per.get(fam[0], 0) + 1
    ctx.extra["oracle_signed_cases_per_family"] = per


def _oracle(ctx, n):
    r = ctx.rng
    fam = _families()
    per = {}
    for k in range(n):
        fi = k % len(fam) if k < 2 * len(fam) else r.randrange(len(fam))
        params = fam[fi][2](r)
        A, modeA, orderA = _sample(r, 200 if k % 3 else 40, allow_one=False)
        B = None
        if k % 2 == 0:
            B, _, _ = _sample(r, 60, allow_one=False)
        fails = check_case(ctx, fi, params, A, B)
        per[fam[fi][0]] = per.get(fam[fi][0], 0) + 1
        if k < 3:
            ctx.sample(dict(oracle_case=fam[fi][0], params=params, n=len(A), distribution=modeA, order=orderA,
                            zp1_head=A[:4], after_clear_n=None if B is None else len(B), failures=len(fails)))
    ctx.extra["oracle_cases_per_family"] = per


# --------------------------------------------------------------------------------------------------------------------

def run(ctx):
    drift = extract.drifted(ctx.proof.get("extract", {}), MODELLED)
    deep = (not ctx.quick) or bool(drift)
    ctx.extra["source_drift"] = drift
    res = {}
    import esr.fitting.likelihood as lk
    P = lk.PanthLikelihood
    with LineCov([P.get_pred, P.clear_data, P.run_sympify]) as cov:
        for name, fn, size in (("constants", _corr_shipped, None), ("linspace", _corr_linspace, 3000 if deep else 400),
                               ("cumulative_trapezoid", _corr_cumtrapz, 600 if deep else 80), ("get_pred", _corr_run, 1500 if deep else 160),
                               ("G''_vs_sympy", _corr_g2, 40 if deep else 8), ("antiderivative_contract", _contract, 8 if deep else 3)):
            try:
                res[name] = fn(ctx) if size is None else fn(ctx, size)
            except Exception as e:
                ctx.disagree("corr:%s" % name, "correspondence could not run: %r" % (e,))
                res[name] = (0, 1)
        _oracle_signed(ctx, 6 if deep else 2)
        _oracle(ctx, 1500 if deep else 150)
    ctx.extra["anchored_line_coverage"] = cov.report()
    ctx.extra["corr_obligations"] = len(res)
    ctx.extra["corr_discharged"] = sum(1 for v in res.values() if v[1] == 0)
    ctx.extra["correspondence"] = {k: dict(ops=v[0], mismatches=v[1]) for k, v in res.items()}
    ctx.extra["exhaustive"] = False
    ctx.extra["not_proved"] = ["floating-point rounding of the trapezoid sums (the theorems are over the reals)",
                               "sympy.integrate on the analytic path: its contract is the hypothesis ESR.C19.AntiderivativeContract, checked at run time "
                               "(extra.antiderivative_contract), and the path is tested against the numerical path and quad"]
    qb = ctx.extra.get("quadrature_bound")
    if qb:
        ctx.extra["max_error_over_theorem_bound"] = max(qb["max_ratio"].values())
        ctx.extra["quad_cases_compared"] = qb["cases_compared"]
    ctx.extra["families"] = [f[0] for f in _families()]


def replay(ctx, data):
    rp = data["replay"]
    un = lambda l: None if l is None else [float.fromhex(v) for v in l]
    names = [f[0] for f in _families()]
    fi = names.index(rp["fn"]) if rp.get("fn") in names else rp["fam"]
    if rp.get("kind") == "contract":
        fails = check_contract(ctx, fi, un(rp["params"]), un(rp["xs"]), record=False) or []
        for f in fails:
            print("  " + f)
        return not fails
    fails = check_case(ctx, fi, un(rp["params"]), un(rp["zp1"]), un(rp.get("zp1_b")), record=False)
    for f in fails:
        print("  " + f)
    return not fails
