"""C20 — fitting a single tree agrees with the library pipeline and the closed form."""
import contextlib, csv, io, itertools, json, math, os, re, shutil, sys, time, types
import numpy as np
import common, extract, libgen, fitlib, oracle_mdl

LEAN_MODULE = ["ESRVerif.Props.C20", "ESRVerif.Props.C20b", "ESRVerif.Props.C20c"]
LEVEL = "other"
LEVEL_TEXT = ("Partial proof. (1) Decided in Lean on tables regenerated from fit_single.single_function by symbolic execution (values named by the routine and result "
              "index they come from, not by local variable; per path of the flags is_mse / return_params / verbose): the first returned value is element 1 of the Fisher "
              "routine's result, the returned description length is the left-nested sum, in source "
              "order, of the likelihood term and the parameter code length returned by ONE call of the Fisher routine and the tree code length; the three "
              "routines are the pipeline's own (optimise_fun of the fitting stage, convert_params of the Fisher stage, aifeyn_complexity of the generator), so "
              "the theorems of C10, C07 and C08 (incl. single_function_agrees) apply to the single-tree API verbatim. (2) Proved in Lean (Props/C20b, unbounded): "
              "fisher_vs_match_identity_chain - the pipeline's row for a tree that is its own unique function is computed by a SECOND copy of the snapping / "
              "code-length logic (match.py) from the raw fitted (theta, nll) and the Hessian diagonal the Fisher stage stored in derivs; over the hand models of "
              "both routines (C07, C05), for positive finite curvature and under hfin (the likelihood at the snapped parameters is finite - true for every tree "
              "linear in its parameters), the matching-stage row carries exactly the Fisher stage's reported parameters (zeros included), likelihood and code "
              "length, both routines on corresponding branches; the two models' number structures are identified by an explicit translation proved to commute "
              "with every operation used; identity_conv_reads_fisher_diag: what simplifier.convert_params reads back from derivs at the identity chain is the "
              "Fisher stage's Fisher_diag; hfin_needed: without hfin the statement is false (match.py alone has the 'infinite nll' branch: the pipeline row's code "
              "length exceeds the single API's by 0.5*ln(12/(theta^2 F))), reproduced on the real routines on every run. Tied to the code by a direct differential "
              "run of the two REAL routines on the same inputs (real test_all_Fisher.convert_params, its outputs written in the stage file formats, real "
              "match.main on a library of own-unique functions), independent of the optimiser. NOT proved: that two independent "
              "optimiser runs reach the same optimum (MinimiserSpec) - sampled on every run: the single-tree API (labels entry point and formula-string "
              "entry point) against the pipeline's rows for the same trees and against the closed-form value for trees linear in their parameters, "
              "and the exact-sum identity on the values the API itself reports and on the values the traced routines returned inside the call; trees with integer "
              "constants (repeated ones included) and data sets built so that one parameter is snapped to zero are fitted through both entry points too; step (4) "
              "(tree code length) is compared with k ln n + sum ln|c| and with the Lean model on PRNG label lists. (3) Proved in Lean (Props/C20c) over the model of the composition "
              "single_function = optimise_fun ; convert_params ; aifeyn_complexity ; sum (Model/SingleFit over C10's Model/Optim) and the optimiser table REGENERATED from test_all.py, which carries per "
              "(parameter-count arm, log_opt) whether the optimisation ran in linear or log10 space (flag_three: its initial expression evaluated for the arm, or-ed with the assignments on the arm's path): "
              "flag_per_option_setting / findBranch_flag - the flag says linear exactly outside (log_opt and <= 2 parameters), for every nparam; fisher_input_is_backtransformed - for every row of the table "
              "(arm x log_opt x sign branch) and both back-transformations (normal exit, timeout handler) the vector handed to the Fisher/code-length routine is sign_i*10**x_i exactly when the arm ran in "
              "log space and x itself exactly when it ran in linear space, and it is the point chi2_fcn evaluated the likelihood at; single_terms_at_reported_point - whenever single_function returns, its "
              "three values come from ONE call of the Fisher routine on exactly the (theta, chi2) optimise_fun returned, and under MinimiserSpec nll(theta) = chi2 in every option setting; "
              "backtransform_flag_needed (+ wrong_flag_reports_optimiser_vector, wrong_flag_row_rejected) - with the flag wrong for (log_opt, two parameters) the reported parameters are log10|a| and do not "
              "reproduce the reported value (concrete instance). Tied to the code by a scripted-minimiser run of the REAL single_function (test_all.minimize replaced by a PRNG-scripted oracle, the Fisher "
              "routine by a recorder) against the model through the line protocol (op singlefit): returned (nll, DL, params) and the (theta, chi2) handed on, log_opt x 0..3 parameters. Sampled on the "
              "unmodified code over the option space the property quantifies over: log_opt in {False, True} x 0, 1, 2, 3 parameters x every sign pattern of the true parameters x both entry points, each "
              "against the closed form, against the pipeline stages (real test_all.main -> test_all_Fisher.main -> match.main on a library holding the tree as its own unique function) run under the SAME "
              "options, and 'the reported parameters reproduce the reported NLL' with an independent likelihood.")
TECHNIQUE = ("Lean 4 decision over the regenerated assembly of single_function + Lean 4 proof that the Fisher-stage and matching-stage copies of the snapping / "
             "code-length logic coincide on the identity chain (hand models of C07/C05) + differential runs of the two real routines on the same inputs + "
             "differential runs single API vs pipeline vs closed form over log_opt x parameter count x sign pattern x entry point + Lean 4 proof over the regenerated optimiser table that the "
             "single-tree API hands the back-transformed optimum to the Fisher routine + scripted-minimiser correspondence of the real single_function with that model")
RULE = ("one case = one (data set, tree) fitted through single_function and fit_from_string, compared with the pipeline row of the same line and the closed form; "
        "non-trivial = the tree has >=1 parameter, is linear in them and is not within 5% of a snapping threshold; distinct by (data seed, tree) - library trees, "
        "integer-constant trees and designed snapped-parameter data sets.  Step (4): one case = one PRNG label list through aifeyn_complexity as single_function calls it, "
        "non-trivial = it holds an integer or a parameter.  "
        "Fisher-vs-match: one case = one (data set, linear model, theta) pushed through the real convert_params and then, via the stage files, through the real "
        "match.main; distinct by (number of parameters, basis functions, per-coordinate threshold class and sign); non-trivial = at least one parameter.  "
        "Option space: one case = one (tree with 0..3 parameters, data set whose weighted-least-squares solution is a drawn point of a given sign pattern, log_opt) fitted through single_function, "
        "fit_from_string and the pipeline stages under the same options; distinct by (formula, log_opt, sign pattern, numpy seed); non-trivial = at least one parameter.  "
        "Scripted single_function: one case = one (tree, log_opt, Niter, Nconv, scripted sequence of minimiser outcomes incl. NaN/inf/ties/exceptions); non-trivial = the loop was entered")
EXPLANATION = LEVEL_TEXT
TRUSTED = ["harness/oracle_mdl.py (closed form)", "harness/extractors/single.py + harness/extractors/_norm_c20.py (symbolic reading of single_function; normalisations N1-N8 of its docstring: "
           "local names/temporaries replaced by the value they hold, tuple/chained/unpacking assignment, conditional expression vs if/else and result variable vs early return (per-path returned value), "
           "not/and/or/bool() of flag parameters, import spelling of a callee, one level of straight-line helper/closure inlining, print/pass/docstrings without value; sums keep order and association)",
           "hand models ESRVerif/Model/Codelen.lean and ESRVerif/Model/Match.lean (tied to the code by the correspondences of C07 and C05, and here by the direct "
           "differential run of the two real routines)", "'%.7e' text round-off between stages (decisions compared exactly away from |Nsteps-1| < 1e-6 and at exactly "
           "representable thresholds; magnitudes to 1e-6)",
           "hand models ESRVerif/Model/Optim.lean (C10's model of optimise_fun's selection loop and back-transformation) and ESRVerif/Model/SingleFit.lean (steps 2-5 of single_function), tied by the "
           "scripted-minimiser correspondences of C10 (optimise_fun) and of this check (single_function: exact on the likelihood term, 1e-12 on DL, 1e-9 on parameters)",
           "harness/extractors/optim.py (sign table, flag_three per (arm, log_opt), comparison operators, constants, back-transformation)",
           "scipy.optimize.minimize(method=BFGS) - not modelled; sampled against the closed form"]
ASSUMPTIONS = ["MinimiserSpec (numerical): sampled with tolerance 5e-3 in NLL/DL",
               "option space: true parameters with log10|p| in [0.1, 1.5] (inside the search box pmin=0, pmax=3 of test_all.main, handed to the single API too), Niter=30, Nconv=5 (defaults of single_function, "
               "handed to the pipeline stage as Niter_params=[30], Nconv_params=[5]); data sets on which no parameter is within 5% of its snapping threshold; 'reported parameters reproduce the reported NLL' to 1e-7 relative",
               "single_terms_at_reported_point: MinimiserSpec (scipy returns fun = objective(x) and x of the length of the start point); returned value below the 1e100 threshold; nparam >= 1", "the formula-string entry point is compared on formulas whose conversion returns the same label list",
               "fisher_vs_match_identity_chain: hfin (snapping never makes the likelihood infinite) - holds for every tree linear in its parameters with a Gaussian likelihood; "
               "positive finite Hessian diagonal; sympy/numpy at the identity chain (empty substitution loop, identity Jacobian) return (theta, diag) unchanged - checked by the differential run",
               "the matching stage reads negloglike_comp<n>.dat (optimiser output) and derivs_comp<n>.dat (Fisher stage), never the Fisher stage's reported parameters (codelen_comp<n>_deriv.dat has no reader)"]
# tables whose committed version may stand in as a hand-written model when the translator cannot read the source;
# value = the correspondence that then ties it to the code (common.prove / common.decide)
FALLBACK = {'Aifeyn': "real aifeyn_complexity vs the Lean model (op aifeyn) and vs k ln n + sum ln|c|: on the (labels, param_list) single_function itself passes (traced) and "
                      "on PRNG label lists with repeated/negative/zero integers called as step (4) of single_function calls it (corr:aifeyn-step4, tree-codelen)",
            'Codelen': "the statement of fisher_vs_match_identity_chain checked directly on the two REAL routines (real convert_params -> stage files -> real match.main, exact-threshold rows "
                       "included; fisher-vs-match:*), and hfin_needed's predicted difference on the real routines (corr:hfin_needed); the model-vs-code comparison of this table is C07's",
            'Match': "as Codelen (the same differential run drives the real match.main); the model-vs-code comparison of this table is C05's",
            'Optim': "real single_function under a scripted minimiser vs the Lean model (op singlefit: what is handed to the Fisher routine, returned nll / DL / parameters; corr:singlefit-scripted) at "
                     "escalated depth, plus the option-space runs (log_opt x 0..3 parameters x sign patterns) against the closed form; the model-vs-code comparison of this table is C10's",
            'Single': "the real routines traced inside the real single_function (optimise_fun, run_sympify, convert_params, aifeyn_complexity wrapped wherever fit_single reaches them): "
                      "order of the calls = theorem call_order, returned nll bit-identical to convert_params(...)[1], returned DL bit-identical to (cp[1] + cp[3]) + aifeyn_complexity(...) "
                      "(corr:single-trace), on library trees and integer-constant trees, plus single API vs closed form vs pipeline row"}
MODELLED = ["fit_single.py:single_function", "fit_single.py:fit_from_string", "test_all_Fisher.py:convert_params", "match.py:main", "test_all.py:optimise_fun", "test_all.py:chi2_fcn"]

TOL = 5e-3
BASIS = [["x", "a"], ["inv"], ["+", "*", "-", "/", "pow"]]


def _parse_verbose(out):
    vals = {}
    for key, pat in (("nll", r"Residuals:\s*([-\d.e+naif]+)"), ("codelen", r"Parameter:\s*([-\d.e+naif]+)"), ("aifeyn", r"Function:\s*([-\d.e+naif]+)"), ("DL", r"Description length:\s*([-\d.e+naif]+)")):
        m = re.findall(pat, out)
        if m:
            try:
                vals[key] = float(m[-1])
            except ValueError:
                pass
    return vals


# =====================================================================================================================
# Fisher stage vs matching stage on the identity chain: the two REAL routines on the same inputs (no optimiser)
# =====================================================================================================================

FVM_SET = "verif_c20b"
FVM_MAXP = 4
FVM_BASES = ["x", "1", "x**2", "inv(x)", "sqrt(x)"]
FVM_CLASSES = {"zero": [0.0], "below": [1e-6, 0.05, 0.3, 0.9], "near-": [1 - 1e-4, 1 - 1e-3], "near+": [1 + 1e-4, 1 + 1e-3], "above": [1.1, 3.0, 100.0]}
FVM_EXACT_F = [12.0, 3.0, 48.0, 0.75, 192.0]            # sqrt(12/F) is exact: 1, 2, 0.5, 4, 0.25
FVM_BAND = 1e-6                                          # |Nsteps-1| below this: the '%.7e' round-off of derivs may move the decision


def _r7(v):
    return float("%.7e" % v)


def _fvm_basis(b, x):
    return {"x": x, "1": np.ones_like(x), "x**2": x * x, "inv(x)": 1.0 / x, "sqrt(x)": np.sqrt(x)}[b]


def _fvm_fcn(bases):
    return "+".join(("a%d" % i) if b == "1" else "a%d*%s" % (i, b) for i, b in enumerate(bases))


def _fvm_dataset(rng):
    N = rng.randint(5, 30)
    x = sorted(round(rng.uniform(0.3, 4.0), 6) for _ in range(N))
    s0 = 10.0 ** rng.uniform(-1.5, 1.0)
    s = [s0] * N if rng.random() < 0.5 else [round(s0 * rng.uniform(0.5, 2.0), 8) for _ in range(N)]
    y = [round(0.8 * xi + 0.3 + si * rng.gauss(0, 1), 8) for xi, si in zip(x, s)]
    return dict(x=x, y=y, s=s)


def _fvm_cases(rng, data, count, nexact):
    """linear-in-parameter Gaussian models, theta placed per coordinate below / near / above the snapping threshold"""
    x, sg = np.array(data["x"]), np.array(data["s"])
    cases = []
    for t in range(count):
        n = rng.choice([1, 2, 2, 3, 3])
        bases = rng.sample(FVM_BASES, n)
        F = [float(np.sum(_fvm_basis(b, x) ** 2 / sg ** 2)) for b in bases]
        exact = t < nexact
        cls, theta, Fset = [], [], []
        for i in range(n):
            sgn = rng.choice([-1.0, 1.0])
            if exact:
                # curvature forced to a value with exact square roots and an exact '%.7e' image; theta at / next to the threshold
                Fi = rng.choice(FVM_EXACT_F)
                c = rng.choice(["at", "at", "at-", "at+", "below", "above"])
                m = {"at": 1.0, "at-": 1 - 1e-6, "at+": 1 + 1e-6, "below": 0.3, "above": 4.0}[c]
                th = sgn * m * math.sqrt(12.0 / Fi)
                Fset.append(Fi)
            else:
                c = rng.choice(["zero", "below", "below", "near-", "near+", "above", "above"])
                th = sgn * rng.choice(FVM_CLASSES[c]) * math.sqrt(12.0 / F[i]) + 0.0
            cls.append(c + ("+" if sgn > 0 else "-"))
            theta.append(_r7(th))                      # the optimiser's output reaches both stages through a '%.7e' file
        cases.append(dict(bases=bases, fcn=_fvm_fcn(bases), n=n, theta=theta, cls=cls, Fset=(Fset if exact else None)))
    return cases


class _HessInject(object):
    """stands in for numdifftools inside test_all_Fisher for the exact-threshold rows only: the real numerical Hessian with its
    diagonal replaced by prescribed, exactly representable values (the Hessian is an input of both routines, C07)"""
    def __init__(self, real_nd):
        self.real_nd, self.diag = real_nd, None

    def Hessian(self, fop, **kw):
        h = self.real_nd.Hessian(fop, **kw)
        outer = self

        def call(theta):
            H = np.array(h(theta), dtype=float)
            if outer.diag is not None:
                for i, v in enumerate(outer.diag):
                    H[i, i] = v
            return H
        return call


def _fvm_run(ctx, tag, data, cases):
    """-> list of dict(fisher=..., match=..., ...) one per case.  Steps, all through the real code of the staged tree:
    negloglike_comp (theta, nll) -> load_loglike -> convert_params -> derivs_comp ('%.7e', as test_all_Fisher.main writes it)
    -> match.main on a library whose functions are their own unique functions (empty inv_subs rows) -> codelen_matches_comp"""
    import sympy
    import numdifftools as real_nd
    import esr.fitting.likelihood as L
    import esr.fitting.test_all_Fisher as taf
    import esr.fitting.match as match
    comp = 1
    dd = os.path.join(ctx.tmp, "c20b_%s" % tag)
    os.makedirs(os.path.join(dd, "fitting"), exist_ok=True)
    np.savetxt(os.path.join(dd, "d.txt"), np.c_[data["x"], data["y"], data["s"]], fmt="%.17g")
    run = "c20b_%s" % tag
    with contextlib.redirect_stdout(io.StringIO()):
        lik = L.GaussLikelihood("d.txt", run, data_dir=dd, fn_set=FVM_SET + "_" + tag)
    lib = os.path.join(lik.fn_dir, "compl_%d" % comp)
    for d in (lib, lik.out_dir, lik.temp_dir):
        os.makedirs(d, exist_ok=True)
    fcns = [c["fcn"] for c in cases] + ["x"]                 # + a parameter-free function (and never a 1-row table)
    for name in ("unique_equations", "all_equations"):
        with open(os.path.join(lib, "%s_%d.txt" % (name, comp)), "w") as fh:
            fh.writelines(f + "\n" for f in fcns)
    np.savetxt(os.path.join(lib, "matches_%d.txt" % comp), np.arange(len(fcns), dtype=float))
    with open(os.path.join(lib, "inv_subs_%d.txt" % comp), "w") as fh:
        w = csv.writer(fh, delimiter=";")
        for _ in fcns:
            w.writerow([])                                    # own unique function: the chain of substitutions is empty
    # ---- the optimiser's file ---------------------------------------------------------------------------------------
    nl = np.zeros((len(fcns), 1 + FVM_MAXP))
    eqs = []
    with np.errstate(all="ignore"):
        for i, f in enumerate(fcns):
            fc, eq, integ = lik.run_sympify(f)
            n = cases[i]["n"] if i < len(cases) else 0
            syms = list(sympy.symbols(" ".join("a%d" % j for j in range(n)), real=True)) if n > 1 else ([sympy.symbols("a0", real=True)] if n == 1 else [])
            from esr.fitting.sympy_symbols import x as sx
            eq_numpy = sympy.lambdify([sx] + syms, eq, modules=["numpy"])
            th = cases[i]["theta"] if i < len(cases) else []
            nl[i, 0] = float(lik.negloglike(np.array(th, dtype=float), eq_numpy))
            nl[i, 1:1 + n] = th
            eqs.append((fc, eq, integ))
    np.savetxt(os.path.join(lik.out_dir, "negloglike_comp%d.dat" % comp), nl, fmt="%.7e")
    # ---- Fisher stage: the real routine, row by row, on what load_loglike returns --------------------------------------
    inj = _HessInject(real_nd)
    fisher = []
    deriv_rows = np.full((len(fcns), FVM_MAXP * (FVM_MAXP + 1) // 2), np.nan)
    with contextlib.redirect_stdout(io.StringIO()), np.errstate(all="ignore"):
        negloglike, params_meas = taf.load_loglike(comp, lik, 0, len(fcns), split=False)
        for i, f in enumerate(fcns):
            fc, eq, integ = eqs[i]
            inj.diag = cases[i]["Fset"] if i < len(cases) else None
            saved = taf.nd
            if inj.diag is not None:
                taf.nd = types.SimpleNamespace(Hessian=inj.Hessian)
            try:
                pr, nll, deriv, cl = taf.convert_params(fc, eq, integ, params_meas[i, :].copy(), lik, float(negloglike[i]), max_param=FVM_MAXP)
                fisher.append(dict(params=[float(v) for v in pr], nll=float(nll), codelen=float(cl), deriv=[float(v) for v in deriv],
                                   theta_in=[float(v) for v in params_meas[i, :]], nll_in=float(negloglike[i]), raised=None))
                deriv_rows[i, :] = deriv
            except BaseException as e:
                fisher.append(dict(raised="%s: %s" % (type(e).__name__, e)))
            finally:
                taf.nd = saved
    np.savetxt(os.path.join(lik.out_dir, "derivs_comp%d.dat" % comp), deriv_rows, fmt="%.7e")
    # ---- matching stage: the real main -------------------------------------------------------------------------------------
    mres = dict(raised=None)
    buf = io.StringIO()
    try:
        with contextlib.redirect_stdout(buf), np.errstate(all="ignore"):
            match.main(comp, lik)
        out = np.atleast_2d(np.loadtxt(os.path.join(lik.out_dir, "codelen_matches_comp%d.dat" % comp)))
    except BaseException as e:
        mres["raised"] = "%s: %s" % (type(e).__name__, e)
        out = None
    res = []
    for i, c in enumerate(cases):
        m = None
        if out is not None and i < out.shape[0]:
            m = dict(nll=float(out[i, 0]), codelen=float(out[i, 1]), index=float(out[i, 2]), params=[float(v) for v in out[i, 3:3 + FVM_MAXP]])
        res.append(dict(case=c, fisher=fisher[i], match=m, match_raised=mres["raised"], nrows=None if out is None else int(out.shape[0]), nfun=len(fcns)))
    return res


def _cls(v):
    return "nan" if v != v else ("inf" if v == float("inf") else ("-inf" if v == float("-inf") else "fin"))


def _close(a, b, rel=1e-6, ab=1e-6):
    if _cls(a) != "fin" or _cls(b) != "fin":
        return _cls(a) == _cls(b)
    return abs(a - b) <= rel * max(abs(a), abs(b)) + ab


def _fvm_compare(r):
    """the statement of fisher_vs_match_identity_chain on the two real outputs -> (list of (kind, message), info)"""
    c, F, M = r["case"], r["fisher"], r["match"]
    bad = []
    if F.get("raised"):
        return [("fisher-raises", "convert_params raises %s" % F["raised"])], {}
    if r["match_raised"] or M is None:
        return [("match-raises", "match.main raises / writes no row: %s (rows %r for %r functions)" % (r["match_raised"], r["nrows"], r["nfun"]))], {}
    n = c["n"]
    # Nsteps as the Fisher stage saw it (diagonal of its own deriv output)
    diag = [F["deriv"][int(i * FVM_MAXP - (i - 1) * i / 2)] for i in range(n)]
    with np.errstate(all="ignore"):
        ns = [abs(t) * math.sqrt(d / 12.0) if d > 0 else float("nan") for t, d in zip(F["theta_in"][:n], diag)]
    exact = c["Fset"] is not None
    amb = (not exact) and any(abs(v - 1) < FVM_BAND for v in ns)
    info = dict(nsteps=ns, ambiguous=amb, snapped=sum(1 for v in F["params"][:n] if v == 0.0), exact=exact,
                at_threshold=exact and any(v == 1.0 for v in ns))
    if exact and any(_r7(d) != d for d in diag):
        return [], dict(info, ambiguous=True)                # the forced curvature did not survive: not an exact row after all
    if amb:
        return [], info
    zF = [v == 0.0 for v in F["params"]]
    zM = [v == 0.0 for v in M["params"]]
    if zF != zM:
        bad.append(("zero-mask", "zero mask differs: Fisher stage reports params %r, matching stage %r (Nsteps %r)" % (F["params"], M["params"], ns)))
    elif not all(_close(a, b, 1e-6, 0.0) for a, b in zip(F["params"], M["params"])):
        bad.append(("params", "parameters differ: Fisher stage %r, matching stage %r" % (F["params"], M["params"])))
    if not _close(F["nll"], M["nll"], 1e-6, 1e-9):
        bad.append(("nll", "likelihood differs: Fisher stage %r, matching stage %r" % (F["nll"], M["nll"])))
    if not _close(F["codelen"], M["codelen"], 1e-6, 1e-6):
        bad.append(("codelen", "parameter code length differs: Fisher stage %r, matching stage %r (theta %r, Hessian diagonal %r, Nsteps %r)"
                    % (F["codelen"], M["codelen"], F["theta_in"][:n], diag, ns)))
    if M["index"] != r.get("line", M["index"]):
        bad.append(("index", "row index %r" % M["index"]))
    return bad, info


def _fvm_key(c):
    return "n=%d:%s:%s" % (c["n"], ",".join(c["bases"]), ",".join(c["cls"]))


def fisher_vs_match(ctx, deep):
    nsets = 4 if not deep else 16
    per = 75 if not deep else 250
    nex = 18 if not deep else 60
    tot = dict(cases=0, compared=0, ambiguous=0, snapped_rows=0, at_threshold=0, exact=0, kzero=0, by_n={1: 0, 2: 0, 3: 0}, classes={})
    nbad = 0
    for d in range(nsets):
        data = _fvm_dataset(ctx.rng)
        cases = _fvm_cases(ctx.rng, data, per, nex)
        try:
            res = _fvm_run(ctx, "s%d" % d, data, cases)
        except Exception as e:
            ctx.disagree("fvm:harness", "could not drive the two stages: %r" % (e,)); continue
        for i, r in enumerate(res):
            r["line"] = float(i)
            c = r["case"]
            bad, info = _fvm_compare(r)
            tot["cases"] += 1
            ctx.case(("fvm", _fvm_key(c)), nontrivial=True)
            if info.get("ambiguous"):
                tot["ambiguous"] += 1; continue
            tot["compared"] += 1
            tot["by_n"][c["n"]] += 1
            for k_ in c["cls"]:
                tot["classes"][k_[:-1]] = tot["classes"].get(k_[:-1], 0) + 1
            if info.get("snapped"):
                tot["snapped_rows"] += 1
                if info["snapped"] == c["n"]:
                    tot["kzero"] += 1
            tot["exact"] += int(bool(info.get("exact"))); tot["at_threshold"] += int(bool(info.get("at_threshold")))
            for kind, msg in bad:
                nbad += 1
                ctx.fail("fisher-vs-match:%s" % kind,
                         "own-unique function %s, theta=%r: %s" % (c["fcn"], c["theta"], msg),
                         dict(kind="fvm", data=data, case=c))
            if i < 2 and d == 0:
                ctx.sample(dict(kind="fisher-vs-match", fcn=c["fcn"], theta=c["theta"], classes=c["cls"], fisher_stage=dict(params=r["fisher"].get("params"), nll=r["fisher"].get("nll"), codelen=r["fisher"].get("codelen")),
                                matching_stage=r["match"]), cap=8)
    tot["by_n"] = {str(k): v for k, v in tot["by_n"].items()}
    ctx.extra["fisher_vs_match"] = tot
    ctx.extra["fisher_vs_match_mismatches"] = nbad
    return tot


# ---- the excluded point of fisher_vs_match_identity_chain (hfin fails) on the real routines ------------------------------------

def excluded_point(ctx):
    """one parameter below threshold whose removal makes the likelihood +inf: theorem `hfin_needed` predicts
    codelen(match) - codelen(Fisher) = 0.5*ln(12/(theta^2 F)) > 0, same parameters, same likelihood"""
    x = [0.5, 1.0, 1.5, 2.0, 2.5]
    wit = []
    for fcn, n, theta, truth in (("x*inv(a0)", 1, [40.0], lambda v: v / 40.0), ("a0*x+inv(a1)", 2, [0.9, 25.0], lambda v: 0.9 * v + 0.04)):
        data = dict(x=x, y=[round(truth(v) + 1e-3 * (-1) ** k, 6) for k, v in enumerate(x)], s=[0.5] * 5)     # theta is (nearly) the ML point: positive curvature
        c = dict(bases=["pole"], fcn=fcn, n=n, theta=[_r7(t) for t in theta], cls=["pole"], Fset=None)
        try:
            r = _fvm_run(ctx, "x%d" % n, data, [c])[0]
        except Exception as e:
            ctx.disagree("fvm:excluded-point", "could not drive the two stages at the excluded point: %r" % (e,)); continue
        F, M = r["fisher"], r["match"]
        w = dict(fcn=fcn, theta=c["theta"], fisher_stage={k: F.get(k) for k in ("params", "nll", "codelen", "raised")}, matching_stage=M)
        if not F.get("raised") and M is not None:
            j = n - 1
            Fjj = F["deriv"][int(j * FVM_MAXP - (j - 1) * j / 2)]
            pred = 0.5 * math.log(12.0 / (c["theta"][j] ** 2 * Fjj)) if Fjj > 0 else float("nan")
            w.update(nsteps=abs(c["theta"][j]) * math.sqrt(Fjj / 12.0) if Fjj > 0 else None, predicted_difference=pred,
                     observed_difference=M["codelen"] - F["codelen"], same_params=[a == 0 for a in F["params"]] == [a == 0 for a in M["params"]],
                     same_nll=_close(F["nll"], M["nll"], 1e-6, 1e-9))
            ok = _cls(pred) == "fin" and abs((M["codelen"] - F["codelen"]) - pred) <= 1e-5 * max(1.0, abs(pred)) and w["same_params"] and w["same_nll"] and pred > 0
            w["as_hfin_needed_predicts"] = bool(ok)
            if not ok:
                ctx.disagree("corr:hfin_needed", "at the excluded point the real routines do not behave as theorem hfin_needed says: %r" % (w,))
        wit.append(w)
    ctx.extra["excluded_point_witness"] = dict(
        note="hypothesis hfin of fisher_vs_match_identity_chain fails here (likelihood +inf once the below-threshold parameter is zeroed; not a tree linear in its "
             "parameters, outside C20's quantifier): test_all_Fisher.convert_params restores theta and keeps the measured curvature, match.main takes its "
             "'infinite nll' branch (fish = 12/p**2): same parameters, same likelihood, larger parameter code length in the pipeline row",
        runs=wit)


# =====================================================================================================================
# single_function as executed: the real routines traced inside the real single_function (tie of Generated/Single.lean)
# =====================================================================================================================

TRACE_ORDER = ["optimise_fun", "run_sympify", "convert_params", "aifeyn_complexity"]        # theorem call_order


class _Trace(object):
    """Wraps, for the duration of ONE call of fit_single.single_function, the three pipeline routines wherever fit_single can
    reach them (module attribute and every global of fit_single bound to the same function object) and the likelihood
    object's run_sympify.  Records (name, args, kwargs, result) of the calls made by single_function itself (calls a traced
    routine makes internally - optimise_fun parses the function too - are not recorded)."""

    def __init__(self, fs, lik):
        import esr.fitting.test_all as ta
        import esr.fitting.test_all_Fisher as taf
        import esr.generation.generator as gen
        self.fs, self.lik = fs, lik
        self.targets = [("optimise_fun", ta), ("convert_params", taf), ("aifeyn_complexity", gen)]
        self.calls, self.depth, self.undo = [], 0, []

    def _wrap(self, name, f):
        def w(*a, **k):
            top = self.depth == 0
            self.depth += 1
            try:
                r = f(*a, **k)
            finally:
                self.depth -= 1
            if top:
                self.calls.append((name, a, k, r))
            return r
        return w

    def __enter__(self):
        for name, mod in self.targets:
            orig = getattr(mod, name)
            w = self._wrap(name, orig)
            self.undo.append((mod, name, orig)); setattr(mod, name, w)
            for k, v in list(vars(self.fs).items()):
                if v is orig:
                    self.undo.append((self.fs, k, orig)); setattr(self.fs, k, w)
        self.lik.run_sympify = self._wrap("run_sympify", type(self.lik).run_sympify.__get__(self.lik))
        return self

    def __exit__(self, *exc):
        for mod, name, orig in reversed(self.undo):
            setattr(mod, name, orig)
        try:
            del self.lik.run_sympify
        except AttributeError:
            pass
        return False


def _bits(v):
    v = float(v)
    return "nan" if v != v else common.f2b(v)


def _trace_compare(tr, nll, DL, params):
    """what Generated/Single.lean says (theorems call_order, single_DL_is_sum, returns_nll_and_DL) against the calls the real
    single_function made -> (list of corr messages, dict(cp_nll, codelen, aifeyn, aifeyn_args) or None)"""
    names = [c[0] for c in tr.calls]
    if names != TRACE_ORDER:
        return ["routines called by single_function, in order: %r (table: %r)" % (names, TRACE_ORDER)], None
    cp = tr.calls[2][3]
    aif = tr.calls[3][3]
    try:
        cp_nll, cp_codelen = float(cp[1]), float(cp[3])
        aif = float(aif)
    except Exception as e:
        return ["results of convert_params / aifeyn_complexity are not (params, nll, deriv, codelen) / a number: %r" % (e,)], None
    bad = []
    if _bits(nll) != _bits(cp_nll):
        bad.append("returned likelihood term %r is not convert_params(...)[1] = %r" % (float(nll), cp_nll))
    want = (cp_nll + cp_codelen) + aif
    if _bits(DL) != _bits(want):
        bad.append("returned DL %r is not (convert_params[1] + convert_params[3]) + aifeyn_complexity() = (%r + %r) + %r = %r" % (float(DL), cp_nll, cp_codelen, aif, want))
    a = tr.calls[3][1]
    info = dict(cp_nll=cp_nll, codelen=cp_codelen, aifeyn=aif, aifeyn_args=([str(l) for l in a[0]], [str(q) for q in a[1]]) if len(a) == 2 else None)
    return bad, info


def _dataset(seed):
    rs = np.random.default_rng(seed)
    x = np.linspace(0.5, 3.0, 24); s = np.full(24, 0.2)
    y = rs.choice([1.3, -0.7]) * x + rs.choice([0.0, 2.0]) + rs.normal(0, 0.2, 24)
    return rs, x, y, s


def _single_case(fs, lik, labels, f, cf, np_seed, with_string=True):
    """ONE tree through the real single_function (traced) and fit_from_string, against the closed form, the exact-sum
    statement and the independent tree code length -> dict(fails=[(key, what)], corr=[msg], raised=..., values...)"""
    out = dict(fails=[], corr=[], raised=None, aifeyn_call=None)
    buf = io.StringIO()
    np.random.seed(np_seed)
    tr = _Trace(fs, lik)
    try:
        with tr, contextlib.redirect_stdout(buf):
            nll, DL, params = fs.single_function(list(labels), BASIS, lik, verbose=True, return_params=True, Niter=60, Nconv=10)
    except Exception as e:
        out["raised"] = e
        out["fails"].append(("single_function-raises:%s" % type(e).__name__, "single_function(%r) raises %r" % (labels, e)))
        return out
    out.update(nll=float(nll), DL=float(DL))
    rep = _parse_verbose(buf.getvalue())
    out["reported"] = rep
    # (a) exact sum of the values the API itself reports
    if all(k in rep for k in ("nll", "codelen", "aifeyn")):
        if not (abs((rep["nll"] + rep["codelen"] + rep["aifeyn"]) - DL) <= 1e-9 * max(1.0, abs(DL))):
            out["fails"].append(("single-not-sum", "single_function(%r): returned DL %.12g is not the sum of its reported terms %.12g + %.12g + %.12g" % (labels, DL, rep["nll"], rep["codelen"], rep["aifeyn"])))
        if abs(rep["nll"] - nll) > 1e-9 * max(1.0, abs(nll)):
            out["fails"].append(("single-nll-mismatch", "single_function(%r) returns nll %.12g but reports %.12g" % (labels, nll, rep["nll"])))
    # (a') the same statement on the values the routines really returned inside single_function (no print format involved)
    bad, info = _trace_compare(tr, nll, DL, params)
    out["corr"] += ["single_function(%r): %s" % (labels, b) for b in bad]
    if info is not None:
        out["aifeyn_call"] = (info["aifeyn_args"], info["aifeyn"])
        if not (abs((nll + info["codelen"] + info["aifeyn"]) - DL) <= 1e-9 * max(1.0, abs(DL))):
            out["fails"].append(("single-not-sum", "single_function(%r): returned DL %.12g is not returned likelihood term %.12g + parameter code length %.12g + tree code length %.12g "
                                 "(the values convert_params and aifeyn_complexity returned inside the call)" % (labels, DL, nll, info["codelen"], info["aifeyn"])))
        want = oracle_mdl.aifeyn(labels)
        if abs(info["aifeyn"] - want) > 1e-9 * max(1.0, abs(want)):
            out["fails"].append(("single-tree-codelen", "single_function(%r): the tree code length it adds is %.12g, k ln n + sum ln|c| = %.12g" % (labels, info["aifeyn"], want)))
    # (b) closed form
    dl_cf = cf["nll"] + cf["codelen"] + oracle_mdl.aifeyn(labels)
    out["dl_cf"] = dl_cf
    if abs(nll - cf["nll"]) > TOL or abs(DL - dl_cf) > 2 * TOL:
        out["fails"].append(("single-vs-closed-form", "single_function(%r): nll %.8g DL %.8g, closed form nll %.8g DL %.8g" % (labels, nll, DL, cf["nll"], dl_cf)))
    # (d) the formula-string entry point on the same function
    if with_string:
        try:
            with contextlib.redirect_stdout(io.StringIO()):
                np.random.seed(np_seed)
                res = fs.fit_from_string(f, BASIS, lik, verbose=False, Niter=60, Nconv=10)
            nll2, DL2, lab2 = res[0], res[1], res[2]
            if len(lab2) == len(labels):
                dl2_cf = cf["nll"] + cf["codelen"] + oracle_mdl.aifeyn(lab2)
                if abs(nll2 - cf["nll"]) > TOL or abs(DL2 - dl2_cf) > 2 * TOL:
                    out["fails"].append(("string-entry-vs-closed-form", "fit_from_string(%r) -> labels %r: nll %.8g DL %.8g, closed form nll %.8g DL %.8g" % (f, lab2, nll2, DL2, cf["nll"], dl2_cf)))
                out["string_compared"] = True
        except Exception:
            out["string_raised"] = True
    return out


# ---- data sets on which a parameter IS snapped to zero (the likelihood term is then re-evaluated by the Fisher routine) ---------

SNAP_TREES = [(["+", "a0", "*", "a1", "x"], "a0 + a1*x"), (["+", "*", "a0", "x", "*", "a1", "inv", "x"], "a0*x + a1/x"),
              (["-", "*", "a0", "x", "a1"], "a0*x - a1"), (["+", "*", "a0", "x", "*", "a1", "*", "x", "x"], "a0*x + a1*x*x"),
              (["+", "a0", "/", "a1", "x"], "a0 + a1/x")]


def _snap_data(rng, seed, f):
    """(x, y, s, closed form, j, Nsteps) with y shifted along one column of the (linear) model so that the weighted-least-squares
    value of parameter j sits at a prescribed fraction (0.3 .. 0.8) of its precision step: clearly snapped, far from the threshold"""
    rs, x, y, s = _dataset(seed)
    m = oracle_mdl.linear_model(f)
    if m is None:
        return None
    k, cols, off = m
    X = np.column_stack([np.broadcast_to(np.asarray(c(x), dtype=float), x.shape) for c in cols])
    o = np.broadcast_to(np.asarray(off(x), dtype=float), x.shape)
    W = 1.0 / s ** 2
    A = X.T @ (X * W[:, None])
    theta = np.linalg.solve(A, X.T @ (W * (y - o)))
    j = rng.randrange(k)
    nst = rng.choice([0.3, 0.45, 0.6, 0.8])
    target = rng.choice([-1.0, 1.0]) * nst * math.sqrt(12.0 / A[j, j])
    y2 = y - X[:, j] * (theta[j] - target)                      # least squares is linear in y: theta_j moves to `target`, the others stay
    cf = oracle_mdl.closed_form(x, y2, s, m)
    if cf is None or cf["margin"] < 0.05 or bool(cf["kept"][j]):
        return None
    return x, y2, s, cf, j, nst


def snapping_cases(ctx, fs, L, deep, tstat, aif_calls):
    for t in range(3 if not deep else 10):
        labels, f = SNAP_TREES[(ctx.seed + t) % len(SNAP_TREES)] if t < len(SNAP_TREES) else ctx.rng.choice(SNAP_TREES)
        seed = ctx.seed * 50 + 40 + t
        sd = _snap_data(ctx.rng, seed, f)
        if sd is None:
            continue
        x, y, s, cf, j, nst = sd
        dd = os.path.join(ctx.tmp, "c20_snap%d" % t); os.makedirs(dd)
        fitlib.write_data(os.path.join(dd, "d.txt"), x, y, s)
        with contextlib.redirect_stdout(io.StringIO()):
            lik = L.GaussLikelihood("d.txt", "c20snap_%d" % t, data_dir=dd, fn_set="core_maths")
        rp = dict(kind="single", seed=seed, labels=list(labels), fcn=f, np_seed=seed, form="snapped", y=[float(v) for v in y])
        res = _single_case(fs, lik, labels, f, cf, seed)
        ctx.case((seed, tuple(labels), "snapped"), nontrivial=True)
        tstat["snapped_designed"] = tstat.get("snapped_designed", 0) + 1
        for key, what in res["fails"]:
            ctx.fail(key, what + " [parameter a%d at %.2f precision steps from zero: snapped]" % (j, nst), rp)
        for msg in res["corr"]:
            ctx.disagree("corr:single-trace", msg)
        if res["raised"] is None:
            tstat["traced"] += 1
            if res["aifeyn_call"] is not None and res["aifeyn_call"][0] is not None:
                aif_calls.append(res["aifeyn_call"])
            ctx.sample(dict(labels=labels, fcn=f, snapped_parameter=j, nsteps=nst, single=[res["nll"], res["DL"]], closed_form=[cf["nll"], res["dl_cf"]]), cap=5)


# ---- trees with integer constants (none in the generated libraries): the tree code length term inside the single API -----------

def _int_trees(rng, count):
    """(labels, independent formula, kind) of trees linear in their parameters holding integer exponents; `repeated` = the same
    integer |n| >= 2 at two nodes"""
    out = []
    for t in range(count):
        k = rng.choice([2, 3])
        m = rng.choice([j for j in (2, 3, 4) if j != k])
        form = ["rep-offset", "rep-two-params", "distinct", "rep-same-power", "single"][t % 5] if t < 5 else rng.choice(["rep-offset", "rep-two-params", "distinct", "rep-same-power", "single"])
        if form == "rep-offset":
            out.append((["+", "*", "a0", "pow", "x", str(k), "pow", "inv", "x", str(k)], "a0*x**%d + (1/x)**%d" % (k, k), form))
        elif form == "rep-two-params":
            out.append((["+", "*", "a0", "pow", "x", str(k), "*", "a1", "pow", "inv", "x", str(k)], "a0*x**%d + a1*(1/x)**%d" % (k, k), form))
        elif form == "distinct":
            out.append((["+", "*", "a0", "pow", "x", str(k), "pow", "x", str(m)], "a0*x**%d + x**%d" % (k, m), form))
        elif form == "rep-same-power":
            out.append((["+", "*", "a0", "pow", "x", str(k), "pow", "x", str(k)], "a0*x**%d + x**%d" % (k, k), form))
        else:
            out.append((["+", "a0", "pow", "x", str(k)], "a0 + x**%d" % k, form))
    return out


_INT_POOL = ["2", "3", "2", "-2", "5", "12", "0", "1", "-1", "-7", "10"]


def tree_codelen_step(ctx, N):
    """step (4) of single_function on its own - `aifeyn_complexity(labels, ['a0', .., 'a<max_param-1>'])` - on PRNG label lists with
    repeated / negative / zero / multi-digit integers: real routine vs k ln n + sum ln|c| (property oracle) and vs the Lean
    model (`aifeyn` op: tie of Generated/Aifeyn.lean for this property)"""
    import esr.generation.generator as generator
    rng = ctx.rng
    ops = [b for grp in BASIS for b in grp if b != "a"]
    cases = []
    for t in range(N):
        L = rng.randint(2, 12)
        m = rng.randint(0, 3)
        pool = rng.sample(_INT_POOL, rng.randint(1, 3))
        labels = [rng.choice(ops)]
        for _ in range(L - 1):
            r = rng.random()
            labels.append(rng.choice(ops) if r < 0.45 else ("a%d" % rng.randrange(m) if (r < 0.65 and m) else rng.choice(pool)))
        rng.shuffle(labels)
        used = [int(l[1:]) for l in labels if re.fullmatch(r"a\d+", l)]
        cases.append((labels, ["a%i" % j for j in range(max(used) + 1 if used else 0)]))
    lines = [" ".join(("aifeyn %d %s %d %s" % (len(l), " ".join(l), len(p), " ".join(p))).split()) for l, p in cases]
    stats = dict(cases=len(cases), repeated_integer=0, model_mismatch=0, oracle_mismatch=0)
    try:
        mo = common.model(lines)
    except Exception as e:
        ctx.disagree("corr:aifeyn-step4", "model driver: %r" % (e,)); mo = None
    for j, (labels, plist) in enumerate(cases):
        ints = [l for l in labels if re.fullmatch(r"-?\d+", l)]
        rep = any(abs(int(c)) >= 2 and ints.count(c) >= 2 for c in ints)
        stats["repeated_integer"] += int(rep)
        ctx.case(("step4", tuple(labels)), nontrivial=bool(ints) or bool(plist))
        try:
            with np.errstate(all="ignore"):
                val = float(generator.aifeyn_complexity(list(labels), list(plist)))
        except Exception as e:
            ctx.fail("tree-codelen-raises:%s" % type(e).__name__, "aifeyn_complexity(%r, %r) raises %r" % (labels, plist, e), dict(kind="step4", labels=labels, params=plist)); continue
        want = oracle_mdl.aifeyn(labels)
        if not _close(val, want, 1e-9, 1e-12):
            stats["oracle_mismatch"] += 1
            ctx.fail("tree-codelen:%s" % ("repeated-integer" if rep else "other"),
                     "step (4) of single_function: aifeyn_complexity(%r, %r) = %.12g but k ln n + sum ln|c| = %.12g" % (labels, plist, val, want),
                     dict(kind="step4", labels=labels, params=plist))
        if mo is not None:
            mt = mo[j].split()
            if not (len(mt) == 5 and mt[0] == "ok" and _close(common.b2f(mt[1]), val, 1e-9, 1e-12)):
                stats["model_mismatch"] += 1
                ctx.disagree("corr:aifeyn-step4", "%s: code=%r model=%s" % (lines[j], val, mo[j]))
    ctx.extra["tree_codelen_step"] = stats
    return stats


# =====================================================================================================================
# the option space of the single-tree API: log_opt x number of parameters (0..3) x sign pattern x entry point
# =====================================================================================================================

# (labels, formula for the string entry point); linear in the parameters, closed-form optimum
SPACE_TREES = {
    0: [(["+", "x", "inv", "x"], "x + 1/x"), (["*", "x", "x"], "x*x")],
    1: [(["*", "a0", "x"], "a0*x"), (["/", "a0", "x"], "a0/x"), (["+", "a0", "x"], "a0 + x")],
    2: [(["+", "a0", "*", "a1", "x"], "a0 + a1*x"), (["+", "*", "a0", "x", "*", "a1", "inv", "x"], "a0*x + a1/x"), (["-", "*", "a0", "x", "a1"], "a0*x - a1")],
    3: [(["+", "a0", "+", "*", "a1", "x", "/", "a2", "x"], "a0 + a1*x + a2/x"), (["+", "a0", "+", "*", "a1", "x", "*", "a2", "*", "x", "x"], "a0 + a1*x + a2*x*x")],
}
SPACE_NITER, SPACE_NCONV = 30, 5                       # defaults of single_function; handed to the pipeline stage as [30], [5]
SPACE_PMIN, SPACE_PMAX = 0, 3                          # defaults of test_all.main; handed to the single API explicitly
SPACE_REPRO = 1e-7


def _free_eval(f, x):
    """a parameter-free formula on the data (the harness's own reading, sympy + numpy)"""
    import sympy
    from esr.fitting.sympy_symbols import sympy_locs
    locs = dict(sympy_locs)
    e = sympy.sympify(f, locals=locs)
    return np.broadcast_to(np.asarray(sympy.lambdify([locs["x"]], e, modules=["numpy"])(x), dtype=float), x.shape)


def _space_closed_form(f, k, x, y, s):
    """-> dict(nll, codelen, theta, kept, margin, nll_at=function(theta)->NLL) from the formula alone"""
    if k == 0:
        fx = _free_eval(f, x)
        return dict(nll=oracle_mdl.gauss_nll(y, fx, s), codelen=0.0, theta=np.zeros(0), kept=np.zeros(0, dtype=bool), margin=9.0,
                    nll_at=lambda th: oracle_mdl.gauss_nll(y, fx, s))
    m = oracle_mdl.linear_model(f)
    if m is None:
        return None
    cf = oracle_mdl.closed_form(x, y, s, m)
    if cf is None:
        return None
    _, cols, off = m
    X = np.column_stack([np.broadcast_to(np.asarray(c(x), dtype=float), x.shape) for c in cols])
    o = np.broadcast_to(np.asarray(off(x), dtype=float), x.shape)
    cf = dict(cf)
    cf["nll_at"] = lambda th: oracle_mdl.gauss_nll(y, o + X @ np.asarray(th, dtype=float)[:k], s)
    return cf


def _space_data(f, k, p, npts, err, dseed):
    """data whose weighted-least-squares solution is exactly p (noise projected off the column space)"""
    rs = np.random.RandomState(dseed)
    x = np.sort(rs.uniform(0.5, 3.0, npts)) if dseed % 2 else np.linspace(0.5, 3.0, npts)
    s = err * (1.0 + (0.5 * rs.uniform(size=npts) if dseed % 3 == 0 else 0.0)) * np.ones(npts)
    noise = rs.normal(size=npts) * s
    if k == 0:
        return x, _free_eval(f, x) + noise, s
    _, cols, off = oracle_mdl.linear_model(f)
    X = np.column_stack([np.broadcast_to(np.asarray(c(x), dtype=float), x.shape) for c in cols])
    o = np.broadcast_to(np.asarray(off(x), dtype=float), x.shape)
    coef = np.linalg.lstsq(X / s[:, None], noise / s, rcond=None)[0]
    return x, o + X @ np.array(p) + (noise - X @ coef), s


def _known_labels(lab):
    ops = set(b for grp in BASIS for b in grp)
    return all((l in ops) or re.fullmatch(r"a\d+", l) or re.fullmatch(r"-?\d+", l) for l in lab)


def space_case(c):
    """ONE (tree, data set, log_opt) through: single_function (traced), fit_from_string, and the pipeline stages
    (real test_all.main -> test_all_Fisher.main -> match.main on a library holding this tree as its own unique function)
    under the SAME options; judged against the closed form.  Used by the pool, by replay and by nothing else."""
    import esr.fitting.likelihood as L
    import esr.fitting.fit_single as fs
    import esr.fitting.test_all as ta
    import esr.fitting.test_all_Fisher as taf
    import esr.fitting.match as match
    labels, f, k, lo = list(c["labels"]), c["fcn"], c["k"], bool(c["log_opt"])
    x, y, s = (np.array(c[q], dtype=float) for q in ("x", "y", "yerr"))
    dd = os.path.join(c["tmp"], "sp_%d_%d" % (os.getpid(), c.get("idx", 0)))
    os.makedirs(os.path.join(dd, "fitting"), exist_ok=True)
    np.savetxt(os.path.join(dd, "d.txt"), np.c_[x, y, s], fmt="%.17g")
    run = "c20sp_%d_%d" % (os.getpid(), c.get("idx", 0))
    sink = io.StringIO()
    with contextlib.redirect_stdout(sink):
        lik = L.GaussLikelihood("d.txt", run, data_dir=dd, fn_set="verif_c20c_%d_%d" % (os.getpid(), c.get("idx", 0)))
    cf = _space_closed_form(f, k, lik.xvar, lik.yvar, lik.yerr)
    out = dict(problems=[], notes=[], labels_api=None, string_api=None, pipeline=None,
               closed_form=dict(nll=cf["nll"], codelen=cf["codelen"], theta=[float(v) for v in cf["theta"]]))
    tag = "%s, log_opt=%s, ML point %r" % (f, lo, [float("%.6g" % v) for v in c["p_true"]])
    kw = dict(pmin=c["pmin"], pmax=c["pmax"], Niter=SPACE_NITER, Nconv=SPACE_NCONV, log_opt=lo, return_params=True)

    def judge(who, key, nll, DL, params, lab):
        dl_cf = cf["nll"] + cf["codelen"] + oracle_mdl.aifeyn(lab)
        if not (abs(nll - cf["nll"]) <= TOL) or (_known_labels(lab) and not (abs(DL - dl_cf) <= 2 * TOL)):
            out["problems"].append((key, "%s [%s] -> labels %r: nll %.8g DL %.8g, closed form nll %.8g DL %.8g (parameter code length %.8g at theta %r)"
                                    % (who, tag, lab, nll, DL, cf["nll"], dl_cf, cf["codelen"], out["closed_form"]["theta"])))
        if k:
            at = cf["nll_at"](params)
            if not (abs(at - nll) <= SPACE_REPRO * max(1.0, abs(nll))):
                out["problems"].append(("space:params-reproduce-nll:%s" % key.split(":")[1],
                                        "%s [%s]: reported parameters %r give NLL %.10g, not the reported %.10g (closed-form ML point %r)"
                                        % (who, tag, [float(v) for v in params][:k], at, nll, out["closed_form"]["theta"])))

    # ---- labels entry point (traced) ---------------------------------------------------------------------------------
    fstr = None
    tr = _Trace(fs, lik)
    try:
        np.random.seed(c["np_seed"])
        with tr, contextlib.redirect_stdout(sink), np.errstate(all="ignore"):
            nll, DL, params = fs.single_function(list(labels), BASIS, lik, **kw)
        nll, DL, params = float(nll), float(DL), [float(v) for v in np.atleast_1d(params)]
        out["labels_api"] = dict(nll=nll, DL=DL, params=params)
        judge("single_function(%r)" % (labels,), "space:single-vs-closed-form", nll, DL, params, labels)
        if tr.calls and tr.calls[0][0] == "optimise_fun":
            fstr = str(tr.calls[0][1][0])
            opt = tr.calls[0][3]
            out["optimise_fun"] = dict(fcn=fstr, chi2=float(opt[0]), params=[float(v) for v in np.atleast_1d(opt[1])])
    except Exception as e:
        out["problems"].append(("space:single_function-raises:%s" % type(e).__name__, "single_function(%r) [%s] raises %r" % (labels, tag, e)))
    # ---- formula-string entry point ------------------------------------------------------------------------------------
    try:
        np.random.seed(c["np_seed"])
        with contextlib.redirect_stdout(sink), np.errstate(all="ignore"):
            res = fs.fit_from_string(f, BASIS, lik, **kw)
        nll2, DL2, lab2, par2 = float(res[0]), float(res[1]), [str(l) for l in res[2]], [float(v) for v in np.atleast_1d(res[3])]
        out["string_api"] = dict(nll=nll2, DL=DL2, labels=lab2, params=par2)
        if sorted(set(l for l in lab2 if re.fullmatch(r"a\d+", l))) == ["a%d" % j for j in range(k)]:
            judge("fit_from_string(%r)" % f, "space:string-vs-closed-form", nll2, DL2, par2, lab2)
        else:
            out["notes"].append("string entry point re-parameterised the function: %r" % (lab2,))
    except Exception as e:
        out["problems"].append(("space:fit_from_string-raises:%s" % type(e).__name__, "fit_from_string(%r) [%s] raises %r" % (f, tag, e)))
    # ---- the pipeline stages on this tree, same options ----------------------------------------------------------------
    if fstr is not None and out["labels_api"] is not None:
        comp = len(labels)
        lib = os.path.join(lik.fn_dir, "compl_%d" % comp)
        try:
            for d in (lib, lik.out_dir, lik.temp_dir):
                os.makedirs(d, exist_ok=True)
            fcns = [fstr, "x"]                                     # + a parameter-free function (never a 1-row table)
            for name in ("unique_equations", "all_equations"):
                with open(os.path.join(lib, "%s_%d.txt" % (name, comp)), "w") as fh:
                    fh.writelines(q + "\n" for q in fcns)
            np.savetxt(os.path.join(lib, "matches_%d.txt" % comp), np.arange(len(fcns), dtype=float))
            with open(os.path.join(lib, "inv_subs_%d.txt" % comp), "w") as fh:
                w = csv.writer(fh, delimiter=";")
                for _ in fcns:
                    w.writerow([])                                 # own unique function: empty chain of substitutions
            np.random.seed(c["np_seed"] + 1)
            with contextlib.redirect_stdout(sink), np.errstate(all="ignore"):
                ta.main(comp, lik, pmin=c["pmin"], pmax=c["pmax"], log_opt=lo, Niter_params=[SPACE_NITER], Nconv_params=[SPACE_NCONV])
                taf.main(comp, lik)
                match.main(comp, lik)
            row = np.atleast_2d(np.loadtxt(os.path.join(lik.out_dir, "codelen_matches_comp%d.dat" % comp)))[0]
            pn, pc, pp = float(row[0]), float(row[1]), [float(v) for v in row[3:3 + max(k, 1)]]
            out["pipeline"] = dict(nll=pn, codelen=pc, params=pp)
            a, af = out["labels_api"], oracle_mdl.aifeyn(labels)
            if not (abs(a["nll"] - pn) <= TOL and abs((a["DL"] - af) - (pn + pc)) <= 2 * TOL):
                out["problems"].append(("space:single-vs-pipeline", "single_function(%r) [%s]: nll %.8g, DL - tree code length %.8g; pipeline row (same options) nll %.8g, nll + "
                                        "parameter code length %.8g, parameters %r" % (labels, tag, a["nll"], a["DL"] - af, pn, pn + pc, pp[:k])))
            if not (abs(pn - cf["nll"]) <= TOL and abs((pn + pc) - (cf["nll"] + cf["codelen"])) <= 2 * TOL):
                out["problems"].append(("space:pipeline-vs-closed-form", "pipeline row of %r [%s]: nll %.8g parameter code length %.8g parameters %r; closed form nll %.8g code length %.8g at theta %r"
                                        % (fstr, tag, pn, pc, pp[:k], cf["nll"], cf["codelen"], out["closed_form"]["theta"])))
            if k and not (abs(cf["nll_at"](pp) - pn) <= TOL):
                out["problems"].append(("space:params-reproduce-nll:pipeline", "pipeline row of %r [%s]: reported parameters %r give NLL %.10g, not the reported %.10g"
                                        % (fstr, tag, pp[:k], cf["nll_at"](pp), pn)))
        except Exception as e:
            out["problems"].append(("space:pipeline-raises:%s" % type(e).__name__, "pipeline stages on %r [%s] raise %r" % (fstr, tag, e)))
    shutil.rmtree(dd, ignore_errors=True)
    shutil.rmtree(lik.fn_dir, ignore_errors=True)
    return out


def _space_cases(ctx, deep):
    rng = ctx.rng
    cases = []
    for k in (0, 1, 2, 3):
        for labels, f in SPACE_TREES[k]:
            for signs in itertools.product((1, -1), repeat=k):           # every sign pattern of the true parameters, mixed signs included
                for rep in range(6 if deep else 1):
                    for attempt in range(20):
                        mags = [10 ** rng.uniform(0.1, 1.5) for _ in range(k)]
                        p = [sg * m for sg, m in zip(signs, mags)]
                        dseed = rng.randrange(1 << 30)
                        x, y, s = _space_data(f, k, p, rng.choice([16, 24, 40]), rng.choice([0.05, 0.2, 0.5]), dseed)
                        cf = _space_closed_form(f, k, x, y, s)
                        if cf is not None and cf["margin"] >= 0.05 and bool(np.all(cf["kept"])):
                            break
                    else:
                        continue
                    base = dict(kind="space", labels=list(labels), fcn=f, k=k, p_true=[float(v) for v in p], signs=list(signs), pmin=SPACE_PMIN, pmax=SPACE_PMAX,
                                x=[float(v) for v in x], y=[float(v) for v in y], yerr=[float(v) for v in s])
                    for lo in (False, True):
                        cases.append(dict(base, log_opt=lo, np_seed=rng.randrange(1 << 31)))
    return cases


def space_case_safe(c):
    """space_case for the pool: an exception of harness code inside a job (the calls of the real code are caught one by one in
    space_case and judged) comes back as data and becomes a broken obligation; it never ends pool.map"""
    try:
        return space_case(c)
    except Exception as e:
        import traceback
        tb = traceback.extract_tb(e.__traceback__)
        where = "%s:%d in %s" % (os.path.basename(tb[-1].filename), tb[-1].lineno, tb[-1].name) if tb else "?"
        return dict(problems=[], notes=[], labels_api=None, string_api=None, pipeline=None, closed_form=None,
                    harness_exc=dict(type=type(e).__name__, where=where, text=str(e)[:300]))


def _space_pool_init():
    sys.stdout = open(os.devnull, "w")


def option_space(ctx, deep):
    import multiprocessing as mp
    import esr.fitting.fit_single, esr.fitting.test_all_Fisher, esr.fitting.match, esr.fitting.likelihood      # import before forking
    cases = _space_cases(ctx, deep)
    os.makedirs(os.path.join(ctx.tmp, "space"), exist_ok=True)
    for i, c in enumerate(cases):
        c["idx"] = i
        c["tmp"] = os.path.join(ctx.tmp, "space")
    t0 = time.time()
    nproc = min(16, os.cpu_count() or 1, max(1, len(cases)))
    order = sorted(range(len(cases)), key=lambda i: -(cases[i]["k"] * (4 if cases[i]["log_opt"] and cases[i]["k"] == 2 else 1)))
    with mp.get_context("fork").Pool(nproc, initializer=_space_pool_init) as pool:
        results = pool.map(space_case_safe, [cases[i] for i in order], chunksize=1)
    res = [None] * len(cases)
    for i, r in zip(order, results):
        res[i] = r
    stat = dict(cases=len(cases), per_setting={}, string_compared=0, pipeline_rows=0, string_reparameterised=0, problems=0)
    for c, r in zip(cases, res):
        mode = "log" if (c["log_opt"] and 1 <= c["k"] <= 2) else "lin"
        sg = "".join("+" if q > 0 else "-" for q in c["signs"]) or "none"
        ctx.case(("space", c["fcn"], c["log_opt"], sg, c["np_seed"]), nontrivial=c["k"] > 0)
        key = "k=%d:log_opt=%d" % (c["k"], int(c["log_opt"]))
        st = stat["per_setting"].setdefault(key, dict(n=0, space=mode, sign_patterns=[], labels_entry=0, string_entry=0, pipeline_rows=0))
        st["n"] += 1
        if sg not in st["sign_patterns"]:
            st["sign_patterns"].append(sg)
        st["labels_entry"] += int(r["labels_api"] is not None)
        st["string_entry"] += int(r["string_api"] is not None)
        st["pipeline_rows"] += int(r["pipeline"] is not None)
        stat["string_compared"] += int(r["string_api"] is not None); stat["pipeline_rows"] += int(r["pipeline"] is not None)
        stat["string_reparameterised"] += len(r["notes"])
        rp = {q: c[q] for q in ("kind", "labels", "fcn", "k", "p_true", "signs", "log_opt", "pmin", "pmax", "np_seed", "x", "y", "yerr")}
        if r.get("harness_exc"):
            hx = r["harness_exc"]
            stat["harness_exceptions"] = stat.get("harness_exceptions", 0) + 1
            ctx.disagree("space:harness", "option-space case %s log_opt=%s: harness code raised %s at %s: %s" % (c["fcn"], c["log_opt"], hx["type"], hx["where"], hx["text"]))
        for pkey, what in r["problems"]:
            stat["problems"] += 1
            ctx.fail("%s:k=%d:log_opt=%d" % (pkey, c["k"], int(c["log_opt"])), what, rp)
    for q in (len(cases) // 3, (2 * len(cases)) // 3):
        if cases:
            c, r = cases[q], res[q]
            ctx.sample(dict(kind="option-space", labels=c["labels"], fcn=c["fcn"], log_opt=c["log_opt"], ml_point=c["p_true"], labels_entry=r["labels_api"],
                            string_entry=r["string_api"], pipeline_row=r["pipeline"], closed_form=r["closed_form"]), cap=14)
    stat["wall_s"] = round(time.time() - t0, 1)
    stat["nproc"] = nproc
    stat["options"] = dict(pmin=SPACE_PMIN, pmax=SPACE_PMAX, Niter=SPACE_NITER, Nconv=SPACE_NCONV, pipeline="Niter_params=[%d], Nconv_params=[%d]" % (SPACE_NITER, SPACE_NCONV))
    ctx.extra["option_space"] = stat
    return stat


# =====================================================================================================================
# Model/SingleFit vs the real single_function under a scripted minimiser (what is handed to the Fisher routine)
# =====================================================================================================================

SCR_ITER = [(30, 5), (30, 5), (6, 2), (3, 1), (10, 3), (2, 2), (4, 5), (0, 1)]           # last two: ValueError


def scripted_single(ctx, n):
    """real fit_single.single_function with test_all.minimize replaced by a PRNG-scripted oracle (C10's script generator) and the
    Fisher routine replaced by a recorder that returns what it is handed + a fixed code length, against op `singlefit`
    (Model/SingleFit.singleFunction over Model/Optim.optimiseFun): returned (nll, DL, params) and the (theta, chi2) handed on"""
    import scipy.optimize
    import props.c10 as c10
    import esr.fitting.likelihood as L
    import esr.fitting.fit_single as fs
    import esr.fitting.test_all as ta
    import esr.generation.generator as generator
    import esr.generation.simplifier as simplifier
    rng = ctx.rng
    dd = os.path.join(ctx.tmp, "c20_scripted"); os.makedirs(dd, exist_ok=True)
    x = np.linspace(0.4, 2.6, 9); s = np.array([0.5, 0.4, 0.6, 0.5, 0.3, 0.7, 0.5, 0.45, 0.55])
    y = np.array([0.3, -1.0, 2.0, 0.5, 1.5, -0.7, 0.9, 2.2, -0.4])
    np.savetxt(os.path.join(dd, "d.txt"), np.c_[x, y, s], fmt="%.17g")
    with contextlib.redirect_stdout(io.StringIO()):
        lik = L.GaussLikelihood("d.txt", "c20_scripted", data_dir=dd, fn_set="core_maths")
    state = {}

    def oracle(fun, x0, args=(), method=None, options=None, **kw):
        i = state["i"]; state["i"] = i + 1
        it = state["script"].get(i)
        if it == "T":
            raise simplifier.TimeoutException("scripted")
        if it == "N":
            raise NameError("scripted")
        if it == "E":
            raise FloatingPointError("scripted")
        xx, f, su = it
        return scipy.optimize.OptimizeResult(x=np.array(xx, dtype=float), fun=np.float64(f), success=bool(su), nit=1)

    def recorder(fcn, eq, integrated, theta, likelihood, chi2, max_param=4):
        state["handed"] = ([float(v) for v in np.atleast_1d(theta)], float(chi2))
        return np.array(theta, dtype=float), chi2, np.full(int(max_param * (max_param + 1) / 2), np.nan), state["cl"]

    ops, real, meta = [], [], []
    # the Fisher routine wherever fit_single can reach it (module attribute and every global of fit_single bound to it), as _Trace does
    import esr.fitting.test_all_Fisher as taf
    real_min, real_cp = ta.minimize, taf.convert_params
    undo = [(ta, "minimize", real_min), (taf, "convert_params", real_cp)]
    ta.minimize, taf.convert_params = oracle, recorder
    for k_, v_ in list(vars(fs).items()):
        if v_ is real_cp:
            undo.append((fs, k_, real_cp)); setattr(fs, k_, recorder)
    try:
        for t in range(n):
            k = rng.choice([0, 1, 1, 2, 2, 2, 3])
            labels, f = rng.choice(SPACE_TREES[k])
            lo = rng.random() < 0.6
            niter, nconv = rng.choice(SCR_ITER)
            cl = rng.choice([0.0, 3.25, -1.5, rng.uniform(-5, 20)])
            af = float(generator.aifeyn_complexity(list(labels), ["a%i" % j for j in range(k)]))
            script = c10._Script(rng.randrange(1 << 62), max(k, 1))
            state.update(i=0, script=script, handed=None, cl=cl)
            try:
                with contextlib.redirect_stdout(io.StringIO()), np.errstate(all="ignore"):
                    nll, DL, params = fs.single_function(list(labels), BASIS, lik, Niter=niter, Nconv=nconv, log_opt=lo, return_params=True)
                out = ("ret", float(nll), float(DL), [float(v) for v in np.atleast_1d(params)], state["handed"])
            except ValueError:
                out = ("raise ValueError",)
            except NameError:
                out = ("raise NameError",)
            ncalls = state["i"]
            direct = oracle_mdl.gauss_nll(lik.yvar, _free_eval(f, lik.xvar), lik.yerr) if k == 0 else 0.0
            toks = [c10._Script.token(script.get(i)) for i in range(ncalls + 8)]
            ops.append("singlefit %s %s %d %d %d 0 0 ok %d 1 %s %s %d %d %s" % (common.f2b(cl), common.f2b(af), k, k, int(lo), int(k > 0), ("0" * (2 ** k)) if k else "-",
                                                                             common.f2b(direct), niter, nconv, " ".join(toks)))
            real.append(out)
            meta.append(dict(labels=labels, k=k, log_opt=lo, niter=niter, nconv=nconv, ncalls=ncalls, kind=script.kind))
            ctx.case(("scripted-single", ops[-1][:200]), nontrivial=ncalls > 0)
    finally:
        for mod_, name_, orig_ in reversed(undo):
            setattr(mod_, name_, orig_)
    outs = common.model(ops)
    same = c10._same
    bad = 0
    settings = {}
    for op, r, o, m in zip(ops, real, outs, meta):
        t = o.split()
        if r[0] == "ret":
            ok = len(t) == 6 and t[0] == "ret"
            if ok:
                fl = lambda q: [] if q == "-" else [common.b2f(v) for v in q.split(",")]
                mn, md, mp_, mc, mh = common.b2f(t[1]), common.b2f(t[2]), fl(t[3]), common.b2f(t[4]), fl(t[5])
                rel = 1e-9 if m["k"] == 0 else 1e-12
                hp, hc = r[4] if r[4] is not None else (None, None)
                ok = (same(r[1], mn, rel) and same(r[2], md, max(rel, 1e-12)) and len(mp_) == len(r[3]) and all(same(a, b, 1e-9) for a, b in zip(r[3], mp_))
                      and hp is not None and same(hc, mc, rel) and len(hp) == len(mh) and all(same(a, b, 1e-9) for a, b in zip(hp, mh)))
        else:
            ok = o == r[0]
        sk = "k=%d:log_opt=%d" % (m["k"], int(m["log_opt"]))
        settings[sk] = settings.get(sk, 0) + 1
        if not ok:
            bad += 1
            ctx.disagree("corr:singlefit-scripted", dict(op=op[:500], code=repr(r)[:400], model=o[:400], meta=m))
    if ops:
        q = len(ops) // 2
        ctx.sample(dict(kind="scripted single_function", meta=meta[q], code=repr(real[q])[:300], model=outs[q][:300]), cap=15)
    ctx.extra["singlefit_scripted"] = dict(n=len(ops), mismatch=bad, per_setting=settings, outcomes={k_: sum(1 for r in real if r[0] == k_) for k_ in ("ret", "raise ValueError", "raise NameError")})
    return len(ops), bad



# =====================================================================================================================
# Call-sequence histories of the formula-string entry point in ONE process (every ordered pair of option settings per formula)
# =====================================================================================================================

import strapi_hist as sh

HIST_KINDS = [dict(fn="fit", rf=False), dict(fn="fit", rf=True), dict(fn="aif", rf=False), dict(fn="aif", rf=True)]
# (formula, labels of the formula, the function fitted under replace_floats=True (every non-exponent constant a free parameter), its labels)
HIST_POOL = [("a0 + 0.5*x", ["+", "a0", "*", "0.5", "x"], "a0 + a1*x", ["+", "a0", "*", "a1", "x"]),
             ("a0*x + 2.5", ["+", "*", "a0", "x", "2.5"], "a0*x + a1", ["+", "*", "a0", "x", "a1"]),
             ("a0 + a1*x", ["+", "a0", "*", "a1", "x"], "a0 + a1*x", ["+", "a0", "*", "a1", "x"]),
             ("a0*x**2 + 0.5", ["+", "*", "a0", "pow", "x", "2", "0.5"], "a0*x**2 + a1", ["+", "*", "a0", "pow", "x", "2", "a1"]),
             ("1.5*x + a0/x", ["+", "*", "1.5", "x", "/", "a0", "x"], "a0*x + a1/x", ["+", "*", "a0", "x", "/", "a1", "x"])]


def _hist_text(c):
    if c["fn"] == "single":
        return "single_function(%r)" % (c["labels"],)
    return "%s(%r, replace_floats=%s)" % ("fit_from_string" if c["fn"] == "fit" else "string_to_aifeyn", c["formula"], c["rf"])


def _hist_plan(ctx, deep):
    rng = ctx.rng
    plans = []
    for h in range(int(os.environ.get("C20_HIST", 8 if deep else 3))):
        for attempt in range(30):
            dseed = rng.randrange(1 << 30)
            rs = np.random.RandomState(dseed)
            npts = rng.choice([12, 16, 24])
            x = np.linspace(0.5, 3.0, npts)
            s = np.full(npts, rng.choice([0.1, 0.2, 0.4]))
            y = rng.choice([1.3, -0.7, 2.1]) * x + rng.choice([0.6, 2.0, -1.1]) + rs.normal(0, 1.0, npts) * s
            cfs = {}
            for f, lf, ft, lt in HIST_POOL:
                for g_ in (f, ft):
                    m = oracle_mdl.linear_model(g_)
                    cfs[g_] = oracle_mdl.closed_form(x, y, s, m) if m is not None else None
            if all(c is not None and c["margin"] >= 0.05 and bool(np.all(c["kept"])) for c in cfs.values()):
                break
        seeds = {(fi, k): rng.randrange(1 << 31) for fi in range(len(HIST_POOL)) for k in range(len(HIST_KINDS))}
        seqs = [sh.euler_pairs(len(HIST_KINDS), rng) for _ in HIST_POOL]
        assert all(sh.covers_all_pairs(q, len(HIST_KINDS)) for q in seqs)
        order = sh.interleave(seqs, rng)

        def call(fi, k):
            return dict(HIST_KINDS[k], formula=HIST_POOL[fi][0], basis=BASIS, np_seed=seeds[(fi, k)])
        calls = [call(fi, k) for fi, k in order]
        fresh = [call(fi, k) for fi in range(len(HIST_POOL)) for k in range(len(HIST_KINDS))]
        # the labels entry point on the same function, same numpy seed as the string call it is compared with
        for fi, (f, lf, ft, lt) in enumerate(HIST_POOL):
            fresh.append(dict(fn="single", labels=lf, basis=BASIS, np_seed=seeds[(fi, 0)], of=[f, False]))
            fresh.append(dict(fn="single", labels=lt, basis=BASIS, np_seed=seeds[(fi, 1)], of=[f, True]))
        plans.append(dict(name="h%d" % h, calls=calls, fresh=fresh, data=dict(x=[float(v) for v in x], y=[float(v) for v in y], yerr=[float(v) for v in s]),
                          cf={g_: (None if c is None else float(c["nll"])) for g_, c in cfs.items()}))
    return plans


def _hist_judge_call(c, r, want, single, cf_nll):
    """one call of a history against: the same call as the first call of a fresh process, the labels entry point on the
    same function, the closed form -> [(key, text)]"""
    out = []
    tag = ":rf=%d" % int(c["rf"])
    if not r.get("ok"):
        out.append(("hist:%s-raises:%s%s" % (c["fn"], r.get("exc"), tag), "raises %s at %s: %s" % (r.get("exc"), r.get("where"), r.get("text"))))
        return out
    if want is not None and want.get("ok"):
        if r.get("labels") != want.get("labels"):
            out.append(("hist:%s-labels-vs-fresh-process%s" % (c["fn"], tag), "labels %r in the history, %r as the first call of a fresh process" % (r.get("labels"), want.get("labels"))))
        if c["fn"] == "aif":
            if r.get("comp") != want.get("comp") or not _close(r.get("aifeyn"), want.get("aifeyn"), 1e-9, 1e-12):
                out.append(("hist:aif-value-vs-fresh-process%s" % tag, "(tree code length, complexity) = (%r, %r) in the history, (%r, %r) as the first call of a fresh process"
                            % (r.get("aifeyn"), r.get("comp"), want.get("aifeyn"), want.get("comp"))))
        elif abs(r["nll"] - want["nll"]) > TOL or abs(r["DL"] - want["DL"]) > 2 * TOL:
            out.append(("hist:string-entry-vs-fresh-process%s" % tag, "nll %.8g DL %.8g in the history, nll %.8g DL %.8g as the first call of a fresh process" % (r["nll"], r["DL"], want["nll"], want["DL"])))
    if c["fn"] == "fit":
        if single is not None and single.get("ok") and (abs(r["nll"] - single["nll"]) > TOL or abs(r["DL"] - single["DL"]) > 2 * TOL):
            out.append(("hist:string-vs-labels-entry%s" % tag, "string entry point -> labels %r nll %.8g DL %.8g; labels entry point single_function(%r) nll %.8g DL %.8g"
                        % (r["labels"], r["nll"], r["DL"], single["labels"], single["nll"], single["DL"])))
        if cf_nll is not None and abs(r["nll"] - cf_nll) > TOL:
            out.append(("hist:string-vs-closed-form%s" % tag, "string entry point -> labels %r nll %.8g; closed form nll %.8g" % (r["labels"], r["nll"], cf_nll)))
    return out


def _hist_eval(pl, hres, fres):
    """-> [dict(index, call, problems, prior)] for the calls of the history that fail some comparison"""
    fresh = {}
    single = {}
    for c, r in zip(pl["fresh"], fres):
        if c["fn"] == "single":
            single[(c["of"][0], bool(c["of"][1]))] = r[0]
        else:
            fresh[json.dumps(c, sort_keys=True)] = r[0]
    pool = {f: (lf, ft, lt) for f, lf, ft, lt in HIST_POOL}
    bad = []
    for i, (c, r) in enumerate(zip(pl["calls"], hres)):
        lf, ft, lt = pool[c["formula"]]
        cf = pl["cf"].get(ft if c["rf"] else c["formula"])
        pr = _hist_judge_call(c, r, fresh.get(json.dumps(c, sort_keys=True)), single.get((c["formula"], bool(c["rf"]))), cf)
        if pr:
            bad.append(dict(index=i, call=c, problems=pr, prior=[q for q in pl["calls"][:i] if q["formula"] == c["formula"]], got=r))
    return bad


def _hist_run(ctx, plans, tag):
    tmp = os.path.join(ctx.tmp, "c20hist")
    specs = []
    for pl in plans:
        specs.append((tag + pl["name"], dict(mode="fit", fork=False, tasks=[pl["calls"]], data=dict(pl["data"], dir=os.path.join(tmp, tag + pl["name"] + "_d")))))
        specs.append((tag + pl["name"] + "_fresh", dict(mode="fit", fork=True, tasks=[[c] for c in pl["fresh"]], timeout=300,
                                                         data=dict(pl["data"], dir=os.path.join(tmp, tag + pl["name"] + "_fd")))))
    return sh.run_many(ctx.env(), tmp, specs, 1800, maxpar=8)


def string_histories(ctx, deep):
    """fit_from_string / string_to_aifeyn called many times in ONE process on tiny linear-Gaussian data: every ordered pair
    of (function, replace_floats) settings on every formula; each call against the same call in a fresh process, against the
    labels entry point on the same function and against the closed form"""
    t0 = time.time()
    stat = dict(histories=0, calls=0, fits=0, settings=len(HIST_KINDS), ordered_pairs_per_formula=len(HIST_KINDS) ** 2, formulas=len(HIST_POOL),
                problems=0, worker_errors=[])
    ctx.extra["string_histories"] = stat
    plans = _hist_plan(ctx, deep)
    out = _hist_run(ctx, plans, "")
    for pl in plans:
        (hres, e1), (fres, e2) = out[pl["name"]], out[pl["name"] + "_fresh"]
        if e1 or e2 or hres is None or fres is None:
            stat["worker_errors"].append(str(e1 or e2)[:300])
            ctx.disagree("hist:harness", "history %s: %s" % (pl["name"], str(e1 or e2)[:400]))
            continue
        hres = hres[0]
        stat["histories"] += 1
        stat["calls"] += len(hres)
        stat["fits"] += sum(1 for c in pl["calls"] if c["fn"] == "fit")
        # the references themselves: first calls of fresh processes are cases of the property too (string vs labels entry vs closed form)
        refs_bad = []
        for c, r in zip(pl["fresh"], fres):
            if c["fn"] == "single" and not r[0].get("ok"):
                refs_bad.append("%s raises %s at %s: %s" % (_hist_text(c), r[0].get("exc"), r[0].get("where"), r[0].get("text")))
        for msg in refs_bad:
            ctx.fail("hist:single_function-raises", msg, dict(kind="history", data=pl["data"], calls=[]))
        bad = _hist_eval(pl, hres, fres)
        for f, lf, ft, lt in HIST_POOL:
            ctx.case(("history", pl["name"], ctx.seed, f), nontrivial=True, n=len(HIST_KINDS) ** 2 + 1)
        seen = set()
        for b in bad:
            c = b["call"]
            for key, text in b["problems"]:
                if (key, c["formula"]) in seen:
                    continue
                seen.add((key, c["formula"]))
                stat["problems"] += 1
                # shortest reproducing sequence offered for replay: the call before it on this formula + the call, else the prefix
                calls = (b["prior"][-1:] + [c]) if b["prior"] else [c]
                ctx.fail(key, "%s: %s [call %d of a history in one process, %d earlier call(s) on this formula, the last one %s]" % (
                    _hist_text(c), text, b["index"], len(b["prior"]), _hist_text(b["prior"][-1]) if b["prior"] else "none"),
                    dict(kind="history", data=pl["data"], calls=calls, prefix=pl["calls"][:b["index"] + 1], cf=pl["cf"]))
        if pl is plans[0]:
            ctx.sample(dict(kind="string-history", formulas=[q[0] for q in HIST_POOL], first_calls=[_hist_text(c) for c in pl["calls"][:5]],
                            first_results=[{k: r.get(k) for k in ("labels", "nll", "DL", "aifeyn", "exc") if k in r} for r in hres[:5]]), cap=16)
    stat["wall_s"] = round(time.time() - t0, 1)
    return stat


def _replay_history(ctx, data):
    pool = {f: (lf, ft, lt) for f, lf, ft, lt in HIST_POOL}
    ok = True
    for name, calls in (("reproducing pair", data.get("calls") or []), ("prefix of the history", data.get("prefix") or [])):
        if not calls:
            continue
        fresh = []
        for c in calls:
            if c not in fresh:
                fresh.append(c)
        nf = len(fresh)
        for c in list(fresh):
            lf, ft, lt = pool.get(c["formula"], (None, None, None))
            if c["fn"] == "fit" and lf is not None:
                fresh.append(dict(fn="single", labels=lt if c["rf"] else lf, basis=BASIS, np_seed=c["np_seed"], of=[c["formula"], bool(c["rf"])]))
        pl = dict(name="replay", calls=calls, fresh=fresh, data=data["data"], cf=data.get("cf") or {})
        out = _hist_run(ctx, [pl], "rp%d_" % len(calls))
        (hres, e1), (fres, e2) = out["rp%d_replay" % len(calls)], out["rp%d_replay_fresh" % len(calls)]
        if e1 or e2:
            print("replay: workers failed: %s" % (e1 or e2,)); return False
        bad = {b["index"]: b for b in _hist_eval(pl, hres[0], fres)}
        print("replay: %s - one process, in this order:" % name)
        for i, (c, r) in enumerate(zip(calls, hres[0])):
            print("replay:   %s -> %s" % (_hist_text(c), {k: r.get(k) for k in ("labels", "nll", "DL", "aifeyn", "comp", "exc", "where", "text") if k in r}))
            for key, text in (bad.get(i) or {}).get("problems", []):
                print("replay:      FAILS %s: %s" % (key, text))
        for c, r in zip(fresh[nf:], fres[nf:]):
            print("replay:   labels entry point %s -> %s" % (_hist_text(c), {k: r[0].get(k) for k in ("nll", "DL", "exc") if k in r[0]}))
        if bad:
            return False
    return ok

def run(ctx):
    deep = not ctx.quick
    drift = extract.drifted(ctx.proof.get("extract", {}), ["test_all_Fisher.py:convert_params", "match.py:main", "simplifier.py:convert_params"]) if ctx.proof else []
    drift_opt = extract.drifted(ctx.proof.get("extract", {}), ["test_all.py:optimise_fun", "test_all.py:chi2_fcn"]) if ctx.proof else []
    drift_opt = [d for d in drift_opt if not d.startswith("table:") or d == "table:Optim"]
    drift = [d for d in drift if d != "table:Optim"]
    if drift or drift_opt:
        ctx.extra["drift_escalation"] = drift + drift_opt
    # ---- Fisher stage vs matching stage, the two real routines on the same inputs --------------------------------------
    import time as _time
    t0 = _time.time()
    # a table the translator could not re-read escalates the part of the run that ties THAT table to the code
    single_tables = ("table:Single", "table:Aifeyn")
    deep_single = deep or any(d in single_tables for d in drift)
    fisher_vs_match(ctx, deep or any(d not in single_tables for d in drift))
    excluded_point(ctx)
    ctx.extra["fisher_vs_match_wall_s"] = round(_time.time() - t0, 2)
    # ---- the option space of the single-tree API (log_opt x 0..3 parameters x sign patterns x entry points) ------------------
    scripted_ok = False
    try:
        n_s, bad_s = scripted_single(ctx, 4000 if (deep or drift_opt) else 400)
        scripted_ok = n_s > 0 and bad_s == 0
    except Exception as e:                                       # model executable missing / protocol broken
        ctx.disagree("corr:singlefit-scripted", "could not run the scripted correspondence: %r" % (e,))
    try:
        option_space(ctx, deep)
    except Exception as e:
        ctx.disagree("space:harness", "could not run the option-space cases: %r" % (e,))
    hist_ok = False
    try:
        hs = string_histories(ctx, deep)
        hist_ok = hs["histories"] > 0 and not hs["worker_errors"]
    except Exception as e:
        ctx.disagree("hist:harness", "could not run the call-sequence histories of the string entry point: %r" % (e,))
    comp = 4
    g = libgen.generate(ctx, "core_maths", list(range(1, comp + 1)), P=1, copy="c20_lib")
    if not g["ok"]:
        ctx.disagree("library", "generation failed"); return
    import esr.fitting.likelihood as L
    import esr.fitting.fit_single as fs
    funs = {n: libgen.read_funs(libgen.libfile(g["dir"], n, "all_equations")) for n in range(1, comp + 1)}
    trees = {n: libgen.read_trees(libgen.libfile(g["dir"], n, "orig_trees")) for n in range(1, comp + 1)}
    # ---- step (4) on its own: tree code length of label lists with integer constants (cheap, no fit) ----------------------
    tree_codelen_step(ctx, 300 if not deep_single else 3000)
    nsets = 2 if not deep_single else 6
    tstat = dict(traced=0, aifeyn_calls_vs_model=0, int_trees=0, int_trees_repeated=0)
    aif_calls = []
    for d in range(nsets):
        seed = ctx.seed * 50 + d
        rs, x, y, s = _dataset(seed)
        dd = os.path.join(ctx.tmp, "c20_%d" % d); os.makedirs(dd)
        fitlib.write_data(os.path.join(dd, "d.txt"), x, y, s)
        n = ctx.rng.choice([3, 4])
        r = fitlib.run_pipeline(ctx, g["copy"], "core_maths", n, dd, "d.txt", "c20_%d" % d, P=1, seed=seed)
        rp0 = dict(kind="single", seed=seed, n=n)
        if not r["ok"]:
            ctx.fail("pipeline-incomplete", "pipeline n=%d does not complete: %s" % (n, fitlib.traceback_tail(r)), rp0); continue
        cm = np.atleast_2d(np.loadtxt(os.path.join(r["out_dir"], "codelen_matches_comp%d.dat" % n)))
        af = [float(v) for v in libgen.read_lines(libgen.libfile(g["dir"], n, "aifeyn")) if v.strip()]
        lik = L.GaussLikelihood("d.txt", "c20s_%d" % d, data_dir=dd, fn_set="core_maths")
        # candidate trees: original trees of this complexity that are linear in their parameters
        cands = []
        for i, (labels, f) in enumerate(zip(trees[n], funs[n])):
            m = oracle_mdl.linear_model(f)
            if m is None:
                continue
            cf = oracle_mdl.closed_form(x, y, s, m)
            if cf is None or cf["margin"] < 0.05:
                continue
            cands.append((i, labels, f, cf))
        ctx.rng.shuffle(cands)
        # trees with a parameter the closed form snaps to zero first (up to 2 / 5): there the Fisher routine re-evaluates the likelihood
        snapped = [c for c in cands if not all(c[3]["kept"])][: (2 if not deep_single else 5)]
        cands = snapped + [c for c in cands if not any(c is q for q in snapped)]
        tstat["snapped_first"] = tstat.get("snapped_first", 0) + len(snapped)
        todo = [(i, labels, f, cf, "library") for i, labels, f, cf in cands[: (5 if not deep_single else 14)]]
        # + trees with integer constants (no pipeline row: the generated libraries hold none), repeated integers included
        k_int = 0
        for labels, f, form in _int_trees(ctx.rng, 5 if not deep_single else 10):
            m = oracle_mdl.linear_model(f)
            cf = oracle_mdl.closed_form(x, y, s, m) if m is not None else None
            if cf is None or cf["margin"] < 0.05:
                continue
            if k_int >= (3 if not deep_single else 8):
                break
            k_int += 1
            todo.append((None, labels, f, cf, form))
        for i, labels, f, cf, form in todo:
            np_seed = seed + (i if i is not None else 1000 + len(labels))
            rp = dict(rp0, line=i, labels=list(labels), fcn=f, np_seed=np_seed, form=form)
            res = _single_case(fs, lik, labels, f, cf, np_seed)
            ctx.case((seed, tuple(labels)), nontrivial=True)
            if form != "library":
                tstat["int_trees"] += 1; tstat["int_trees_repeated"] += int(form.startswith("rep"))
            for key, what in res["fails"]:
                ctx.fail(key, what, rp)
            for msg in res["corr"]:
                ctx.disagree("corr:single-trace", msg)
            if res["raised"] is not None:
                continue
            tstat["traced"] += 1
            if res["aifeyn_call"] is not None and res["aifeyn_call"][0] is not None:
                aif_calls.append(res["aifeyn_call"])
            nll, DL = res["nll"], res["DL"]
            # (c) the pipeline's row for the same line
            if i is not None and i < cm.shape[0] and np.isfinite(cm[i, 1]):
                dl_pipe = cm[i, 0] + cm[i, 1] + af[i]
                if abs(nll - cm[i, 0]) > TOL or abs(DL - dl_pipe) > 2 * TOL:
                    ctx.fail("single-vs-pipeline", "tree %r (line %d): single API nll %.8g DL %.8g, pipeline row nll %.8g DL %.8g" % (labels, i, nll, DL, cm[i, 0], dl_pipe), rp)
            if res.get("string_compared"):
                ctx.extra["string_entry_compared"] = ctx.extra.get("string_entry_compared", 0) + 1
            if res.get("string_raised"):
                ctx.extra["string_entry_raised"] = ctx.extra.get("string_entry_raised", 0) + 1
            ctx.sample(dict(labels=labels, fcn=f, single=[nll, DL], closed_form=[cf["nll"], res["dl_cf"]], reported=res["reported"]), cap=4)
    snapping_cases(ctx, fs, L, deep_single, tstat, aif_calls)
    # the calls of aifeyn_complexity single_function really made (its own labels / param_list) against the Lean model
    if aif_calls:
        lines = [" ".join(("aifeyn %d %s %d %s" % (len(l), " ".join(l), len(p), " ".join(p))).split()) for (l, p), _ in aif_calls]
        try:
            for ln, mo, (_, val) in zip(lines, common.model(lines), aif_calls):
                mt = mo.split()
                tstat["aifeyn_calls_vs_model"] += 1
                if not (len(mt) == 5 and mt[0] == "ok" and _close(common.b2f(mt[1]), val, 1e-9, 1e-12)):
                    ctx.disagree("corr:aifeyn-step4", "inside single_function: %s: code=%r model=%s" % (ln, val, mo))
        except Exception as e:
            ctx.disagree("corr:aifeyn-step4", "model driver: %r" % (e,))
    ctx.extra["single_trace"] = tstat
    if tstat["traced"] == 0:
        ctx.disagree("corr:single-trace", "no call of single_function could be traced")
    ctx.extra["corr_obligations"] = 7
    ctx.extra["corr_discharged"] = (int(hist_ok and not any(f["key"].startswith("hist:") for f in ctx.failures) and not any(d["name"] == "hist:harness" for d in ctx.disagreements))
                                    + int(not any(f["key"].startswith("single") or f["key"].startswith("string") or f["key"].startswith("pipeline") or f["key"].startswith("space") for f in ctx.failures)
                                        and not any(d["name"] == "space:harness" for d in ctx.disagreements))
                                    + int(scripted_ok)
                                    + int(not any(f["key"].startswith("fisher-vs-match") for f in ctx.failures) and not any(d["name"] == "fvm:harness" for d in ctx.disagreements))
                                    + int(not any(d["name"] in ("corr:hfin_needed", "fvm:excluded-point") for d in ctx.disagreements))
                                    + int(tstat["traced"] > 0 and not any(d["name"] == "corr:single-trace" for d in ctx.disagreements))
                                    + int(not any(d["name"] == "corr:aifeyn-step4" for d in ctx.disagreements) and not any(f["key"].startswith("tree-codelen") for f in ctx.failures)))


def replay(ctx, data):
    data = data.get("replay", data)
    if data.get("kind") == "fvm":
        r = _fvm_run(ctx, "replay", data["data"], [data["case"]])[0]
        r["line"] = 0.0
        bad, info = _fvm_compare(r)
        print("replay: Fisher stage %r" % ({k: r["fisher"].get(k) for k in ("params", "nll", "codelen", "raised")},))
        print("replay: matching stage %r" % (r["match"],))
        for kind, msg in bad:
            print("replay: %s: %s" % (kind, msg))
        return not bad
    if data.get("kind") == "history":
        return _replay_history(ctx, data)
    if data.get("kind") == "space":
        c = dict(data)
        c["tmp"] = os.path.join(ctx.tmp, "space"); os.makedirs(c["tmp"], exist_ok=True)
        r = space_case(c)
        print("replay: %s, labels %r, log_opt=%s, numpy seed %d, pmin=%s pmax=%s Niter=%d Nconv=%d" % (c["fcn"], c["labels"], c["log_opt"], c["np_seed"], c["pmin"], c["pmax"], SPACE_NITER, SPACE_NCONV))
        print("replay:   closed form          %r" % (r["closed_form"],))
        print("replay:   optimise_fun returned %r" % (r.get("optimise_fun"),))
        print("replay:   single_function      %r" % (r["labels_api"],))
        print("replay:   fit_from_string      %r" % (r["string_api"],))
        print("replay:   pipeline row         %r" % (r["pipeline"],))
        for key, what in r["problems"]:
            print("replay: %s: %s" % (key, what))
        return not r["problems"]
    if data.get("kind") == "step4":
        import esr.generation.generator as generator
        val = float(generator.aifeyn_complexity(list(data["labels"]), list(data["params"])))
        want = oracle_mdl.aifeyn(data["labels"])
        print("replay: aifeyn_complexity(%r, %r) = %.12g ; k ln n + sum ln|c| = %.12g" % (data["labels"], data["params"], val, want))
        return _close(val, want, 1e-9, 1e-12)
    if data.get("kind") == "single" and data.get("fcn") and data.get("labels"):
        # the data set is a function of the seed; the single API, the closed form and the exact-sum statement are re-run
        # (the pipeline row of the same line needs the whole pipeline: re-run `check.py C20` with the same VERIF_SEED for that)
        import esr.fitting.likelihood as L
        import esr.fitting.fit_single as fs
        rs, x, y, s = _dataset(data["seed"])
        if data.get("y"):
            y = np.array(data["y"], dtype=float)
        dd = os.path.join(ctx.tmp, "c20_replay"); os.makedirs(dd, exist_ok=True)
        fitlib.write_data(os.path.join(dd, "d.txt"), x, y, s)
        with contextlib.redirect_stdout(io.StringIO()):
            lik = L.GaussLikelihood("d.txt", "c20_replay", data_dir=dd, fn_set="core_maths")
        m = oracle_mdl.linear_model(data["fcn"])
        cf = oracle_mdl.closed_form(x, y, s, m) if m is not None else None
        if cf is None:
            print("replay: %r is not linear in its parameters / ill-posed on this data set" % data["fcn"]); return True
        res = _single_case(fs, lik, data["labels"], data["fcn"], cf, data.get("np_seed", data["seed"]))
        print("replay: single_function(%r) -> nll %r DL %r ; closed form nll %r DL %r" % (data["labels"], res.get("nll"), res.get("DL"), cf["nll"], res.get("dl_cf")))
        for key, what in res["fails"]:
            print("replay: %s: %s" % (key, what))
        return not res["fails"]
    print("replay: re-run `check.py C20` with VERIF_SEED=%s (the data set is derived from the seed)" % data.get("seed"))
    return True
