"""C20 — fitting a single tree agrees with the library pipeline and the closed form."""
import contextlib, csv, io, json, math, os, re, types
import numpy as np
import common, extract, libgen, fitlib, oracle_mdl

LEAN_MODULE = ["ESRVerif.Props.C20", "ESRVerif.Props.C20b"]
LEVEL = "other"
LEVEL_TEXT = ("Partial proof. (1) Decided in Lean on tables regenerated from fit_single.single_function: the returned description length is the sum, in source "
              "order, of the likelihood term and the parameter code length returned by ONE call of the Fisher routine and the tree code length; the three "
              "routines are the pipeline's own (optimise_fun of the fitting stage, convert_params of the Fisher stage, aifeyn_complexity of the generator), so "
              "the theorems of C10, C07 and C08 (incl. single_function_agrees) apply to the single-tree API verbatim. (2) Proved in Lean (Props/C20b, unbounded): "
              "fisher_vs_match_identity_chain - the pipeline's row for a tree that is its own unique function is computed by a SECOND copy of the snapping / "
              "code-length logic (match.py) from the raw fitted (theta, nll) and the Hessian diagonal the Fisher stage stored in derivs; over the hand models of "
              "both routines (C07, C05), for positive finite curvature and under hfin (the likelihood at the snapped parameters is finite - true for every tree "
              "linear in its parameters), the matching-stage row carries exactly the Fisher stage's reported parameters (zeros included), likelihood and code "
              "length, both routines on corresponding branches; the two models' number structures are identified by an explicit translation proved to commute "
              "with every operation used; identity_conv_reads_fisher_diag: what simplifier.convert_params reads back from derivs at the identity chain is the "
              "Fisher stage's Fisher_diag; hfin_needed: without hfin the statement is false (match.py alone has the 'infinite nll' branch: the pipeline row's code "
              "length exceeds the single API's by 0.5*ln(12/(theta^2 F))), reproduced on the real routines on every run. Tied to the code by a direct differential "
              "run of the two REAL routines on the same inputs (real test_all_Fisher.convert_params, its outputs written in the stage file formats, real "
              "match.main on a library of own-unique functions), independent of the optimiser. NOT proved: that two independent "
              "optimiser runs reach the same optimum (MinimiserSpec) - sampled on every run: the single-tree API (labels entry point and formula-string "
              "entry point) against the pipeline's rows for the same trees and against the closed-form value for trees linear in their parameters, "
              "and the exact-sum identity on the values the API itself reports.")
TECHNIQUE = ("Lean 4 decision over the regenerated assembly of single_function + Lean 4 proof that the Fisher-stage and matching-stage copies of the snapping / "
             "code-length logic coincide on the identity chain (hand models of C07/C05) + differential runs of the two real routines on the same inputs + "
             "differential runs single API vs pipeline vs closed form")
RULE = ("one case = one (data set, tree) fitted through single_function and fit_from_string, compared with the pipeline row of the same line and the closed form; "
        "non-trivial = the tree has >=1 parameter, is linear in them and is not within 5% of a snapping threshold; distinct by (data seed, tree).  "
        "Fisher-vs-match: one case = one (data set, linear model, theta) pushed through the real convert_params and then, via the stage files, through the real "
        "match.main; distinct by (number of parameters, basis functions, per-coordinate threshold class and sign); non-trivial = at least one parameter")
EXPLANATION = LEVEL_TEXT
TRUSTED = ["harness/oracle_mdl.py (closed form)", "harness/extractors/single.py",
           "hand models ESRVerif/Model/Codelen.lean and ESRVerif/Model/Match.lean (tied to the code by the correspondences of C07 and C05, and here by the direct "
           "differential run of the two real routines)", "'%.7e' text round-off between stages (decisions compared exactly away from |Nsteps-1| < 1e-6 and at exactly "
           "representable thresholds; magnitudes to 1e-6)"]
ASSUMPTIONS = ["MinimiserSpec (numerical): sampled with tolerance 5e-3 in NLL/DL", "the formula-string entry point is compared on formulas whose conversion returns the same label list",
               "fisher_vs_match_identity_chain: hfin (snapping never makes the likelihood infinite) - holds for every tree linear in its parameters with a Gaussian likelihood; "
               "positive finite Hessian diagonal; sympy/numpy at the identity chain (empty substitution loop, identity Jacobian) return (theta, diag) unchanged - checked by the differential run",
               "the matching stage reads negloglike_comp<n>.dat (optimiser output) and derivs_comp<n>.dat (Fisher stage), never the Fisher stage's reported parameters (codelen_comp<n>_deriv.dat has no reader)"]
# tables whose committed version may stand in as a hand-written model when the translator cannot read the source;
# value = the correspondence that then ties it to the code (common.prove / common.decide)
FALLBACK = {'Aifeyn': 'as C08', 'Codelen': 'as C07', 'Match': 'as C05', 'Single': "single_function's returned terms vs the real pipeline routines called separately on the same tree and data"}
MODELLED = ["fit_single.py:single_function", "fit_single.py:fit_from_string", "test_all_Fisher.py:convert_params", "match.py:main"]

TOL = 5e-3
BASIS = [["x", "a"], ["inv"], ["+", "*", "-", "/", "pow"]]


def _parse_verbose(out):
    vals = {}
    for key, pat in (("nll", r"Residuals:\s*([-\d.e+naif]+)"), ("codelen", r"Parameter:\s*([-\d.e+naif]+)"), ("aifeyn", r"Function:\s*([-\d.e+naif]+)"), ("DL", r"Description length:\s*([-\d.e+naif]+)")):
        m = re.findall(pat, out)
        if m:
            try:
                vals[key] = float(m[-1])
            except ValueError:
                pass
    return vals


# =====================================================================================================================
# Fisher stage vs matching stage on the identity chain: the two REAL routines on the same inputs (no optimiser)
# =====================================================================================================================

FVM_SET = "verif_c20b"
FVM_MAXP = 4
FVM_BASES = ["x", "1", "x**2", "inv(x)", "sqrt(x)"]
FVM_CLASSES = {"zero": [0.0], "below": [1e-6, 0.05, 0.3, 0.9], "near-": [1 - 1e-4, 1 - 1e-3], "near+": [1 + 1e-4, 1 + 1e-3], "above": [1.1, 3.0, 100.0]}
FVM_EXACT_F = [12.0, 3.0, 48.0, 0.75, 192.0]            # sqrt(12/F) is exact: 1, 2, 0.5, 4, 0.25
FVM_BAND = 1e-6                                          # |Nsteps-1| below this: the '%.7e' round-off of derivs may move the decision


def _r7(v):
    return float("%.7e" % v)


def _fvm_basis(b, x):
    return {"x": x, "1": np.ones_like(x), "x**2": x * x, "inv(x)": 1.0 / x, "sqrt(x)": np.sqrt(x)}[b]


def _fvm_fcn(bases):
    return "+".join(("a%d" % i) if b == "1" else "a%d*%s" % (i, b) for i, b in enumerate(bases))


def _fvm_dataset(rng):
    N = rng.randint(5, 30)
    x = sorted(round(rng.uniform(0.3, 4.0), 6) for _ in range(N))
    s0 = 10.0 ** rng.uniform(-1.5, 1.0)
    s = [s0] * N if rng.random() < 0.5 else [round(s0 * rng.uniform(0.5, 2.0), 8) for _ in range(N)]
    y = [round(0.8 * xi + 0.3 + si * rng.gauss(0, 1), 8) for xi, si in zip(x, s)]
    return dict(x=x, y=y, s=s)


def _fvm_cases(rng, data, count, nexact):
    """linear-in-parameter Gaussian models, theta placed per coordinate below / near / above the snapping threshold"""
    x, sg = np.array(data["x"]), np.array(data["s"])
    cases = []
    for t in range(count):
        n = rng.choice([1, 2, 2, 3, 3])
        bases = rng.sample(FVM_BASES, n)
        F = [float(np.sum(_fvm_basis(b, x) ** 2 / sg ** 2)) for b in bases]
        exact = t < nexact
        cls, theta, Fset = [], [], []
        for i in range(n):
            sgn = rng.choice([-1.0, 1.0])
            if exact:
                # curvature forced to a value with exact square roots and an exact '%.7e' image; theta at / next to the threshold
                Fi = rng.choice(FVM_EXACT_F)
                c = rng.choice(["at", "at", "at-", "at+", "below", "above"])
                m = {"at": 1.0, "at-": 1 - 1e-6, "at+": 1 + 1e-6, "below": 0.3, "above": 4.0}[c]
                th = sgn * m * math.sqrt(12.0 / Fi)
                Fset.append(Fi)
            else:
                c = rng.choice(["zero", "below", "below", "near-", "near+", "above", "above"])
                th = sgn * rng.choice(FVM_CLASSES[c]) * math.sqrt(12.0 / F[i]) + 0.0
            cls.append(c + ("+" if sgn > 0 else "-"))
            theta.append(_r7(th))                      # the optimiser's output reaches both stages through a '%.7e' file
        cases.append(dict(bases=bases, fcn=_fvm_fcn(bases), n=n, theta=theta, cls=cls, Fset=(Fset if exact else None)))
    return cases


class _HessInject(object):
    """stands in for numdifftools inside test_all_Fisher for the exact-threshold rows only: the real numerical Hessian with its
    diagonal replaced by prescribed, exactly representable values (the Hessian is an input of both routines, C07)"""
    def __init__(self, real_nd):
        self.real_nd, self.diag = real_nd, None

    def Hessian(self, fop, **kw):
        h = self.real_nd.Hessian(fop, **kw)
        outer = self

        def call(theta):
            H = np.array(h(theta), dtype=float)
            if outer.diag is not None:
                for i, v in enumerate(outer.diag):
                    H[i, i] = v
            return H
        return call


def _fvm_run(ctx, tag, data, cases):
    """-> list of dict(fisher=..., match=..., ...) one per case.  Steps, all through the real code of the staged tree:
    negloglike_comp (theta, nll) -> load_loglike -> convert_params -> derivs_comp ('%.7e', as test_all_Fisher.main writes it)
    -> match.main on a library whose functions are their own unique functions (empty inv_subs rows) -> codelen_matches_comp"""
    import sympy
    import numdifftools as real_nd
    import esr.fitting.likelihood as L
    import esr.fitting.test_all_Fisher as taf
    import esr.fitting.match as match
    comp = 1
    dd = os.path.join(ctx.tmp, "c20b_%s" % tag)
    os.makedirs(os.path.join(dd, "fitting"), exist_ok=True)
    np.savetxt(os.path.join(dd, "d.txt"), np.c_[data["x"], data["y"], data["s"]], fmt="%.17g")
    run = "c20b_%s" % tag
    with contextlib.redirect_stdout(io.StringIO()):
        lik = L.GaussLikelihood("d.txt", run, data_dir=dd, fn_set=FVM_SET + "_" + tag)
    lib = os.path.join(lik.fn_dir, "compl_%d" % comp)
    for d in (lib, lik.out_dir, lik.temp_dir):
        os.makedirs(d, exist_ok=True)
    fcns = [c["fcn"] for c in cases] + ["x"]                 # + a parameter-free function (and never a 1-row table)
    for name in ("unique_equations", "all_equations"):
        with open(os.path.join(lib, "%s_%d.txt" % (name, comp)), "w") as fh:
            fh.writelines(f + "\n" for f in fcns)
    np.savetxt(os.path.join(lib, "matches_%d.txt" % comp), np.arange(len(fcns), dtype=float))
    with open(os.path.join(lib, "inv_subs_%d.txt" % comp), "w") as fh:
        w = csv.writer(fh, delimiter=";")
        for _ in fcns:
            w.writerow([])                                    # own unique function: the chain of substitutions is empty
    # ---- the optimiser's file ---------------------------------------------------------------------------------------
    nl = np.zeros((len(fcns), 1 + FVM_MAXP))
    eqs = []
    with np.errstate(all="ignore"):
        for i, f in enumerate(fcns):
            fc, eq, integ = lik.run_sympify(f)
            n = cases[i]["n"] if i < len(cases) else 0
            syms = list(sympy.symbols(" ".join("a%d" % j for j in range(n)), real=True)) if n > 1 else ([sympy.symbols("a0", real=True)] if n == 1 else [])
            from esr.fitting.sympy_symbols import x as sx
            eq_numpy = sympy.lambdify([sx] + syms, eq, modules=["numpy"])
            th = cases[i]["theta"] if i < len(cases) else []
            nl[i, 0] = float(lik.negloglike(np.array(th, dtype=float), eq_numpy))
            nl[i, 1:1 + n] = th
            eqs.append((fc, eq, integ))
    np.savetxt(os.path.join(lik.out_dir, "negloglike_comp%d.dat" % comp), nl, fmt="%.7e")
    # ---- Fisher stage: the real routine, row by row, on what load_loglike returns --------------------------------------
    inj = _HessInject(real_nd)
    fisher = []
    deriv_rows = np.full((len(fcns), FVM_MAXP * (FVM_MAXP + 1) // 2), np.nan)
    with contextlib.redirect_stdout(io.StringIO()), np.errstate(all="ignore"):
        negloglike, params_meas = taf.load_loglike(comp, lik, 0, len(fcns), split=False)
        for i, f in enumerate(fcns):
            fc, eq, integ = eqs[i]
            inj.diag = cases[i]["Fset"] if i < len(cases) else None
            saved = taf.nd
            if inj.diag is not None:
                taf.nd = types.SimpleNamespace(Hessian=inj.Hessian)
            try:
                pr, nll, deriv, cl = taf.convert_params(fc, eq, integ, params_meas[i, :].copy(), lik, float(negloglike[i]), max_param=FVM_MAXP)
                fisher.append(dict(params=[float(v) for v in pr], nll=float(nll), codelen=float(cl), deriv=[float(v) for v in deriv],
                                   theta_in=[float(v) for v in params_meas[i, :]], nll_in=float(negloglike[i]), raised=None))
                deriv_rows[i, :] = deriv
            except BaseException as e:
                fisher.append(dict(raised="%s: %s" % (type(e).__name__, e)))
            finally:
                taf.nd = saved
    np.savetxt(os.path.join(lik.out_dir, "derivs_comp%d.dat" % comp), deriv_rows, fmt="%.7e")
    # ---- matching stage: the real main -------------------------------------------------------------------------------------
    mres = dict(raised=None)
    buf = io.StringIO()
    try:
        with contextlib.redirect_stdout(buf), np.errstate(all="ignore"):
            match.main(comp, lik)
        out = np.atleast_2d(np.loadtxt(os.path.join(lik.out_dir, "codelen_matches_comp%d.dat" % comp)))
    except BaseException as e:
        mres["raised"] = "%s: %s" % (type(e).__name__, e)
        out = None
    res = []
    for i, c in enumerate(cases):
        m = None
        if out is not None and i < out.shape[0]:
            m = dict(nll=float(out[i, 0]), codelen=float(out[i, 1]), index=float(out[i, 2]), params=[float(v) for v in out[i, 3:3 + FVM_MAXP]])
        res.append(dict(case=c, fisher=fisher[i], match=m, match_raised=mres["raised"], nrows=None if out is None else int(out.shape[0]), nfun=len(fcns)))
    return res


def _cls(v):
    return "nan" if v != v else ("inf" if v == float("inf") else ("-inf" if v == float("-inf") else "fin"))


def _close(a, b, rel=1e-6, ab=1e-6):
    if _cls(a) != "fin" or _cls(b) != "fin":
        return _cls(a) == _cls(b)
    return abs(a - b) <= rel * max(abs(a), abs(b)) + ab


def _fvm_compare(r):
    """the statement of fisher_vs_match_identity_chain on the two real outputs -> (list of (kind, message), info)"""
    c, F, M = r["case"], r["fisher"], r["match"]
    bad = []
    if F.get("raised"):
        return [("fisher-raises", "convert_params raises %s" % F["raised"])], {}
    if r["match_raised"] or M is None:
        return [("match-raises", "match.main raises / writes no row: %s (rows %r for %r functions)" % (r["match_raised"], r["nrows"], r["nfun"]))], {}
    n = c["n"]
    # Nsteps as the Fisher stage saw it (diagonal of its own deriv output)
    diag = [F["deriv"][int(i * FVM_MAXP - (i - 1) * i / 2)] for i in range(n)]
    with np.errstate(all="ignore"):
        ns = [abs(t) * math.sqrt(d / 12.0) if d > 0 else float("nan") for t, d in zip(F["theta_in"][:n], diag)]
    exact = c["Fset"] is not None
    amb = (not exact) and any(abs(v - 1) < FVM_BAND for v in ns)
    info = dict(nsteps=ns, ambiguous=amb, snapped=sum(1 for v in F["params"][:n] if v == 0.0), exact=exact,
                at_threshold=exact and any(v == 1.0 for v in ns))
    if exact and any(_r7(d) != d for d in diag):
        return [], dict(info, ambiguous=True)                # the forced curvature did not survive: not an exact row after all
    if amb:
        return [], info
    zF = [v == 0.0 for v in F["params"]]
    zM = [v == 0.0 for v in M["params"]]
    if zF != zM:
        bad.append(("zero-mask", "zero mask differs: Fisher stage reports params %r, matching stage %r (Nsteps %r)" % (F["params"], M["params"], ns)))
    elif not all(_close(a, b, 1e-6, 0.0) for a, b in zip(F["params"], M["params"])):
        bad.append(("params", "parameters differ: Fisher stage %r, matching stage %r" % (F["params"], M["params"])))
    if not _close(F["nll"], M["nll"], 1e-6, 1e-9):
        bad.append(("nll", "likelihood differs: Fisher stage %r, matching stage %r" % (F["nll"], M["nll"])))
    if not _close(F["codelen"], M["codelen"], 1e-6, 1e-6):
        bad.append(("codelen", "parameter code length differs: Fisher stage %r, matching stage %r (theta %r, Hessian diagonal %r, Nsteps %r)"
                    % (F["codelen"], M["codelen"], F["theta_in"][:n], diag, ns)))
    if M["index"] != r.get("line", M["index"]):
        bad.append(("index", "row index %r" % M["index"]))
    return bad, info


def _fvm_key(c):
    return "n=%d:%s:%s" % (c["n"], ",".join(c["bases"]), ",".join(c["cls"]))


def fisher_vs_match(ctx, deep):
    nsets = 4 if not deep else 16
    per = 75 if not deep else 250
    nex = 18 if not deep else 60
    tot = dict(cases=0, compared=0, ambiguous=0, snapped_rows=0, at_threshold=0, exact=0, kzero=0, by_n={1: 0, 2: 0, 3: 0}, classes={})
    nbad = 0
    for d in range(nsets):
        data = _fvm_dataset(ctx.rng)
        cases = _fvm_cases(ctx.rng, data, per, nex)
        try:
            res = _fvm_run(ctx, "s%d" % d, data, cases)
        except Exception as e:
            ctx.disagree("fvm:harness", "could not drive the two stages: %r" % (e,)); continue
        for i, r in enumerate(res):
            r["line"] = float(i)
            c = r["case"]
            bad, info = _fvm_compare(r)
            tot["cases"] += 1
            ctx.case(("fvm", _fvm_key(c)), nontrivial=True)
            if info.get("ambiguous"):
                tot["ambiguous"] += 1; continue
            tot["compared"] += 1
            tot["by_n"][c["n"]] += 1
            for k_ in c["cls"]:
                tot["classes"][k_[:-1]] = tot["classes"].get(k_[:-1], 0) + 1
            if info.get("snapped"):
                tot["snapped_rows"] += 1
                if info["snapped"] == c["n"]:
                    tot["kzero"] += 1
            tot["exact"] += int(bool(info.get("exact"))); tot["at_threshold"] += int(bool(info.get("at_threshold")))
            for kind, msg in bad:
                nbad += 1
                ctx.fail("fisher-vs-match:%s" % kind,
                         "own-unique function %s, theta=%r: %s" % (c["fcn"], c["theta"], msg),
                         dict(kind="fvm", data=data, case=c))
            if i < 2 and d == 0:
                ctx.sample(dict(kind="fisher-vs-match", fcn=c["fcn"], theta=c["theta"], classes=c["cls"], fisher_stage=dict(params=r["fisher"].get("params"), nll=r["fisher"].get("nll"), codelen=r["fisher"].get("codelen")),
                                matching_stage=r["match"]), cap=8)
    tot["by_n"] = {str(k): v for k, v in tot["by_n"].items()}
    ctx.extra["fisher_vs_match"] = tot
    ctx.extra["fisher_vs_match_mismatches"] = nbad
    return tot


# ---- the excluded point of fisher_vs_match_identity_chain (hfin fails) on the real routines ------------------------------------

def excluded_point(ctx):
    """one parameter below threshold whose removal makes the likelihood +inf: theorem `hfin_needed` predicts
    codelen(match) - codelen(Fisher) = 0.5*ln(12/(theta^2 F)) > 0, same parameters, same likelihood"""
    x = [0.5, 1.0, 1.5, 2.0, 2.5]
    wit = []
    for fcn, n, theta, truth in (("x*inv(a0)", 1, [40.0], lambda v: v / 40.0), ("a0*x+inv(a1)", 2, [0.9, 25.0], lambda v: 0.9 * v + 0.04)):
        data = dict(x=x, y=[round(truth(v) + 1e-3 * (-1) ** k, 6) for k, v in enumerate(x)], s=[0.5] * 5)     # theta is (nearly) the ML point: positive curvature
        c = dict(bases=["pole"], fcn=fcn, n=n, theta=[_r7(t) for t in theta], cls=["pole"], Fset=None)
        try:
            r = _fvm_run(ctx, "x%d" % n, data, [c])[0]
        except Exception as e:
            ctx.disagree("fvm:excluded-point", "could not drive the two stages at the excluded point: %r" % (e,)); continue
        F, M = r["fisher"], r["match"]
        w = dict(fcn=fcn, theta=c["theta"], fisher_stage={k: F.get(k) for k in ("params", "nll", "codelen", "raised")}, matching_stage=M)
        if not F.get("raised") and M is not None:
            j = n - 1
            Fjj = F["deriv"][int(j * FVM_MAXP - (j - 1) * j / 2)]
            pred = 0.5 * math.log(12.0 / (c["theta"][j] ** 2 * Fjj)) if Fjj > 0 else float("nan")
            w.update(nsteps=abs(c["theta"][j]) * math.sqrt(Fjj / 12.0) if Fjj > 0 else None, predicted_difference=pred,
                     observed_difference=M["codelen"] - F["codelen"], same_params=[a == 0 for a in F["params"]] == [a == 0 for a in M["params"]],
                     same_nll=_close(F["nll"], M["nll"], 1e-6, 1e-9))
            ok = _cls(pred) == "fin" and abs((M["codelen"] - F["codelen"]) - pred) <= 1e-5 * max(1.0, abs(pred)) and w["same_params"] and w["same_nll"] and pred > 0
            w["as_hfin_needed_predicts"] = bool(ok)
            if not ok:
                ctx.disagree("corr:hfin_needed", "at the excluded point the real routines do not behave as theorem hfin_needed says: %r" % (w,))
        wit.append(w)
    ctx.extra["excluded_point_witness"] = dict(
        note="hypothesis hfin of fisher_vs_match_identity_chain fails here (likelihood +inf once the below-threshold parameter is zeroed; not a tree linear in its "
             "parameters, outside C20's quantifier): test_all_Fisher.convert_params restores theta and keeps the measured curvature, match.main takes its "
             "'infinite nll' branch (fish = 12/p**2): same parameters, same likelihood, larger parameter code length in the pipeline row",
        runs=wit)


def run(ctx):
    deep = not ctx.quick
    drift = extract.drifted(ctx.proof.get("extract", {}), ["test_all_Fisher.py:convert_params", "match.py:main", "simplifier.py:convert_params"]) if ctx.proof else []
    if drift:
        ctx.extra["drift_escalation"] = drift
    # ---- Fisher stage vs matching stage, the two real routines on the same inputs --------------------------------------
    import time as _time
    t0 = _time.time()
    fisher_vs_match(ctx, deep or bool(drift))
    excluded_point(ctx)
    ctx.extra["fisher_vs_match_wall_s"] = round(_time.time() - t0, 2)
    comp = 4
    g = libgen.generate(ctx, "core_maths", list(range(1, comp + 1)), P=1, copy="c20_lib")
    if not g["ok"]:
        ctx.disagree("library", "generation failed"); return
    import esr.fitting.likelihood as L
    import esr.fitting.fit_single as fs
    funs = {n: libgen.read_funs(libgen.libfile(g["dir"], n, "all_equations")) for n in range(1, comp + 1)}
    trees = {n: libgen.read_trees(libgen.libfile(g["dir"], n, "orig_trees")) for n in range(1, comp + 1)}
    nsets = 2 if not deep else 6
    for d in range(nsets):
        seed = ctx.seed * 50 + d
        rs = np.random.default_rng(seed)
        x = np.linspace(0.5, 3.0, 24); s = np.full(24, 0.2)
        y = rs.choice([1.3, -0.7]) * x + rs.choice([0.0, 2.0]) + rs.normal(0, 0.2, 24)
        dd = os.path.join(ctx.tmp, "c20_%d" % d); os.makedirs(dd)
        fitlib.write_data(os.path.join(dd, "d.txt"), x, y, s)
        n = ctx.rng.choice([3, 4])
        r = fitlib.run_pipeline(ctx, g["copy"], "core_maths", n, dd, "d.txt", "c20_%d" % d, P=1, seed=seed)
        rp0 = dict(kind="single", seed=seed, n=n)
        if not r["ok"]:
            ctx.fail("pipeline-incomplete", "pipeline n=%d does not complete: %s" % (n, fitlib.traceback_tail(r)), rp0); continue
        cm = np.atleast_2d(np.loadtxt(os.path.join(r["out_dir"], "codelen_matches_comp%d.dat" % n)))
        af = [float(v) for v in libgen.read_lines(libgen.libfile(g["dir"], n, "aifeyn")) if v.strip()]
        lik = L.GaussLikelihood("d.txt", "c20s_%d" % d, data_dir=dd, fn_set="core_maths")
        # candidate trees: original trees of this complexity that are linear in their parameters
        cands = []
        for i, (labels, f) in enumerate(zip(trees[n], funs[n])):
            m = oracle_mdl.linear_model(f)
            if m is None:
                continue
            cf = oracle_mdl.closed_form(x, y, s, m)
            if cf is None or cf["margin"] < 0.05:
                continue
            cands.append((i, labels, f, cf))
        ctx.rng.shuffle(cands)
        for i, labels, f, cf in cands[: (5 if not deep else 14)]:
            rp = dict(rp0, line=i, labels=labels)
            buf = io.StringIO()
            np.random.seed(seed + i)
            try:
                with contextlib.redirect_stdout(buf):
                    nll, DL, params = fs.single_function(list(labels), BASIS, lik, verbose=True, return_params=True, Niter=60, Nconv=10)
            except Exception as e:
                ctx.fail("single_function-raises:%s" % type(e).__name__, "single_function(%r) raises %r" % (labels, e), rp); continue
            rep = _parse_verbose(buf.getvalue())
            ctx.case((seed, tuple(labels)), nontrivial=True)
            # (a) exact sum of the values the API itself reports
            if all(k in rep for k in ("nll", "codelen", "aifeyn")):
                if not (abs((rep["nll"] + rep["codelen"] + rep["aifeyn"]) - DL) <= 1e-9 * max(1.0, abs(DL))):
                    ctx.fail("single-not-sum", "single_function(%r): returned DL %.12g is not the sum of its reported terms %.12g + %.12g + %.12g" % (labels, DL, rep["nll"], rep["codelen"], rep["aifeyn"]), rp)
                if abs(rep["nll"] - nll) > 1e-9 * max(1.0, abs(nll)):
                    ctx.fail("single-nll-mismatch", "single_function(%r) returns nll %.12g but reports %.12g" % (labels, nll, rep["nll"]), rp)
            # (b) closed form
            dl_cf = cf["nll"] + cf["codelen"] + oracle_mdl.aifeyn(labels)
            if abs(nll - cf["nll"]) > TOL or abs(DL - dl_cf) > 2 * TOL:
                ctx.fail("single-vs-closed-form", "single_function(%r): nll %.8g DL %.8g, closed form nll %.8g DL %.8g" % (labels, nll, DL, cf["nll"], dl_cf), rp)
            # (c) the pipeline's row for the same line
            if i < cm.shape[0] and np.isfinite(cm[i, 1]):
                dl_pipe = cm[i, 0] + cm[i, 1] + af[i]
                if abs(nll - cm[i, 0]) > TOL or abs(DL - dl_pipe) > 2 * TOL:
                    ctx.fail("single-vs-pipeline", "tree %r (line %d): single API nll %.8g DL %.8g, pipeline row nll %.8g DL %.8g" % (labels, i, nll, DL, cm[i, 0], dl_pipe), rp)
            # (d) the formula-string entry point on the same function
            try:
                with contextlib.redirect_stdout(io.StringIO()):
                    np.random.seed(seed + i)
                    res = fs.fit_from_string(f, BASIS, lik, verbose=False, Niter=60, Nconv=10)
                nll2, DL2, lab2 = res[0], res[1], res[2]
                if len(lab2) == len(labels):
                    dl2_cf = cf["nll"] + cf["codelen"] + oracle_mdl.aifeyn(lab2)
                    if abs(nll2 - cf["nll"]) > TOL or abs(DL2 - dl2_cf) > 2 * TOL:
                        ctx.fail("string-entry-vs-closed-form", "fit_from_string(%r) -> labels %r: nll %.8g DL %.8g, closed form nll %.8g DL %.8g" % (f, lab2, nll2, DL2, cf["nll"], dl2_cf), rp)
                    ctx.extra["string_entry_compared"] = ctx.extra.get("string_entry_compared", 0) + 1
            except Exception:
                ctx.extra["string_entry_raised"] = ctx.extra.get("string_entry_raised", 0) + 1
            ctx.sample(dict(labels=labels, fcn=f, single=[nll, DL], closed_form=[cf["nll"], dl_cf], reported=rep), cap=4)
    ctx.extra["corr_obligations"] = 3
    ctx.extra["corr_discharged"] = (int(not any(f["key"].startswith("single") or f["key"].startswith("string") or f["key"].startswith("pipeline") for f in ctx.failures))
                                    + int(not any(f["key"].startswith("fisher-vs-match") for f in ctx.failures) and not any(d["name"] == "fvm:harness" for d in ctx.disagreements))
                                    + int(not any(d["name"] in ("corr:hfin_needed", "fvm:excluded-point") for d in ctx.disagreements)))


def replay(ctx, data):
    data = data.get("replay", data)
    if data.get("kind") == "fvm":
        r = _fvm_run(ctx, "replay", data["data"], [data["case"]])[0]
        r["line"] = 0.0
        bad, info = _fvm_compare(r)
        print("replay: Fisher stage %r" % ({k: r["fisher"].get(k) for k in ("params", "nll", "codelen", "raised")},))
        print("replay: matching stage %r" % (r["match"],))
        for kind, msg in bad:
            print("replay: %s: %s" % (kind, msg))
        return not bad
    print("replay: re-run `check.py C20` with VERIF_SEED=%s (the data set is derived from the seed)" % data.get("seed"))
    return True
