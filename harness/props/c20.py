"""C20 — fitting a single tree agrees with the library pipeline and the closed form."""
import contextlib, io, math, os, re
import numpy as np
import common, extract, libgen, fitlib, oracle_mdl

LEAN_MODULE = "ESRVerif.Props.C20"
LEVEL = "other"
LEVEL_TEXT = ("Partial proof. Decided in Lean on tables regenerated from fit_single.single_function: the returned description length is the sum, in source "
              "order, of the likelihood term and the parameter code length returned by ONE call of the Fisher routine and the tree code length; the three "
              "routines are the pipeline's own (optimise_fun of the fitting stage, convert_params of the Fisher stage, aifeyn_complexity of the generator), so "
              "the theorems of C10, C07 and C08 (incl. single_function_agrees) apply to the single-tree API verbatim. NOT proved: that two independent "
              "optimiser runs reach the same optimum (MinimiserSpec) - sampled on every run: the single-tree API (labels entry point and formula-string "
              "entry point) against the pipeline's rows for the same trees and against the closed-form value for trees linear in their parameters, "
              "and the exact-sum identity on the values the API itself reports.")
TECHNIQUE = "Lean 4 decision over the regenerated assembly of single_function + differential runs single API vs pipeline vs closed form"
RULE = ("one case = one (data set, tree) fitted through single_function and fit_from_string, compared with the pipeline row of the same line and the closed form; "
        "non-trivial = the tree has >=1 parameter, is linear in them and is not within 5% of a snapping threshold; distinct by (data seed, tree)")
EXPLANATION = LEVEL_TEXT
TRUSTED = ["harness/oracle_mdl.py (closed form)", "harness/extractors/single.py"]
ASSUMPTIONS = ["MinimiserSpec (numerical): sampled with tolerance 5e-3 in NLL/DL", "the formula-string entry point is compared on formulas whose conversion returns the same label list"]
MODELLED = ["fit_single.py:single_function", "fit_single.py:fit_from_string"]

TOL = 5e-3
BASIS = [["x", "a"], ["inv"], ["+", "*", "-", "/", "pow"]]


def _parse_verbose(out):
    vals = {}
    for key, pat in (("nll", r"Residuals:\s*([-\d.e+naif]+)"), ("codelen", r"Parameter:\s*([-\d.e+naif]+)"), ("aifeyn", r"Function:\s*([-\d.e+naif]+)"), ("DL", r"Description length:\s*([-\d.e+naif]+)")):
        m = re.findall(pat, out)
        if m:
            try:
                vals[key] = float(m[-1])
            except ValueError:
                pass
    return vals


def run(ctx):
    deep = not ctx.quick
    comp = 4
    g = libgen.generate(ctx, "core_maths", list(range(1, comp + 1)), P=1, copy="c20_lib")
    if not g["ok"]:
        ctx.disagree("library", "generation failed"); return
    import esr.fitting.likelihood as L
    import esr.fitting.fit_single as fs
    funs = {n: libgen.read_funs(libgen.libfile(g["dir"], n, "all_equations")) for n in range(1, comp + 1)}
    trees = {n: libgen.read_trees(libgen.libfile(g["dir"], n, "orig_trees")) for n in range(1, comp + 1)}
    nsets = 2 if not deep else 6
    for d in range(nsets):
        seed = ctx.seed * 50 + d
        rs = np.random.default_rng(seed)
        x = np.linspace(0.5, 3.0, 24); s = np.full(24, 0.2)
        y = rs.choice([1.3, -0.7]) * x + rs.choice([0.0, 2.0]) + rs.normal(0, 0.2, 24)
        dd = os.path.join(ctx.tmp, "c20_%d" % d); os.makedirs(dd)
        fitlib.write_data(os.path.join(dd, "d.txt"), x, y, s)
        n = ctx.rng.choice([3, 4])
        r = fitlib.run_pipeline(ctx, g["copy"], "core_maths", n, dd, "d.txt", "c20_%d" % d, P=1, seed=seed)
        rp0 = dict(kind="single", seed=seed, n=n)
        if not r["ok"]:
            ctx.fail("pipeline-incomplete", "pipeline n=%d does not complete: %s" % (n, fitlib.traceback_tail(r)), rp0); continue
        cm = np.atleast_2d(np.loadtxt(os.path.join(r["out_dir"], "codelen_matches_comp%d.dat" % n)))
        af = [float(v) for v in libgen.read_lines(libgen.libfile(g["dir"], n, "aifeyn")) if v.strip()]
        lik = L.GaussLikelihood("d.txt", "c20s_%d" % d, data_dir=dd, fn_set="core_maths")
        # candidate trees: original trees of this complexity that are linear in their parameters
        cands = []
        for i, (labels, f) in enumerate(zip(trees[n], funs[n])):
            m = oracle_mdl.linear_model(f)
            if m is None:
                continue
            cf = oracle_mdl.closed_form(x, y, s, m)
            if cf is None or cf["margin"] < 0.05:
                continue
            cands.append((i, labels, f, cf))
        ctx.rng.shuffle(cands)
        for i, labels, f, cf in cands[: (5 if not deep else 14)]:
            rp = dict(rp0, line=i, labels=labels)
            buf = io.StringIO()
            np.random.seed(seed + i)
            try:
                with contextlib.redirect_stdout(buf):
                    nll, DL, params = fs.single_function(list(labels), BASIS, lik, verbose=True, return_params=True, Niter=60, Nconv=10)
            except Exception as e:
                ctx.fail("single_function-raises:%s" % type(e).__name__, "single_function(%r) raises %r" % (labels, e), rp); continue
            rep = _parse_verbose(buf.getvalue())
            ctx.case((seed, tuple(labels)), nontrivial=True)
            # (a) exact sum of the values the API itself reports
            if all(k in rep for k in ("nll", "codelen", "aifeyn")):
                if not (abs((rep["nll"] + rep["codelen"] + rep["aifeyn"]) - DL) <= 1e-9 * max(1.0, abs(DL))):
                    ctx.fail("single-not-sum", "single_function(%r): returned DL %.12g is not the sum of its reported terms %.12g + %.12g + %.12g" % (labels, DL, rep["nll"], rep["codelen"], rep["aifeyn"]), rp)
                if abs(rep["nll"] - nll) > 1e-9 * max(1.0, abs(nll)):
                    ctx.fail("single-nll-mismatch", "single_function(%r) returns nll %.12g but reports %.12g" % (labels, nll, rep["nll"]), rp)
            # (b) closed form
            dl_cf = cf["nll"] + cf["codelen"] + oracle_mdl.aifeyn(labels)
            if abs(nll - cf["nll"]) > TOL or abs(DL - dl_cf) > 2 * TOL:
                ctx.fail("single-vs-closed-form", "single_function(%r): nll %.8g DL %.8g, closed form nll %.8g DL %.8g" % (labels, nll, DL, cf["nll"], dl_cf), rp)
            # (c) the pipeline's row for the same line
            if i < cm.shape[0] and np.isfinite(cm[i, 1]):
                dl_pipe = cm[i, 0] + cm[i, 1] + af[i]
                if abs(nll - cm[i, 0]) > TOL or abs(DL - dl_pipe) > 2 * TOL:
                    ctx.fail("single-vs-pipeline", "tree %r (line %d): single API nll %.8g DL %.8g, pipeline row nll %.8g DL %.8g" % (labels, i, nll, DL, cm[i, 0], dl_pipe), rp)
            # (d) the formula-string entry point on the same function
            try:
                with contextlib.redirect_stdout(io.StringIO()):
                    np.random.seed(seed + i)
                    res = fs.fit_from_string(f, BASIS, lik, verbose=False, Niter=60, Nconv=10)
                nll2, DL2, lab2 = res[0], res[1], res[2]
                if len(lab2) == len(labels):
                    dl2_cf = cf["nll"] + cf["codelen"] + oracle_mdl.aifeyn(lab2)
                    if abs(nll2 - cf["nll"]) > TOL or abs(DL2 - dl2_cf) > 2 * TOL:
                        ctx.fail("string-entry-vs-closed-form", "fit_from_string(%r) -> labels %r: nll %.8g DL %.8g, closed form nll %.8g DL %.8g" % (f, lab2, nll2, DL2, cf["nll"], dl2_cf), rp)
                    ctx.extra["string_entry_compared"] = ctx.extra.get("string_entry_compared", 0) + 1
            except Exception:
                ctx.extra["string_entry_raised"] = ctx.extra.get("string_entry_raised", 0) + 1
            ctx.sample(dict(labels=labels, fcn=f, single=[nll, DL], closed_form=[cf["nll"], dl_cf], reported=rep), cap=4)
    ctx.extra["corr_obligations"] = 1
    ctx.extra["corr_discharged"] = int(not ctx.failures)


def replay(ctx, data):
    print("replay: re-run `check.py C20` with VERIF_SEED=%s (the data set is derived from the seed)" % data.get("seed"))
    return True
