"""C10 — parameter optimisation reaches the maximum-likelihood point on well-posed fits."""
import os
os.environ.setdefault("OMP_NUM_THREADS", "1")
os.environ.setdefault("OPENBLAS_NUM_THREADS", "1")
import contextlib, io, itertools, json, math, random, struct, sys, time
import common, extract

LEAN_MODULE = "ESRVerif.Props.C10"
LEVEL = "other"
LEVEL_TEXT = ("Lean theorems over a model of chi2_fcn / optimise_fun in which scipy's minimiser is an oracle: for every row of the "
              "sign table REGENERATED from the source the parameters reported are the ones whose likelihood was minimised; all sign "
              "patterns of 1 and 2 parameters are covered; each iteration keeps a minimal branch result; the loop returns the minimum "
              "over the iterations it examined with the back-transform of that iterate; under MinimiserSpec (returned fun = objective "
              "at returned x) the returned parameters reproduce the returned NLL; parameter-free functions are evaluated directly and "
              "NaN-on-data functions give +inf. That BFGS from PRNG starts numerically reaches the optimum is NOT a theorem "
              "(reaches_optimum_partial carries it as a hypothesis); it is conformance-sampled on every run against the closed-form "
              "weighted-least-squares minimum on the real code.")
TECHNIQUE = ("Lean 4 proof over a hand model of the selection loop + sign table/constants regenerated from source by an ast extractor; "
             "scripted-minimiser correspondence (real optimise_fun with test_all.minimize replaced by a PRNG-scripted oracle); "
             "closed-form WLS conformance oracle on the unmodified code")
RULE = ("scripts: PRNG-drawn (configuration, sequence of minimiser outcomes incl. NaN/inf/ties/exceptions), distinct = the whole op line, "
        "non-trivial = the loop was entered; fits: linear-in-parameter families x every sign pattern x magnitude draws x log_opt x box x "
        "numpy seeds under GaussLikelihood, distinct = (family, signs, mode, box, seed, magnitudes), non-trivial = at least one parameter")
EXPLANATION = LEVEL_TEXT
TRUSTED = ["hand model ESRVerif/Model/Optim.lean of optimise_fun's selection loop (tied by scripted-minimiser correspondence: exact on chi2, "
           "exit and number of minimize calls, 1e-9 on parameters)",
           "harness/extractors/optim.py (sign table, comparison operators, constants, back-transformation)",
           "scipy.optimize.minimize(method=BFGS) — not modelled; conformance-sampled against the closed-form WLS minimum",
           "numpy.argmin NaN convention, numpy/IEEE arithmetic (exact reals + specials in the theorems)"]
ASSUMPTIONS = ["MinimiserSpec: scipy returns fun = objective(x) and x of the length of the start point",
               "well-posed = whitened design matrix of full rank with condition number <= 1e4; NLL tolerance 1e-3 (absolute)",
               "parameter magnitudes inside the search box (log10|p| in [pmin,pmax] for log_opt with <=2 parameters, |p| <= pmax otherwise)",
               "the likelihood never returns NaN (ESR's classes map NaN to inf) for the statement 'minimum over ALL minimize calls'"]
# tables whose committed version may stand in as a hand-written model when the translator cannot read the source;
# value = the correspondence that then ties it to the code (common.prove / common.decide)
FALLBACK = {'Optim': 'real optimise_fun under a scripted minimiser vs the Lean model (branch taken, back-transformed parameters, returned value)'}
MODELLED = ["test_all.py:chi2_fcn", "test_all.py:optimise_fun"]

TOL_NLL = 1e-3
TOL_REPRO = 1e-9

# ----------------------------------------------------------------------------------------------------------------------
# small helpers
# ----------------------------------------------------------------------------------------------------------------------

f2b, b2f = common.f2b, common.b2f


def _same(a, b, rel=1e-9):
    a, b = float(a), float(b)
    if math.isnan(a) or math.isnan(b):
        return math.isnan(a) and math.isnan(b)
    if math.isinf(a) or math.isinf(b):
        return a == b
    return a == b or abs(a - b) <= rel * max(abs(a), abs(b))


@contextlib.contextmanager
def _quiet():
    with contextlib.redirect_stdout(io.StringIO()):
        yield


def _basis(np):
    return {"x": lambda x: x, "1": lambda x: np.ones_like(x), "x2": lambda x: x * x, "x3": lambda x: x * x * x,
            "inv": lambda x: 1.0 / x, "sqrt": lambda x: np.sqrt(x), "log": lambda x: np.log(x), "exp": lambda x: np.exp(x)}


# linear-in-parameter families in ESR's own function syntax (run_sympify locals): name -> (string, basis per parameter)
FAMILIES = {
    "p1_x": ("a0*x", ["x"]),
    "p1_inv": ("a0*inv(x)", ["inv"]),
    "p1_const": ("a0", ["1"]),
    "p1_sq": ("square(x)*a0", ["x2"]),
    "p2_line": ("a0*x+a1", ["x", "1"]),
    "p2_invx": ("a0*inv(x)+a1*x", ["inv", "x"]),
    "p2_sqlog": ("a1*log(x)+a0*square(x)", ["x2", "log"]),
    "p2_exp": ("a0+a1*exp(x)", ["1", "exp"]),
    "p3_quad": ("a0+a1*x+a2*square(x)", ["1", "x", "x2"]),
    "p3_inv": ("a0*inv(x)+a1+a2*x", ["inv", "1", "x"]),
    "p3_sqrt": ("a0*x+a1*sqrt(x)+a2*inv(x)", ["x", "sqrt", "inv"]),
    "p4_cubic": ("a0+a1*x+a2*square(x)+a3*inv(x)", ["1", "x", "x2", "inv"]),
}
QUICK_FAMS = ["p1_x", "p1_inv", "p1_const", "p2_line", "p2_invx", "p2_sqlog", "p3_quad", "p3_inv"]

PARAM_FREE = [("x", lambda np, x: x), ("inv(x)", lambda np, x: 1 / x), ("square(x)", lambda np, x: x * x),
              ("pow(x,x)", lambda np, x: x ** x), ("sqrt(x)+x", lambda np, x: np.sqrt(x) + x), ("log(x)", lambda np, x: np.log(x)),
              ("x+inv(x)", lambda np, x: x + 1 / x), ("exp(x)", lambda np, x: np.exp(x)), ("cube(x)-x", lambda np, x: x ** 3 - x)]
NAN_ON_DATA = ["a0*acos(x+2)", "a0+acos(x+3)", "a0*x+a1*acos(x+2)", "a0*asin(2+x)+a1", "a0+a1*x+a2*acos(x+2)", "acosh(a0-a0-x)"]


def _gauss_nll(np, ypred, y, yerr):
    """independent Gaussian negative log-likelihood"""
    return float(np.sum(0.5 * ((ypred - y) / yerr) ** 2) + len(y) * 0.5 * math.log(2 * math.pi) + np.sum(np.log(yerr)))


# ----------------------------------------------------------------------------------------------------------------------
# (b) conformance: real optimise_fun on linear-in-parameter families vs the closed-form WLS minimum
# ----------------------------------------------------------------------------------------------------------------------

def _make_data(np, fam, p, npts, err, dseed):
    """data whose weighted-least-squares solution is exactly p (noise projected off the column space)"""
    rs = np.random.RandomState(dseed)
    B = _basis(np)
    x = np.sort(rs.uniform(0.5, 3.0, npts)) if dseed % 2 else np.linspace(0.5, 3.0, npts)
    yerr = err * (1.0 + (0.5 * rs.uniform(size=npts) if dseed % 3 == 0 else 0.0)) * np.ones(npts)
    X = np.stack([B[b](x) for b in FAMILIES[fam][1]], 1)
    noise = rs.normal(size=npts) * yerr
    A = X / yerr[:, None]
    coef = np.linalg.lstsq(A, noise / yerr, rcond=None)[0]
    y = X @ np.array(p) + (noise - X @ coef)
    return x, y, yerr


def _closed_form(np, fam, x, y, yerr):
    B = _basis(np)
    X = np.stack([B[b](x) for b in FAMILIES[fam][1]], 1)
    A = X / yerr[:, None]
    sol, _, rank, sv = np.linalg.lstsq(A, y / yerr, rcond=None)
    return sol, _gauss_nll(np, X @ sol, y, yerr), int(rank), float(sv[0] / sv[-1])


def fit_case(case):
    """run ONE fit on the real code; returns the measurements and the verdict (used by the pool and by replay)"""
    import numpy as np
    import esr.fitting.test_all as ta
    from esr.fitting.likelihood import GaussLikelihood
    fam = case["fam"]
    x, y, yerr = (np.array(case[k], dtype=float) for k in ("x", "y", "yerr"))
    d = os.path.join(case["tmp"], "fit_%d_%d" % (os.getpid(), case.get("idx", 0)))
    os.makedirs(d, exist_ok=True)
    np.savetxt(os.path.join(d, "data.txt"), np.stack([x, y, yerr], 1), fmt="%.18e")
    t0 = time.time()
    with _quiet():
        lik = GaussLikelihood("data.txt", "c10", data_dir=d)
        np.random.seed(case["np_seed"])
        chi2, params = ta.optimise_fun(FAMILIES[fam][0], lik, 5, case["pmin"], case["pmax"], log_opt=case["log_opt"])
    dt = time.time() - t0
    sol, nll_min, rank, cond = _closed_form(np, fam, lik.xvar, lik.yvar, lik.yerr)
    k = len(FAMILIES[fam][1])
    params = [float(v) for v in params]
    B = _basis(np)
    ypred = sum(params[i] * B[b](lik.xvar) for i, b in enumerate(FAMILIES[fam][1]))
    nll_at = _gauss_nll(np, ypred, lik.yvar, lik.yerr)
    chi2 = float(chi2)
    problems = []
    if not (chi2 - nll_min <= TOL_NLL):
        problems.append("returned NLL %.12g exceeds the closed-form WLS minimum %.12g by %.3g (> %g)" % (chi2, nll_min, chi2 - nll_min, TOL_NLL))
    if chi2 < nll_min - 1e-6 * max(1.0, abs(nll_min)):
        problems.append("returned NLL %.12g is below the global minimum %.12g" % (chi2, nll_min))
    if not _same(nll_at, chi2, TOL_REPRO) and not abs(nll_at - chi2) <= TOL_REPRO:
        problems.append("returned parameters %r give NLL %.12g, not the returned %.12g" % (params[:k], nll_at, chi2))
    if any(v != 0.0 for v in params[k:]):
        problems.append("padding entries of the parameter vector are not zero: %r" % (params,))
    return dict(chi2=chi2, params=params, nll_min=nll_min, nll_at=nll_at, sol=[float(v) for v in sol], rank=rank, cond=cond,
                problems=problems, wall=dt)


def _pool_init():
    sys.stdout = open(os.devnull, "w")


def _fit_cases(ctx, deep):
    import numpy as np
    rng = ctx.rng
    fams = list(FAMILIES) if deep else QUICK_FAMS
    nseeds = 6 if deep else 1
    ndraw = 3 if deep else 1
    cases = []
    for fam in fams:
        k = len(FAMILIES[fam][1])
        for signs in itertools.product((1, -1), repeat=k):
            for log_opt in (False, True):
                logmode = log_opt and k <= 2
                boxes = [(0, 3), (-2, 3)] if logmode else [(0, 3), (0, 1000)]
                for (pmin, pmax) in boxes:
                    for _ in range(ndraw):
                        if logmode:
                            lo, hi = pmin, pmax                                   # log10|p| inside the box
                        else:
                            lo, hi = -2.0, math.log10(pmax)                       # |p| in [1e-2, pmax]
                        mags = [10 ** rng.uniform(lo, hi) for _ in range(k)]
                        # make sure the extremes of the magnitude range are exercised too
                        if rng.random() < 0.3:
                            mags[rng.randrange(k)] = 10 ** (lo if rng.random() < 0.5 else hi) * (1.0001 if lo == hi else 1.0)
                        p = [s * m for s, m in zip(signs, mags)]
                        for _s in range(nseeds):
                            dseed = rng.randrange(1 << 30)
                            npts = rng.choice([12, 24, 40]) if deep else 24
                            err = rng.choice([0.05, 0.2, 1.0])
                            x, y, yerr = _make_data(np, fam, p, npts, err, dseed)
                            cases.append(dict(kind="fit", fam=fam, fcn=FAMILIES[fam][0], p_true=p, signs=list(signs), log_opt=log_opt,
                                              pmin=pmin, pmax=pmax, np_seed=rng.randrange(1 << 31), x=list(map(float, x)),
                                              y=list(map(float, y)), yerr=list(map(float, yerr))))
    return cases


def _run_fits(ctx, deep):
    import multiprocessing as mp
    import numpy as np
    cases = _fit_cases(ctx, deep)
    for i, c in enumerate(cases):
        c["idx"] = i
        c["tmp"] = os.path.join(ctx.tmp, "fits")
    os.makedirs(os.path.join(ctx.tmp, "fits"), exist_ok=True)
    import esr.fitting.test_all, esr.fitting.likelihood                      # import before forking
    nproc = min(16, os.cpu_count() or 1, max(1, len(cases)))
    t0 = time.time()
    # slowest first (2-parameter log fits) for a balanced pool
    order = sorted(range(len(cases)), key=lambda i: -(len(cases[i]["signs"]) * (4 if cases[i]["log_opt"] and len(cases[i]["signs"]) == 2 else 1)))
    with mp.get_context("fork").Pool(nproc, initializer=_pool_init) as pool:
        results = pool.map(fit_case, [cases[i] for i in order], chunksize=1)
    res = [None] * len(cases)
    for i, r in zip(order, results):
        res[i] = r
    worst = 0.0
    stats = {}
    illposed = 0
    for c, r in zip(cases, res):
        k = len(c["signs"])
        mode = "log" if (c["log_opt"] and k <= 2) else "lin"
        key = "fit:%s:signs=%s:%s:box=%s,%s" % (c["fam"], "".join("+" if s > 0 else "-" for s in c["signs"]), mode, c["pmin"], c["pmax"])
        if r["rank"] < k or r["cond"] > 1e4:
            illposed += 1                                                     # outside the property (not well-posed): not judged
            continue
        ctx.case((key, c["np_seed"], tuple(c["p_true"])), nontrivial=True)
        st = stats.setdefault("%dp-%s" % (k, mode), dict(n=0, max_gap=0.0, max_repro=0.0, wall=0.0))
        st["n"] += 1
        st["wall"] = round(st["wall"] + r["wall"], 2)
        if math.isfinite(r["chi2"]):
            st["max_gap"] = max(st["max_gap"], r["chi2"] - r["nll_min"])
            st["max_repro"] = max(st["max_repro"], abs(r["nll_at"] - r["chi2"]) / max(1.0, abs(r["chi2"])))
        if r["problems"]:
            rp = {q: c[q] for q in ("kind", "fam", "fcn", "p_true", "signs", "log_opt", "pmin", "pmax", "np_seed", "x", "y", "yerr")}
            ctx.fail(key, "optimise_fun(%r, log_opt=%s, pmin=%s, pmax=%s) with ML point %r, numpy seed %d: %s" % (
                c["fcn"], c["log_opt"], c["pmin"], c["pmax"], c["p_true"], c["np_seed"], "; ".join(r["problems"])), rp)
    if cases:
        c, r = cases[len(cases) // 2], res[len(cases) // 2]
        ctx.sample(dict(fit=dict(fcn=c["fcn"], ml_point=c["p_true"], log_opt=c["log_opt"], box=[c["pmin"], c["pmax"]], np_seed=c["np_seed"],
                                 npts=len(c["x"])), returned=dict(nll=r["chi2"], params=r["params"]), closed_form_nll=r["nll_min"]))
    ctx.extra["fits"] = dict(total=len(cases), ill_posed_skipped=illposed, per_class=stats, wall_s=round(time.time() - t0, 1), nproc=nproc,
                             tolerance_nll=TOL_NLL, tolerance_reproduce_rel=TOL_REPRO,
                             settings="defaults of optimise_fun / test_all.main: Niter_params=[40,60], Nconv_params=[5,20], BFGS defaults")
    return len(cases)


def _direct_and_nan(ctx, deep):
    """parameter-free functions are evaluated directly; functions NaN on the data give +inf (real code, real likelihood)"""
    import numpy as np
    import esr.fitting.test_all as ta
    from esr.fitting.likelihood import GaussLikelihood
    n = 0
    calls = []
    real_min = ta.minimize

    def spy(*a, **k):
        calls.append(1)
        return real_min(*a, **k)
    for rep in range(6 if deep else 2):
        rs = np.random.RandomState(ctx.rng.randrange(1 << 30))
        npts = ctx.rng.choice([8, 24])
        x = np.sort(rs.uniform(0.3, 2.5, npts))
        yerr = rs.uniform(0.1, 1.0, npts)
        y = rs.normal(size=npts) * 3
        d = os.path.join(ctx.tmp, "direct_%d" % rep)
        os.makedirs(d, exist_ok=True)
        np.savetxt(os.path.join(d, "data.txt"), np.stack([x, y, yerr], 1), fmt="%.18e")
        rp_data = dict(x=list(map(float, x)), y=list(map(float, y)), yerr=list(map(float, yerr)))
        with _quiet():
            lik = GaussLikelihood("data.txt", "c10", data_dir=d)
        ta.minimize = spy
        try:
            for log_opt in (False, True):
                for s, f in PARAM_FREE:
                    del calls[:]
                    with _quiet():
                        chi2, params = ta.optimise_fun(s, lik, 5, 0, 3, log_opt=log_opt)
                    want = _gauss_nll(np, f(np, lik.xvar), lik.yvar, lik.yerr)
                    n += 1
                    ctx.case(("direct", s, log_opt, rep), nontrivial=False)
                    if not (_same(chi2, want, 1e-9) and not np.any(params) and not calls):
                        ctx.fail("direct:%s:log_opt=%s" % (s, log_opt),
                                 "parameter-free %r: returned (%r, %r) after %d minimize calls; direct evaluation gives %r" % (s, float(chi2), list(map(float, params)), len(calls), want),
                                 dict(kind="direct", fcn=s, log_opt=log_opt, **rp_data))
                for s in NAN_ON_DATA:
                    del calls[:]
                    with _quiet():
                        chi2, params = ta.optimise_fun(s, lik, 5, 0, 3, log_opt=log_opt)
                    n += 1
                    ctx.case(("nan", s, log_opt, rep), nontrivial=True)
                    if not (float(chi2) == float("inf") and not np.any(params)):
                        ctx.fail("nan-on-data:%s:log_opt=%s" % (s, log_opt),
                                 "%r is NaN on the data for every parameter value but optimise_fun returned (%r, %r)" % (s, float(chi2), list(map(float, params))),
                                 dict(kind="nan", fcn=s, log_opt=log_opt, **rp_data))
        finally:
            ta.minimize = real_min
    ctx.extra["direct_and_nan_cases"] = n
    return n


# ----------------------------------------------------------------------------------------------------------------------
# (a) correspondence: real optimise_fun with a scripted minimiser vs the Lean selection loop
# ----------------------------------------------------------------------------------------------------------------------

# (string, nparam, python function (np, x, *a)) — the python function is the harness's own reading of the string
CORR_FUNS = [
    ("x", 0, lambda np, x: x), ("pow(x,x)", 0, lambda np, x: x ** x), ("inv(x)+x", 0, lambda np, x: 1 / x + x),
    ("a0*x", 1, lambda np, x, a: a * x), ("a0+x", 1, lambda np, x, a: a + x), ("pow(x,a0)", 1, lambda np, x, a: x ** a),
    ("acos(a0+x)", 1, lambda np, x, a: np.arccos(a + x)), ("a0*acos(x+2)", 1, lambda np, x, a: a * np.arccos(x + 2)),
    ("a0*x+a1", 2, lambda np, x, a, b: a * x + b), ("a0*pow(x,a1)", 2, lambda np, x, a, b: a * x ** b),
    ("a0*acos(a1+x)", 2, lambda np, x, a, b: a * np.arccos(b + x)), ("a0*x+a1*acos(x+2)", 2, lambda np, x, a, b: a * x + b * np.arccos(x + 2)),
    ("acos(a0+x)+acos(a1+x)", 2, lambda np, x, a, b: np.arccos(a + x) + np.arccos(b + x)),
    ("a0+a1*x+a2*square(x)", 3, lambda np, x, a, b, c: a + b * x + c * x * x),
    ("a0*acos(a1+x)+a2", 3, lambda np, x, a, b, c: a * np.arccos(b + x) + c),
    ("a0+a1*x+a2*square(x)+a3*cube(x)", 4, lambda np, x, a, b, c, d: a + b * x + c * x * x + d * x ** 3),
]
ITER_PARAMS = ([([40, 60], [5, 20])] * 6 + [([3, 2], [1, 1]), ([6, 1], [2, 1]), ([10, 0], [3, 0]), ([5], [5]), ([2, 1, 1], [1, 0, 1]),
                                          ([12, 4], [4, 1]), ([60], [8, 1]), ([20, 5], [2, 2])] * 2
               + [([5, 0], [6, 0]), ([0, 0], [1, 0]), ([4, 1], [-5, 2]), ([7, 1], [0, 0])])      # last four: ValueError (some nparam)
OFFSETS = [0.0, 0.0, 0.0, 0.25, -0.25, 0.49, -0.49, 0.5, -0.5, 0.51, -0.51, 1.0, -1.0, 1.99, -1.99, 2.0, -2.0, 2.01, -2.01, 3.0, -3.0, 10.0, -10.0]
SPECIAL_F = [float("inf"), float("inf"), float("-inf"), float("nan"), 1e100, 1.5e100, 9.9e99, 1e300, -1e300, 0.0]
SPECIAL_X = [0.0, float("nan"), float("inf"), float("-inf"), 400.0, -400.0, 308.0, -323.5]


class _Script(object):
    """deterministic lazily generated sequence of minimiser outcomes"""

    def __init__(self, seed, nparam):
        self.r = random.Random(seed)
        self.nparam = nparam
        self.kind = self.r.choice(["conv", "conv", "descend", "allinf", "infthen", "mixed", "mixed", "ties"])
        self.base = self.r.choice([0.0, 17.25, -40.5, 1234.5, 3.0e5]) + self.r.choice([0.0, self.r.uniform(-1, 1)])
        self.ninf = self.r.choice([1, 3, 49, 50, 51, 60])
        exc = self.r.random()
        self.exc_at = self.r.choice([0, 1, 2, 3, 5, 9, 30, 130]) if exc < 0.12 else None
        self.exc_kind = self.r.choice(["T", "T", "E", "N"])
        self.items = []

    def _fun(self, i):
        r = self.r
        if self.kind == "allinf":
            return float("inf") if r.random() < 0.97 else r.choice([float("-inf"), float("nan"), self.base])
        if self.kind == "infthen" and i < self.ninf:
            return float("inf") if r.random() < 0.95 else float("-inf")
        if self.kind == "descend":
            self.base -= r.choice([0.0, 0.1, 0.3, 1.0, 2.0, 2.5, 5.0]) if r.random() < 0.4 else 0.0
            return self.base + r.choice(OFFSETS[:11])
        if self.kind == "ties":
            return self.base + r.choice([0.0, 0.0, 0.5, -0.5, 2.0])
        if self.kind == "mixed" and r.random() < 0.25:
            return r.choice(SPECIAL_F)
        return self.base + r.choice(OFFSETS)

    def get(self, i):
        while len(self.items) <= i:
            k = len(self.items)
            if self.exc_at is not None and k == self.exc_at:
                self.items.append(self.exc_kind)
                continue
            x = [self.r.choice(SPECIAL_X) if self.r.random() < 0.06 else self.r.uniform(-3, 3) for _ in range(self.nparam)]
            self.items.append((x, self._fun(k), self.r.random() < 0.7))
        return self.items[i]

    @staticmethod
    def token(it):
        if isinstance(it, str):
            return it
        x, f, s = it
        return "o,%s,%d,%s" % (f2b(f), int(s), ";".join(f2b(v) for v in x))


def _signs_str(s):
    return "N" if s is None else "".join({"+": "+", "-": "-", None: "n"}[q] for q in s)


def _corr_scripts(ctx, nscripts):
    import numpy as np
    import scipy.optimize
    import esr.fitting.test_all as ta
    import esr.generation.simplifier as simplifier
    from esr.fitting.likelihood import Likelihood, GaussLikelihood

    class Stub(Likelihood):
        def __init__(self, x, y, yerr, fn_dir, with_xvar):
            if with_xvar:
                self.xvar = x
            self._x = x
            self.yvar, self.yerr, self.fn_dir = y, yerr, fn_dir
            self.sympify_raises = None

        def get_pred(self, x, a, eq_numpy, **kw):
            return Likelihood.get_pred(self, self._x, a, eq_numpy, **kw)

        def negloglike(self, a, eq_numpy, **kw):               # GaussLikelihood.negloglike on the stub's data
            ypred = self.get_pred(self._x, np.atleast_1d(a), eq_numpy)
            if not np.all(np.isreal(ypred)):
                return np.inf
            nll = np.sum(0.5 * (ypred - self.yvar) ** 2 / self.yerr ** 2 + 0.5 * np.log(2 * np.pi) + np.log(self.yerr))
            return np.inf if np.isnan(nll) else nll

        def run_sympify(self, fcn_i, **kw):
            if self.sympify_raises is not None:
                raise self.sympify_raises
            return Likelihood.run_sympify(self, fcn_i, **kw)

    rng = ctx.rng
    fn_dir = os.path.join(ctx.tmp, "corr_fn")
    os.makedirs(os.path.join(fn_dir, "compl_3"), exist_ok=True)
    xdat = np.linspace(0.1, 1.9, 7)
    ydat = np.array([0.3, -1.0, 2.0, 0.5, 1.5, -0.7, 0.9])
    edat = np.array([0.5, 0.4, 0.6, 0.5, 0.3, 0.7, 0.5])
    real_min = ta.minimize
    state = {}

    def oracle(fun, x0, args=(), method=None, options=None, **kw):
        i = state["i"]
        state["i"] = i + 1
        state["signs"].append(args[3])
        it = state["script"].get(i)
        if it == "T":
            raise simplifier.TimeoutException("scripted")
        if it == "N":
            raise NameError("scripted")
        if it == "E":
            raise FloatingPointError("scripted")
        x, f, s = it
        return scipy.optimize.OptimizeResult(x=np.array(x, dtype=float), fun=np.float64(f), success=bool(s), nit=1)

    ops, real, meta = [], [], []
    exits = {}
    ta.minimize = oracle
    try:
        for sidx in range(nscripts):
            fcn, nparam, pyf = rng.choice(CORR_FUNS)
            if rng.random() < 0.5:                                # weight towards the log-optimised arms
                fcn, nparam, pyf = rng.choice([f for f in CORR_FUNS if f[1] in (1, 2)])
            log_opt = rng.random() < 0.6
            test_success = rng.random() < 0.25
            max_param = rng.choice([4, 4, 4, 5, 6])
            niter_p, nconv_p = rng.choice(ITER_PARAMS)
            with_xvar = rng.random() >= 0.03
            lik = Stub(xdat, ydat, edat, fn_dir, with_xvar)
            sy = "ok"
            q = rng.random()
            if q < 0.015:
                sy, lik.sympify_raises = "timeout", simplifier.TimeoutException("scripted")
            elif q < 0.03:
                sy, lik.sympify_raises = "name", NameError("scripted")
            elif q < 0.045:
                sy, lik.sympify_raises = "other", ValueError("scripted")
            # previous-equations file
            comp, ignore_prev, listed = 0, True, False
            q = rng.random()
            arg = fcn
            if q < 0.12:
                comp = rng.choice([3, 3, 1])
                ignore_prev = rng.random() < 0.75
                listed = rng.random() < 0.6
                arg = fcn + "\n"
                with open(os.path.join(fn_dir, "compl_3", "previous_eqns_3.txt"), "w") as fh:
                    fh.write("exp(x)\n" + (arg if listed else "") + "square(x)\n")
            elif q < 0.3:
                arg = fcn + "\n"
            prev_seen = comp > 1 and ignore_prev and listed
            # the harness's own reading of the function on the data
            with np.errstate(all="ignore"):
                flags = "".join("1" if np.any(np.isnan(pyf(np, xdat, *p))) else "0" for p in itertools.product([1, -1], repeat=nparam)) if nparam else "-"
                direct = _gauss_nll(np, pyf(np, xdat), ydat, edat) if nparam == 0 else 0.0
            script = _Script(rng.randrange(1 << 62), max(nparam, 1))
            state.update(i=0, signs=[], script=script)
            try:
                with _quiet():
                    chi2, params = ta.optimise_fun(arg, lik, 5, 0, 3, comp=comp, log_opt=log_opt, max_param=max_param,
                                                   Niter_params=list(niter_p), Nconv_params=list(nconv_p), test_success=test_success,
                                                   ignore_previous_eqns=ignore_prev)
                out = ("ret", float(chi2), [float(v) for v in params], state["i"])
            except ValueError:
                out = ("raise ValueError",)
            except NameError:
                out = ("raise NameError", state["i"])
            ncalls = state["i"]
            toks = [_Script.token(script.get(i)) for i in range(ncalls + 8)]
            ops.append("optim %d %d %d %d %d %s %d %d %s %s %s %s %s" % (
                max_param, nparam, log_opt, test_success, prev_seen, sy, int("a0" in fcn), with_xvar, flags, f2b(direct),
                ",".join(map(str, niter_p)), ",".join(map(str, nconv_p)), " ".join(toks)))
            real.append(out)
            meta.append(dict(fcn=fcn, nparam=nparam, log_opt=log_opt, kind=script.kind, ncalls=ncalls, signs=[_signs_str(s) for s in state["signs"][:8]]))
            ctx.case(ops[-1] if ncalls else None, nontrivial=ncalls > 0)
            ek = out[0] if out[0] != "ret" else ("ret-inf" if out[1] == float("inf") else "ret-nan" if out[1] != out[1] else "ret")
            exits[ek] = exits.get(ek, 0) + 1
    finally:
        ta.minimize = real_min
    # the signs handed to chi2_fcn per arm, as the generated table says
    arms = [(n, lo) for n in (1, 2, 3, 4) for lo in (0, 1)]
    arm_ops = ["optimcalls %d %d" % a for a in arms]
    outs = common.model(ops + arm_ops)
    arm_signs = dict(zip(arms, outs[len(ops):]))
    bad = 0
    model_exits = {}
    for op, r, o, m in zip(ops, real, outs, meta):
        ok = True
        t = o.split()
        if r[0] == "ret":
            ok = len(t) == 5 and t[0] == "ret"
            if ok:
                model_exits[t[4]] = model_exits.get(t[4], 0) + 1
                mchi, mpar, mcons = b2f(t[1]), ([] if t[2] == "-" else [b2f(v) for v in t[2].split(",")]), int(t[3])
                bits_equal = f2b(r[1]) == t[1]
                ok = (bits_equal or _same(r[1], mchi, 1e-9 if m["nparam"] == 0 else 0.0)) and len(mpar) == len(r[2]) \
                    and all(_same(a, b, 1e-9) for a, b in zip(r[2], mpar)) and mcons == r[3]
        elif r[0] == "raise ValueError":
            ok = o == "raise ValueError"
        else:
            ok = o == "raise NameError %d" % r[1]
        # the signs really passed, against the generated arm
        if ok and m["ncalls"]:
            want = arm_signs.get((min(m["nparam"], 4), int(m["log_opt"])), "?").split("|")
            got = m["signs"]
            ok = all(got[i] == want[i % len(want)] for i in range(len(got)))
        if not ok:
            bad += 1
            ctx.disagree("corr:optimise_fun-scripted", dict(op=op[:600], code=repr(r)[:300], model=o[:300], meta=m))
    k = len(ops) // 2
    ctx.sample(dict(scripted=dict(meta=meta[k], op=ops[k][:400]), code=repr(real[k])[:200], model=outs[k][:200]))
    ctx.extra.setdefault("correspondence", {})["scripts"] = dict(n=len(ops), mismatch=bad, outcomes=exits, model_exit_kinds=model_exits,
                                                                 calls_total=sum(m["ncalls"] for m in meta),
                                                                 script_kinds=sorted(set(m["kind"] for m in meta)))
    return len(ops), bad


def _corr_chi2(ctx, n):
    """chi2_fcn's parameter vector vs the model's chi2Params"""
    import numpy as np
    import esr.fitting.test_all as ta
    rng = ctx.rng
    seen = []

    class Rec(object):
        def negloglike(self, p, eq_numpy, integrated=False):
            seen.append(list(p))
            return 0.0
    ops, real = [], []
    for _ in range(n):
        k = rng.choice([1, 1, 2, 2, 3, 4])
        q = rng.random()
        signs = None if q < 0.2 else [rng.choice(["+", "-", None]) for _ in range(k if q < 0.9 else rng.choice([0, k - 1, k + 1]))]
        x = [rng.choice(SPECIAL_X) if rng.random() < 0.1 else rng.uniform(-4, 4) for _ in range(k)]
        del seen[:]
        try:
            with np.errstate(all="ignore"):
                ta.chi2_fcn(np.array(x), Rec(), None, False, signs)
            real.append([float(v) for v in seen[0]])
        except (IndexError, ValueError):
            real.append(None)
        ops.append("optimchi2 %s %s" % (_signs_str(signs) if signs is None or signs else "e", ";".join(f2b(v) for v in x)))
    outs = common.model(ops)
    bad = 0
    for op, r, o in zip(ops, real, outs):
        if r is None:
            ok = o == "raise"
        else:
            got = [] if o == "-" else ([b2f(v) for v in o.split(";")] if o != "raise" else None)
            ok = got is not None and len(got) == len(r) and all(_same(a, b, 1e-12) for a, b in zip(r, got))
        if not ok:
            bad += 1
            ctx.disagree("corr:chi2_fcn", dict(op=op, code=r, model=o))
    ctx.case(("chi2", n), nontrivial=True, n=n)
    ctx.extra.setdefault("correspondence", {})["chi2_fcn"] = dict(n=len(ops), mismatch=bad)
    return len(ops), bad


# ----------------------------------------------------------------------------------------------------------------------
# anchored-line coverage of the real code during this run (sys.monitoring, in-process part only)
# ----------------------------------------------------------------------------------------------------------------------

class _LineCov(object):
    def __init__(self, funcs):
        self.codes = {f.__code__: f.__name__ for f in funcs}
        self.hit = set()
        self.tool = None

    def __enter__(self):
        mon = getattr(sys, "monitoring", None)
        if mon is None:
            return self
        for tid in (mon.COVERAGE_ID, 4, 3):
            try:
                mon.use_tool_id(tid, "c10cov")
                self.tool = tid
                break
            except ValueError:
                continue
        if self.tool is None:
            return self

        def line(code, ln):
            if code in self.codes:
                self.hit.add(ln)
            return mon.DISABLE
        mon.register_callback(self.tool, mon.events.LINE, line)
        for c in self.codes:
            mon.set_local_events(self.tool, c, mon.events.LINE)
        return self

    def __exit__(self, *a):
        mon = getattr(sys, "monitoring", None)
        if mon is not None and self.tool is not None:
            for c in self.codes:
                mon.set_local_events(self.tool, c, 0)
            mon.register_callback(self.tool, mon.events.LINE, None)
            mon.free_tool_id(self.tool)

    def report(self):
        out = {}
        for c, name in self.codes.items():
            lines = sorted(set(l for _, _, l in c.co_lines() if l is not None and l > c.co_firstlineno))
            out[name] = dict(executable=len(lines), executed=len([l for l in lines if l in self.hit]),
                             never_executed=[l for l in lines if l not in self.hit])
        return out


# ----------------------------------------------------------------------------------------------------------------------

def run(ctx):
    drift = extract.drifted(ctx.proof.get("extract", {}), MODELLED)
    deep = (not ctx.quick) or bool(drift)
    ctx.extra["source_drift"] = drift
    ctx.extra["extractor_error"] = ctx.proof.get("extract", {}).get("errors", {}).get("Optim")
    import esr.fitting.test_all as ta
    obligations, discharged = 2, 0
    with _LineCov([ta.optimise_fun, ta.chi2_fcn]) as cov:
        try:
            n1, b1 = _corr_scripts(ctx, 50000 if deep else 2000)
            n2, b2 = _corr_chi2(ctx, 20000 if deep else 2000)
            discharged = int(b1 == 0) + int(b2 == 0)
        except Exception as e:                                   # model executable missing / protocol broken
            ctx.disagree("corr:model-unavailable", repr(e)[:400])
        _direct_and_nan(ctx, deep)
    ctx.extra["anchored_line_coverage"] = cov.report()
    _run_fits(ctx, deep)
    ctx.extra["corr_obligations"] = obligations
    ctx.extra["corr_discharged"] = discharged
    ctx.extra["exhaustive"] = False


def replay(ctx, data):
    rp = data["replay"]
    import numpy as np
    if rp["kind"] == "fit":
        c = dict(rp)
        c["tmp"] = os.path.join(ctx.tmp, "fits")
        r = fit_case(c)
        print("optimise_fun(%r, log_opt=%s, pmin=%s, pmax=%s), numpy seed %d" % (c["fcn"], c["log_opt"], c["pmin"], c["pmax"], c["np_seed"]))
        print("  ML point (closed form) %r  NLL %.12g" % (r["sol"], r["nll_min"]))
        print("  returned NLL %.12g  params %r  NLL(params) %.12g" % (r["chi2"], r["params"], r["nll_at"]))
        for p in r["problems"]:
            print("  FAIL:", p)
        return not r["problems"]
    if rp["kind"] in ("direct", "nan"):
        import esr.fitting.test_all as ta
        from esr.fitting.likelihood import GaussLikelihood
        d = os.path.join(ctx.tmp, "replay_direct")
        os.makedirs(d, exist_ok=True)
        np.savetxt(os.path.join(d, "data.txt"), np.stack([np.array(rp[k]) for k in ("x", "y", "yerr")], 1), fmt="%.18e")
        with _quiet():
            lik = GaussLikelihood("data.txt", "c10", data_dir=d)
            chi2, params = ta.optimise_fun(rp["fcn"], lik, 5, 0, 3, log_opt=rp["log_opt"])
        print("optimise_fun(%r) -> (%r, %r)" % (rp["fcn"], float(chi2), list(map(float, params))))
        if rp["kind"] == "nan":
            return float(chi2) == float("inf") and not np.any(params)
        f = dict(PARAM_FREE)[rp["fcn"]]
        want = _gauss_nll(np, f(np, lik.xvar), lik.yvar, lik.yerr)
        print("  direct evaluation:", want)
        return _same(chi2, want, 1e-9) and not np.any(params)
    return True
