"""C04 — exhaustive search is never beaten by a function it enumerated (MDL optimality)."""
import json, math, os, time
import numpy as np
import common, extract, libgen, fitlib, oracle_mdl

LEAN_MODULE = ["ESRVerif.Props.C04", "ESRVerif.Props.C04b"]
LEVEL = "other"
LEVEL_TEXT = ("Partial proof (machine-checked composition). Proved in Lean over the C06 model of combine_DL, for tables of any size and any rank count: "
              "every row with a finite description length reports exactly the sum of its three reported terms; the first row of the final table is not "
              "above ANY variant row of ANY unique function; hence, if every enumerated tree has a line whose pipeline description length does not exceed "
              "its independently computed one (hypothesis hFaithful = optimiser reach C10 + code length C07 + exact transfer C05; C01/C03 give the line and "
              "the match), no enumerated tree beats the top row. NOT proved: hFaithful, which is numerical; it is sampled on every run by full pipeline runs "
              "(generate, fit, Fisher, match, combine) on data with planted truths, against the closed-form description length of every tree of the "
              "library that is linear in its parameters, together with the reproducibility of every row of final_<n>.dat. "
              "Props/C04b adds the row-reproducibility chain over the stage models: stage1_row_reproducible (C10 params_reproduce_nll under MinimiserSpec, every arm "
              "(parameter-count class, log_opt) of the regenerated optimiser table), fisher_row_reproducible (C07 nll_at_reported), match_row_reproducible (C05 matchRow_nll, "
              "transfer exactness as a named hypothesis), final_row_reproducible (C06 row_is_min: a final row copies a variant row) and their composition "
              "every_final_row_reproducible_partial; stage1_best_backtransform_needed shows that reporting the best value with the sign bookkeeping of another iteration breaks it. "
              "The end-to-end runs cover the fitting stage's options (log_opt False/True, start box, tmax) and multimodal fits (a periodic hook basis and osc_maths with a planted "
              "frequency): every row of negloglike_comp, codelen_comp_deriv, codelen_matches_comp and final_ is recomputed with evaluators that use no ESR code (string and tree), "
              "and the top row is compared with the planted tree's description length computed from the data alone.")
TECHNIQUE = ("Lean 4 composition of the C06 theorems and of the C10/C07/C05/C06 row-reproducibility theorems + end-to-end pipeline runs (option space, unimodal and "
             "multimodal fits, run concurrently) against an independent closed-form / bracketed description length and independent row evaluators")
RULE = ("one case = one (data set, tree) pair: the top row's DL against the tree's closed-form DL, plus every final-table row's reproducibility; non-trivial = "
        "the tree is linear in its parameters after a one-to-one reparametrisation of each (a0*x, x/a0, x + 1/a0, ...) and not within 5% of a snapping threshold, or it is the planted "
        "one-parameter tree of an option run (sin(a0*x), a0*x) with an interior optimum next to the planted value; distinct by (planted truth, noise, seed, fit options, tree line)")
EXPLANATION = LEVEL_TEXT
TRUSTED = ["harness/oracle_mdl.py (closed-form weighted least squares, exact Hessian, snapping rule, tree code length)",
           "the pipeline is run with the library of the staged copy and a Gaussian likelihood on synthetic data",
           "harness/oracle_tree.py (prefix-tree evaluator) and the numpy string evaluator of harness/props/c04.py (pow(a,b) = |a|**b); scipy minimize_scalar for the planted tree"]
ASSUMPTIONS = ["hFaithful (numerical): sampled, tolerance 5e-3 in description length",
               "row reproducibility is judged up to the 8 significant digits with which -logL and the parameters are stored (tolerance = 2e-5 relative + twice the effect of a last-digit change of any reported parameter); only rows of the FINAL table are violations, rows of the earlier stage files localise them",
               "multimodal trees: optimality is judged only for the planted tree (optimum bracketed at the planted value, reliably found by both optimiser modes on the chosen data); a multi-start that misses the global optimum of another multimodal tree is the named numerical gap (MinimiserSpec / FitSpec), not judged",
               "C04b: MinimiserSpec, transfer exactness at the likelihood level and the stage-to-stage read links are hypotheses (RowChain); option runs use tmax=60 so that the outcome does not depend on machine load", "only trees linear after a per-parameter reparametrisation have an independent closed form here; a weak parameter that cannot be zeroed is coded with ln 2 (ESR's convention, the larger of the candidate values, so the oracle never demands more than the code promises)"]
# tables whose committed version may stand in as a hand-written model when the translator cannot read the source;
# value = the correspondence that then ties it to the code (common.prove / common.decide)
FALLBACK = {'Rank': 'real combine_DL.main on random tables vs the Lean ranking model (the C06 correspondence, run here when the table cannot be regenerated)',
            'Match': 'every row of codelen_matches_comp<n>.dat of every end-to-end run recomputed with the independent evaluators (the match-stage statement of Props/C04b observed on the real code)',
            'Codelen': 'every row of codelen_comp<n>_deriv.dat of every end-to-end run recomputed with the independent evaluators (the Fisher-stage statement of Props/C04b observed on the real code)',
            'Optim': 'every row of negloglike_comp<n>.dat of every end-to-end run, log_opt False and True, recomputed with the independent evaluators (the fitting-stage statement of Props/C04b observed on the real code)'}
MODELLED = []

TOL = 5e-3


def _final_rows(path):
    rows = []
    for l in open(path):
        p = l.rstrip("\n").split(";")
        if len(p) < 7:
            continue
        rows.append(dict(rank=int(p[0]), fcn=p[1], DL=float(p[2]), prel=float(p[3]), nll=float(p[4]), codelen=float(p[5]), aifeyn=float(p[6]), params=[float(v) for v in p[7:]]))
    return rows


def _nll_at(lik, fcn, params):
    import sympy
    import esr.fitting.likelihood as L
    f, eq, _ = L.Likelihood.run_sympify(lik, fcn)
    k = len(oracle_mdl.params_of(f))
    syms = [sympy.Symbol("x", positive=True)] + [sympy.Symbol("a%d" % j, real=True) for j in range(k)]
    fn = sympy.lambdify(syms, eq, modules=["numpy"])
    return lik.negloglike(list(params[:k]), fn), k


def _prepare(ctx, lib, comp, truth, theta, noise, seed, P=1, exact_offset=False, kw=None):
    """Data set of one end-to-end run (main thread: touches ctx.extra) -> job dict for `_run_job` / `_analyse`."""
    rs = np.random.default_rng(seed)
    x = GRID.copy()
    s = np.full(30, noise)
    model = oracle_mdl.linear_model(truth)
    k, cols, off = model
    y = off(x) + sum(t * c(x) for t, c in zip(theta, cols)) + rs.normal(0, noise, 30)
    if truth == "a0 + x" and len(theta) == 1 and exact_offset:
        y = y + (theta[0] - float(np.mean(y - x)))          # make the ESTIMATED offset exactly the planted one
    pat = ctx.extra.setdefault("planted_sign_patterns", {})                  # input distribution: sign of every planted parameter
    sk = "%s [%s]" % (truth, ",".join("+" if t > 0 else "-" for t in theta))
    pat[sk] = pat.get(sk, 0) + 1
    tag = "c04_%d_%d%s" % (comp, seed, "_lo" if (kw or {}).get("fit", {}).get("log_opt") else "")
    dd = os.path.join(ctx.tmp, tag); os.makedirs(dd, exist_ok=True)
    fitlib.write_data(os.path.join(dd, "d.txt"), x, y, s)
    rp = dict(kind="dataset", basis=lib["name"], comp=comp, truth=truth, theta=list(theta), noise=noise, seed=seed, P=P, exact_offset=exact_offset)
    if kw:
        rp["kw"] = kw
    return dict(kind="dataset", lib=lib, comp=comp, truth=truth, theta=list(theta), noise=noise, seed=seed, P=P, kw=kw, x=x, y=y, s=s, tag=tag, dd=dd, rp=rp)


def _run_job(ctx, job):
    """The pipeline run of one job (worker thread: no ctx state is touched; every run has its own data directory and only
    READS the shared library copy — the default options never write into the library directory)."""
    lib = job["lib"]
    job["r"] = fitlib.run_pipeline(ctx, lib["copy"], lib["name"], job["comp"], job["dd"], "d.txt", job["tag"], P=job["P"], seed=job["seed"],
                                   timeout=1800, kw=job.get("kw"))
    return job


def _run_all(ctx, jobs, workers=None):
    """All pipeline runs of a plan, concurrently (each is a group of OS processes; this thread pool only waits for them)."""
    import concurrent.futures as cf
    workers = workers or max(1, min(len(jobs), int(os.environ.get("ESRV_C04_PAR", "8"))))
    t0 = time.time()
    with cf.ThreadPoolExecutor(max_workers=workers) as ex:
        list(ex.map(lambda j: _run_job(ctx, j), jobs))
    ctx.extra["pipeline_runs"] = ctx.extra.get("pipeline_runs", 0) + len(jobs)
    ctx.extra["pipeline_wall_s"] = round(ctx.extra.get("pipeline_wall_s", 0) + time.time() - t0, 1)


def _one_dataset(ctx, lib, comp, truth, theta, noise, seed, P=1, exact_offset=False, kw=None):
    job = _prepare(ctx, lib, comp, truth, theta, noise, seed, P=P, exact_offset=exact_offset, kw=kw)
    _analyse(ctx, _run_job(ctx, job))


def _analyse(ctx, job):
    import esr.fitting.likelihood as L
    lib, comp, truth, theta, noise, seed, rp, r = job["lib"], job["comp"], job["truth"], job["theta"], job["noise"], job["seed"], job["rp"], job["r"]
    x, y, s = job["x"], job["y"], job["s"]
    if not r["ok"]:
        ctx.fail("pipeline-incomplete", "pipeline at n=%d on data planted from %s does not complete: %s %s" % (comp, truth, r["res"]["error"], fitlib.traceback_tail(r)), rp)
        return
    rows = _final_rows(os.path.join(r["out_dir"], "final_%d.dat" % comp))
    if not rows:
        ctx.fail("empty-final-table", "final_%d.dat is empty for data planted from %s" % (comp, truth), rp); return
    lik = object.__new__(L.GaussLikelihood); lik.xvar, lik.yvar, lik.yerr = x, y, s
    # (1) every row is reproducible and is the sum of its terms
    nrep = 0
    for row in rows:
        if math.isfinite(row["DL"]):
            ssum = row["nll"] + row["codelen"] + row["aifeyn"]
            if abs(ssum - row["DL"]) > 1e-5 * max(1.0, abs(row["DL"])):
                ctx.fail("row-not-sum", "final row %d (%s): DL %.10g is not nll+codelen+aifeyn = %.10g" % (row["rank"], row["fcn"], row["DL"], ssum), rp)
            try:
                v, kk = _nll_at(lik, row["fcn"], row["params"])
            except Exception:
                continue
            nrep += 1
            if math.isfinite(v) and abs(v - row["nll"]) > 2e-5 * max(1.0, abs(v)):
                ctx.fail("row-not-reproducible", "final row %d: %s at the reported parameters %s has NLL %.9g, reported %.9g" % (row["rank"], row["fcn"], row["params"][:kk], v, row["nll"]), rp)
    # (1b) every row of every stage file, with the evaluators that use no ESR code
    bad = _stage_rows(ctx, job, SHIPPED_BASES.get(lib["name"]))
    _report_rows(ctx, job, bad, "%s n=%d, data %s theta=%s noise=%g seed=%d, P=%d" % (lib["name"], comp, truth, theta, noise, seed, job["P"]))
    # (2) the top row against the closed form of every linear tree of the library
    top = rows[0]["DL"]
    funs = libgen.read_funs(libgen.libfile(lib["dir"], comp, "all_equations"))
    trees = libgen.read_trees(libgen.libfile(lib["dir"], comp, "trees"))
    nlin = 0
    worst = None
    beaten = []
    cache = ctx.extra.setdefault("_models", {})
    for i, (f, labels) in enumerate(zip(funs, trees)):
        if f not in cache:
            cache[f] = oracle_mdl.separable_model(f)
        m = cache[f]
        if m is None:
            continue
        cf = oracle_mdl.closed_form_separable(x, y, s, m)
        if cf is None or cf["margin"] < 0.05 or not math.isfinite(cf["nll"]):
            continue
        nlin += 1
        ctx.extra.setdefault("closed_form_kinds", {}).setdefault(cf["kind"], 0)
        ctx.extra["closed_form_kinds"][cf["kind"]] += 1
        dl = cf["nll"] + cf["codelen"] + oracle_mdl.aifeyn(labels)
        ctx.case((truth, noise, seed, comp, i), nontrivial=True)
        if worst is None or dl < worst[0]:
            worst = (dl, i, f)
        if not top <= dl + TOL + 1e-7 * abs(dl):
            beaten.append((dl, i, "top-ranked DL %.8g (%s) exceeds the independently computed DL %.8g of tree %r (line %d, %s; theta*=%s, nll %.6g, codelen %.6g)" % (
                top, rows[0]["fcn"], dl, labels, i, f, [round(float(t), 5) for t in cf["theta_reported"]], cf["nll"], cf["codelen"])))
    for dl, i, what in sorted(beaten):             # the enumerated tree with the smallest description length first
        ctx.fail("top-beaten", what, dict(rp, line=i))
    ctx.sample(dict(truth=truth, theta=list(theta), noise=noise, seed=seed, comp=comp, top=rows[0]["fcn"], top_DL=top, best_linear=worst, linear_trees=nlin, rows_reproduced=nrep,
                    wall_s=round(r["wall_s"], 1)), cap=6)
    ctx.extra["linear_trees"] = ctx.extra.get("linear_trees", 0) + nlin
    ctx.extra["rows_reproduced"] = ctx.extra.get("rows_reproduced", 0) + nrep



# --------------------------------------------------------------------------------------------------------------------
# Row reproducibility of EVERY stage file, with evaluators that use no ESR code and no sympy
# --------------------------------------------------------------------------------------------------------------------
SHIPPED_BASES = {"core_maths": [["x", "a"], ["inv"], ["+", "*", "-", "/", "pow"]],
                 "osc_maths": [["x", "a"], ["inv", "sin"], ["+", "*", "-", "/", "pow"]]}
SIN_BASIS = [["x", "a"], ["sin"], ["*", "+"]]          # the periodic hook basis: 15 unique functions at complexity 4, 9 of them multimodal
PARAM_DIGITS = 1e-7                                    # parameters travel between the stages as text with 8 significant digits (%.7e)


def _str_value(fcn, x, params):
    """The function string evaluated with plain numpy (ESR's conventions: pow(a,b) = |a|**b, x > 0)."""
    env = {"sin": np.sin, "cos": np.cos, "tan": np.tan, "exp": np.exp, "log": lambda a: np.log(np.abs(a)), "sqrt": lambda a: np.sqrt(np.abs(a)),
           "Abs": np.abs, "pow": lambda a, b: np.power(np.abs(a), b), "inv": lambda a: 1.0 / a, "square": lambda a: a * a, "cube": lambda a: a * a * a,
           "zoo": np.inf, "oo": np.inf, "nan": np.nan, "pi": np.pi, "E": np.e, "x": x}
    for i, p in enumerate(params):
        env["a%d" % i] = float(p)
    with np.errstate(all="ignore"):
        return np.broadcast_to(np.asarray(eval(fcn, {"__builtins__": {}}, env), dtype=float), x.shape)


def _tree_value(labels, basis, x, params):
    """The label list (prefix form) evaluated point by point by harness/oracle_tree.py."""
    import oracle_tree
    t = oracle_tree.parse(labels, [set(b) for b in basis])
    out = np.empty(x.shape)
    env = {"a%d" % i: float(p) for i, p in enumerate(params)}
    for j, xv in enumerate(x):
        env["x"] = float(xv)
        try:
            out[j] = oracle_tree.evaluate(t, env)
        except (ArithmeticError, ValueError, OverflowError):
            out[j] = float("nan")
    return out


def _repro(value, params, k, reported, y, s):
    """Is `reported` the Gaussian NLL of the function at `params`?  -> None (not decidable: a non-finite side) or
    (ok, recomputed, tolerance).  Tolerance = the 8 digits of the reported value and what a change of the last stored digit of any
    reported parameter does to the likelihood (a parameter of a rapidly oscillating function is not determined better than that)."""
    def nll(q):
        try:
            f = value(q)
        except Exception:
            return float("nan")
        return oracle_mdl.gauss_nll(y, f, s) if np.all(np.isfinite(f)) else float("nan")
    if not math.isfinite(reported):
        return None
    v = nll(params)
    if not math.isfinite(v):
        return None
    slack = 0.0
    for j in range(min(k, len(params))):
        if params[j] == 0:
            continue
        for eps in (-PARAM_DIGITS, PARAM_DIGITS):
            q = list(params); q[j] = params[j] * (1.0 + eps)
            w = nll(q)
            if math.isfinite(w):
                slack = max(slack, abs(w - v))
    tol = 2e-5 * max(1.0, abs(v)) + 2.0 * slack
    return abs(v - reported) <= tol, v, tol


def _load(path):
    a = np.loadtxt(path)
    return np.atleast_2d(a)


def _stage_rows(ctx, job, basis):
    """Every row of negloglike_comp<n>.dat, codelen_comp<n>_deriv.dat, codelen_matches_comp<n>.dat and final_<n>.dat: the Gaussian
    likelihood of the row's function (string AND, where the string is a line of all_equations, its tree) at the row's parameters
    against the row's -logL; rows reported inf/nan are skipped.  Returns the rows that are not reproducible, per stage.
    Only FINAL rows are the property's own statement; the earlier files localise where a row went wrong."""
    lib, comp, r = job["lib"], job["comp"], job["r"]
    x, y, s = job["x"], job["y"], job["s"]
    uniq = libgen.read_funs(libgen.libfile(lib["dir"], comp, "unique_equations"))
    allf = libgen.read_funs(libgen.libfile(lib["dir"], comp, "all_equations"))
    trees = libgen.read_trees(libgen.libfile(lib["dir"], comp, "trees"))
    tree_of = {}
    for f, t in zip(allf, trees):
        tree_of.setdefault(f, t)
    out = r["out_dir"]
    bad = {"fit": [], "fisher": [], "match": [], "final": []}
    counts = ctx.extra.setdefault("stage_rows_checked", {"fit": 0, "fisher": 0, "match": 0, "final": 0, "tree_and_string": 0, "evaluators_differ": 0})

    def check(stage, idx, fcn, params, reported, labels=None):
        k = (max(oracle_mdl.params_of(fcn)) + 1) if oracle_mdl.params_of(fcn) else 0
        try:
            a = _repro(lambda q: _str_value(fcn, x, q), params, k, reported, y, s)
        except Exception:
            a = None
        b = None
        labels = labels if labels is not None else tree_of.get(fcn)
        if labels and basis:
            try:
                b = _repro(lambda q: _tree_value(labels, basis, x, q), params, k, reported, y, s)
            except Exception:
                b = None
        verdicts = [v for v in (a, b) if v is not None]
        if not verdicts:
            return
        counts[stage] += 1
        if a is not None and b is not None:
            counts["tree_and_string"] += 1
            if a[0] != b[0]:
                counts["evaluators_differ"] += 1          # string and tree denote different functions: C02's subject, not judged here
                return
        if not verdicts[0][0]:
            bad[stage].append(dict(stage=stage, row=idx, fcn=fcn, params=[float(p) for p in params[:max(k, 1)]], reported=float(reported),
                                   recomputed=float(verdicts[0][1]), tol=float(verdicts[0][2])))

    try:
        t1 = _load(os.path.join(out, "negloglike_comp%d.dat" % comp))
        for i, f in enumerate(uniq[:len(t1)]):
            check("fit", i, f, list(t1[i, 1:]), float(t1[i, 0]))
        t2 = _load(os.path.join(out, "codelen_comp%d_deriv.dat" % comp))
        for i, f in enumerate(uniq[:len(t2)]):
            if math.isfinite(t2[i, 0]):
                check("fisher", i, f, list(t2[i, 2:]), float(t2[i, 1]))
        t3 = _load(os.path.join(out, "codelen_matches_comp%d.dat" % comp))
        for i, f in enumerate(allf[:len(t3)]):
            if math.isfinite(t3[i, 1]):
                check("match", i, f, list(t3[i, 3:]), float(t3[i, 0]), labels=trees[i] if i < len(trees) else None)
    except (OSError, ValueError, IndexError) as e:
        ctx.notes.append("stage files of %s not readable: %r" % (job["tag"], e))
    for row in _final_rows(os.path.join(out, "final_%d.dat" % comp)):
        if math.isfinite(row["DL"]):
            check("final", row["rank"], row["fcn"], row["params"], row["nll"])
    return bad


def _report_rows(ctx, job, bad, what_run):
    """A final row that is not reproducible is the violation; the earliest stage file in which the same function's row is already
    not reproducible is named with it.  Earlier-stage rows that never reach the final table are only counted."""
    rp = job["rp"]
    early = {}
    for st in ("fit", "fisher", "match"):
        for b in bad[st]:
            early.setdefault(b["fcn"], b)
    first = ([b for st in ("fit", "fisher", "match") for b in bad[st]] or [None])[0]       # earliest stage file with such a row
    for b in bad["final"]:
        src = first or early.get(b["fcn"])
        loc = ""
        if src:
            loc = "; earliest stage file with a row that is not reproducible: %s stage, row %d (%s at %s: reported %.9g, recomputed %.9g); such rows per stage: fit %d, Fisher %d, match %d, final %d" % (
                src["stage"], src["row"], src["fcn"], src["params"], src["reported"], src["recomputed"], len(bad["fit"]), len(bad["fisher"]), len(bad["match"]), len(bad["final"]))
        ctx.fail("row-not-reproducible", "%s: final row %d: %s at the reported parameters %s has -logL %.9g (independent evaluator), reported %.9g (tolerance %.3g)%s" % (
            what_run, b["row"], b["fcn"], b["params"], b["recomputed"], b["reported"], b["tol"], loc), dict(rp, row=b))
    if not bad["final"]:
        n = sum(len(bad[st]) for st in ("fit", "fisher", "match"))
        if n:
            ctx.extra["stage_rows_flagged_without_final_row"] = ctx.extra.get("stage_rows_flagged_without_final_row", 0) + n
            ctx.extra.setdefault("stage_rows_flagged_examples", [])
            if len(ctx.extra["stage_rows_flagged_examples"]) < 6:
                ctx.extra["stage_rows_flagged_examples"].append(dict(run=what_run, row=(bad["fit"] + bad["fisher"] + bad["match"])[0]))


# --------------------------------------------------------------------------------------------------------------------
# Option space x multimodal fits: log_opt in {False, True}, a periodic basis, a planted frequency
# --------------------------------------------------------------------------------------------------------------------
OPT_X = np.linspace(0.3, 3.0, 16)
OPT_TMAX = 60          # per-function time limit of the fitting stage in these runs: with the default 5 s a loaded machine cuts the multi-start
                       # of a two-parameter function short (TimeoutException handler), which would make the outcome depend on the load


def _prepare_opt(ctx, lib, basis, comp, truth, theta, noise, seed, P, kw):
    """truth in {"sin(a0*x)", "a0*x"}: y = truth(theta) + noise on OPT_X."""
    rs = np.random.default_rng(seed)
    x = OPT_X.copy()
    s = np.full(x.shape, noise)
    y = _str_value(truth, x, theta) + rs.normal(0, noise, x.shape)
    kw = dict(kw or {})
    kw["fit"] = dict(kw.get("fit", {}), tmax=OPT_TMAX)
    fit = kw["fit"]
    tag = "c04o_%s_%d_%d_%s" % (lib["name"][-6:], comp, seed, "".join("%s%s" % (k[0], str(v)[0]) for k, v in sorted(fit.items())))
    dd = os.path.join(ctx.tmp, tag); os.makedirs(dd, exist_ok=True)
    fitlib.write_data(os.path.join(dd, "d.txt"), x, y, s)
    rp = dict(kind="options", basis=lib["name"], basis_ops=basis, comp=comp, truth=truth, theta=list(theta), noise=noise, seed=seed, P=P, kw=kw or {}, npts=len(x))
    pat = ctx.extra.setdefault("option_runs", {})
    ok = "%s n=%d %s" % (lib["name"], comp, json.dumps(fit, sort_keys=True))
    pat[ok] = pat.get(ok, 0) + 1
    return dict(kind="options", lib=lib, basis=basis, comp=comp, truth=truth, theta=list(theta), noise=noise, seed=seed, P=P, kw=kw, x=x, y=y, s=s, tag=tag, dd=dd, rp=rp)


def _planted_dl(truth, labels, theta, x, y, s):
    """Description length of a one-parameter planted tree from the data alone: own bracketed minimiser started at the planted value
    (the global optimum when the noise is small against the signal), own second difference, k ln n from the labels.
    None when the fit is not well-posed (no interior minimum next to the planted value, curvature not positive, within 5% of the
    snapping threshold)."""
    from scipy.optimize import minimize_scalar
    a0 = float(theta[0])

    def f(a):
        v = _str_value(truth, x, [a])
        return oracle_mdl.gauss_nll(y, v, s) if np.all(np.isfinite(v)) else float("inf")
    w = 0.05 * abs(a0)
    if not (f(a0) < f(a0 - w) and f(a0) < f(a0 + w)):
        return None
    res = minimize_scalar(f, bracket=(a0 - w, a0, a0 + w), tol=1e-13)
    a, nll = float(res.x), float(res.fun)
    if not (abs(a - a0) < w and math.isfinite(nll)):
        return None
    h = 1e-4 * abs(a)
    F = (f(a + h) - 2.0 * nll + f(a - h)) / (h * h)
    if not (F > 0):
        return None
    nsteps = abs(a) * math.sqrt(F / 12.0)
    if abs(math.log(nsteps)) < 0.05 or nsteps < 1:
        return None
    codelen = -0.5 * math.log(3.0) + 0.5 * math.log(F) + math.log(abs(a))
    return dict(a=a, nll=nll, codelen=codelen, aifeyn=oracle_mdl.aifeyn(labels), dl=nll + codelen + oracle_mdl.aifeyn(labels), F=F)


def _linear_trees(ctx, job, rows, key):
    """the top row against the closed form of every tree of the library that is linear after a per-parameter reparametrisation"""
    lib, comp, rp = job["lib"], job["comp"], job["rp"]
    x, y, s = job["x"], job["y"], job["s"]
    top = rows[0]["DL"]
    funs = libgen.read_funs(libgen.libfile(lib["dir"], comp, "all_equations"))
    trees = libgen.read_trees(libgen.libfile(lib["dir"], comp, "trees"))
    cache = ctx.extra.setdefault("_models", {})
    nlin = 0
    for i, (f, labels) in enumerate(zip(funs, trees)):
        if f not in cache:
            cache[f] = oracle_mdl.separable_model(f)
        m = cache[f]
        if m is None:
            continue
        cf = oracle_mdl.closed_form_separable(x, y, s, m)
        if cf is None or cf["margin"] < 0.05 or not math.isfinite(cf["nll"]):
            continue
        nlin += 1
        dl = cf["nll"] + cf["codelen"] + oracle_mdl.aifeyn(labels)
        ctx.case(key + (i,), nontrivial=True)
        if not top <= dl + TOL + 1e-7 * abs(dl):
            ctx.fail("top-beaten", "top-ranked DL %.8g (%s) exceeds the independently computed DL %.8g of tree %r (line %d, %s)" % (top, rows[0]["fcn"], dl, labels, i, f), dict(rp, line=i))
    return nlin


def _analyse_opt(ctx, job):
    lib, comp, truth, theta, rp, r = job["lib"], job["comp"], job["truth"], job["theta"], job["rp"], job["r"]
    x, y, s = job["x"], job["y"], job["s"]
    fit = (job.get("kw") or {}).get("fit", {})
    what_run = "%s n=%d fit options %s, data %s theta=%s noise=%g seed=%d, P=%d" % (lib["name"], comp, json.dumps(fit, sort_keys=True), truth, [round(t, 6) for t in theta], job["noise"], job["seed"], job["P"])
    if not r["ok"]:
        ctx.fail("pipeline-incomplete", "%s: the pipeline does not complete: %s %s" % (what_run, r["res"]["error"], fitlib.traceback_tail(r)), rp)
        return
    rows = _final_rows(os.path.join(r["out_dir"], "final_%d.dat" % comp))
    if not rows:
        ctx.fail("empty-final-table", "%s: final_%d.dat is empty" % (what_run, comp), rp); return
    for row in rows:
        if math.isfinite(row["DL"]):
            ssum = row["nll"] + row["codelen"] + row["aifeyn"]
            if abs(ssum - row["DL"]) > 1e-5 * max(1.0, abs(row["DL"])):
                ctx.fail("row-not-sum", "%s: final row %d (%s): DL %.10g is not nll+codelen+aifeyn = %.10g" % (what_run, row["rank"], row["fcn"], row["DL"], ssum), rp)
    bad = _stage_rows(ctx, job, job["basis"])
    _report_rows(ctx, job, bad, what_run)
    # the planted tree, from the data alone
    top = rows[0]["DL"]
    funs = libgen.read_funs(libgen.libfile(lib["dir"], comp, "all_equations"))
    trees = libgen.read_trees(libgen.libfile(lib["dir"], comp, "trees"))
    key = ("opt", lib["name"], comp, truth, job["seed"], json.dumps(fit, sort_keys=True))
    planted = None
    if truth in funs:
        line = funs.index(truth)
        planted = _planted_dl(truth, trees[line], theta, x, y, s)
        if planted is not None:
            ctx.case(key + ("planted",), nontrivial=True)
            ctx.extra["planted_multimodal_judged"] = ctx.extra.get("planted_multimodal_judged", 0) + (1 if "sin" in truth else 0)
            if not top <= planted["dl"] + TOL + 1e-7 * abs(planted["dl"]):
                ctx.fail("top-beaten", "%s: top-ranked DL %.8g (%s) exceeds the independently computed DL %.8g of the planted tree %r (line %d, %s; a0*=%.7g, -logL %.7g, codelen %.6g, tree term %.6g)" % (
                    what_run, top, rows[0]["fcn"], planted["dl"], trees[line], line, truth, planted["a"], planted["nll"], planted["codelen"], planted["aifeyn"]), dict(rp, line=line))
    nlin = _linear_trees(ctx, job, rows, key)
    ctx.sample(dict(run=what_run, top=rows[0]["fcn"], top_DL=top, planted_DL=(planted or {}).get("dl"), linear_trees=nlin,
                    not_reproducible={k: len(v) for k, v in bad.items()}, wall_s=round(r["wall_s"], 1)), cap=12)
    ctx.extra["linear_trees"] = ctx.extra.get("linear_trees", 0) + nlin


GRID = np.linspace(0.4, 3.2, 30)        # the abscissae of every data set of this check


def _scale_shapes(ctx, lib, comp):
    """The pure scale families of the library at this complexity: one-parameter trees f = a0*psi(x) with no offset and a
    non-constant psi (a0*x, a0/x, a0*x**2, a0*pow(x,x), ...), one representative per distinct psi (up to a constant factor).
    Their parameter's SIGN cannot move into the tree (core_maths has no unary minus), so a data set planted from -|c|*|psi|
    has a negative maximum-likelihood parameter in EVERY variant of its best class."""
    out, seen = [], []
    for f in libgen.read_funs(libgen.libfile(lib["dir"], comp, "all_equations")):
        if oracle_mdl.params_of(f) != [0]:
            continue
        m = oracle_mdl.linear_model(f)
        if m is None:
            continue
        with np.errstate(all="ignore"):
            c = np.broadcast_to(np.asarray(m[1][0](GRID), dtype=float), GRID.shape)
            o = np.broadcast_to(np.asarray(m[2](GRID), dtype=float), GRID.shape)
        if not (np.all(np.isfinite(c)) and np.all(o == 0)) or np.ptp(c) <= 1e-9 * np.max(np.abs(c)) or not (np.all(c > 0) or np.all(c < 0)):
            continue
        u = c / np.linalg.norm(c)
        if any(np.allclose(u, v, rtol=0, atol=1e-9) or np.allclose(u, -v, rtol=0, atol=1e-9) for v in seen):
            continue
        seen.append(u); out.append((f, 1.0 if c[0] > 0 else -1.0, float(np.sqrt(np.sum(c * c)))))
    return out


def _signed_scale_plan(ctx, lib, comps, per_comp, signs):
    """Sign sweep of the planted parameters (the fixed truths above are almost all positive): per complexity, `per_comp` scale
    families drawn from the library itself, planted as  sign * |c| * |psi(x)|  for every sign in `signs`, with |c| between 4
    and 60 precision steps sqrt(12/F) of the planted parameter (never snapped to zero, and both |c| < 1 and |c| > 1 occur)."""
    plan, planted = [], set()
    for comp in comps:
        shapes = _scale_shapes(ctx, lib, comp)
        ctx.extra.setdefault("scale_families", {})[str(comp)] = [f for f, _, _ in shapes]
        if not shapes:          # (never so for the shipped bases) the oracle only ever compares with trees that ARE in the library
            shapes = [("a0*x", 1.0, float(np.linalg.norm(GRID))), ("a0/x", 1.0, float(np.linalg.norm(1.0 / GRID)))]
        fresh = [t for t in shapes if t[0] not in planted]               # shapes not yet planted at a lower complexity come first
        stale = [t for t in shapes if t[0] in planted]
        picks = (ctx.rng.sample(fresh, len(fresh)) + ctx.rng.sample(stale, len(stale)))[:per_comp]
        planted.update(t[0] for t in picks)
        for j, (f, sgn_psi, norm) in enumerate(picks):
            noise = ctx.rng.choice([0.05, 0.3])
            mag = math.exp(ctx.rng.uniform(math.log(4.0), math.log(60.0))) * math.sqrt(12.0) * noise / norm
            for q, sg in enumerate(signs):
                plan.append((comp, f, [sg * sgn_psi * mag], noise, ctx.seed * 100 + comp * 10 + 5 + 2 * j + q, 1 if (j + q + comp) % 2 else 3))
    return plan


def _option_plan(ctx, core, deep):
    """End-to-end runs over the fitting stage's OPTIONS and over multimodal fits.
    * the periodic hook basis [x, a | sin | *, +] at complexity 4 (15 unique functions; sin(a0*x), sin(a0 + x), x + sin(a0), x*sin(a0),
      sin(sin(sin(a0))), sin(a0), a1*sin(a0), a1 + sin(a0) have optima in several sign branches) and the shipped osc_maths at complexity 4,
      data planted from the library's own sin(a0*x) with a frequency whose optimum both modes find reliably (|a0| in [2.1, 2.9], 16 points
      on [0.3, 3], noise 0.05: the basin of the planted optimum is > 10% of the start box in either mode and the loop runs all 100 starts);
    * log_opt in {False, True} on the SAME data; a narrower start box (pmin, pmax) and other Niter/Nconv in one run each;
    * a negative scale a0*x under log_opt (the '-' branch must win every start) at complexity 3 of both bases."""
    jobs = []
    g = libgen.generate(ctx, "verif_c04sin", [1, 2, 3, 4], P=1, basis=SIN_BASIS, copy="c04_lib_sin", timeout=900)
    if not g["ok"]:
        ctx.disagree("library", "generation of the periodic hook basis failed: %s" % g["res"]["error"]); return jobs
    sinlib = dict(copy=g["copy"], dir=g["dir"], name="verif_c04sin")
    go = libgen.generate(ctx, "osc_maths", [1, 2, 3, 4], P=1, copy="c04_lib_osc", timeout=900)
    osclib = dict(copy=go["copy"], dir=go["dir"], name="osc_maths") if go["ok"] else None
    if osclib is None:
        ctx.disagree("library", "generation of osc_maths failed: %s" % go["res"]["error"])
    base = ctx.seed * 100 + 700
    a = ctx.rng.uniform(2.1, 2.9)
    for q, lo in enumerate([True, False]):
        jobs.append(_prepare_opt(ctx, sinlib, SIN_BASIS, 4, "sin(a0*x)", [a], 0.05, base + 1, 1, dict(fit=dict(log_opt=lo))))
    a2 = ctx.rng.uniform(2.1, 2.9)
    jobs.append(_prepare_opt(ctx, sinlib, SIN_BASIS, 4, "sin(a0*x)", [a2], 0.05, base + 2, 3, dict(fit=dict(log_opt=True, pmin=-1, pmax=1))))
    jobs.append(_prepare_opt(ctx, sinlib, SIN_BASIS, 3, "a0*x", [-ctx.rng.uniform(0.5, 3.0)], 0.05, base + 3, 1, dict(fit=dict(log_opt=True))))
    jobs.append(_prepare_opt(ctx, core, SHIPPED_BASES["core_maths"], 3, "a0*x", [-ctx.rng.uniform(0.5, 3.0)], 0.05, base + 4, 1, dict(fit=dict(log_opt=True))))
    if osclib:
        jobs.append(_prepare_opt(ctx, osclib, SHIPPED_BASES["osc_maths"], 4, "sin(a0*x)", [ctx.rng.uniform(2.1, 2.9)], 0.05, base + 5, 3, dict(fit=dict(log_opt=True))))
    if deep:
        for q in range(3):
            jobs.append(_prepare_opt(ctx, sinlib, SIN_BASIS, 4, "sin(a0*x)", [ctx.rng.uniform(2.1, 2.9)], ctx.rng.choice([0.05, 0.1]), base + 10 + q, 1 + 2 * (q % 2),
                                     dict(fit=dict(log_opt=True, Niter_params=[30, 30], Nconv_params=[5, 5]) if q == 0 else dict(log_opt=bool(q % 2)))))
        if osclib:
            jobs.append(_prepare_opt(ctx, osclib, SHIPPED_BASES["osc_maths"], 4, "sin(a0*x)", [ctx.rng.uniform(2.1, 2.9)], 0.05, base + 20, 3, dict(fit=dict(log_opt=False))))
        jobs.append(_prepare_opt(ctx, core, SHIPPED_BASES["core_maths"], 4, "a0*x", [-ctx.rng.uniform(0.5, 3.0)], 0.05, base + 21, 3, dict(fit=dict(log_opt=True))))
    return jobs


def run(ctx):
    deep = not ctx.quick
    nmax = 5 if deep else 4
    g = libgen.generate(ctx, "core_maths", list(range(1, nmax + 1)), P=1, copy="c04_lib", timeout=1500)
    if not g["ok"]:
        ctx.disagree("library", "generation failed: %s" % g["res"]["error"]); return
    lib = dict(copy=g["copy"], dir=g["dir"], name="core_maths")
    truths = [("a0*x", [1.7]), ("a0*x + a1", [-0.8, 2.5]), ("a0/x", [3.0]), ("a0 + x", [0.02]), ("a0*x + a1", [0.9, 0.01]), ("a0 + x", [0.25])]
    plan = []
    for comp in ([3, 4] if not deep else [3, 4, 5]):
        for j in range(2 if not deep else 4):
            t, th = truths[(comp + j + ctx.seed) % len(truths)]
            plan.append((comp, t, th, ctx.rng.choice([0.05, 0.3]), ctx.seed * 100 + comp * 10 + j, 1 if j % 2 == 0 else 3))
    # a planted offset just below one precision step (sqrt(12)*sigma/sqrt(N)): trees that carry it as 1/a0 cannot snap it to zero
    for j, comp in enumerate([4] if not deep else [4, 5]):
        noise = 0.3
        plan.append((comp, "a0 + x", [ctx.rng.uniform(0.88, 0.97) * math.sqrt(12.0) * noise / math.sqrt(30.0)], noise, ctx.seed * 100 + 90 + j, 1, True))
    # sign sweep: negative multiplicative / divisive constants (every variant of the best class then carries a negative parameter)
    plan += _signed_scale_plan(ctx, lib, [3, 4] if not deep else [3, 4, 5], 1 if not deep else 2, [-1.0] if not deep else [-1.0, 1.0])
    if deep:
        # every sign pattern of a two-parameter truth (the all-positive one is in the fixed list above)
        for q, (s0, s1) in enumerate([(-1, 1), (1, -1), (-1, -1)]):
            plan.append((5, "a0*x + a1", [s0 * ctx.rng.uniform(0.5, 2.0), s1 * ctx.rng.uniform(0.5, 3.0)], ctx.rng.choice([0.05, 0.3]), ctx.seed * 100 + 60 + q, 1 if q % 2 else 3))
    jobs = []
    for item in plan:
        comp, t, th, noise, seed, P = item[:6]
        jobs.append(_prepare(ctx, lib, comp, t, th, noise, seed, P=P, exact_offset=(len(item) > 6)))
    jobs += _option_plan(ctx, lib, deep)
    _run_all(ctx, jobs)
    for job in jobs:
        (_analyse if job["kind"] == "dataset" else _analyse_opt)(ctx, job)
    ctx.extra.pop("_models", None)
    ctx.extra["corr_obligations"] = 1
    ctx.extra["corr_discharged"] = int(not ctx.failures)
    if (ctx.proof or {}).get("fallback", {}).get("Rank"):
        # the ranking table could not be regenerated: tie the committed ranking model to today's combine_DL.main directly
        from props import c06
        nbad, _, _ = c06.explore(ctx, 4000, "c04fb", False)
        ctx.extra["corr_obligations"] = 2
        ctx.extra["corr_discharged"] += int(nbad == 0)
        ctx.extra["rank_model_correspondence"] = dict(tables=4000, mismatching=nbad)


def replay(ctx, data):
    rp = data["replay"]
    c2 = common.Ctx("C04", "quick", 0); c2.tmp = ctx.tmp; c2.stage = ctx.stage
    hook = rp["basis"].startswith("verif_")
    g = libgen.generate(c2, rp["basis"], list(range(1, rp["comp"] + 1)), P=1, copy="c04r", basis=rp.get("basis_ops") if hook else None)
    lib = dict(copy=g["copy"], dir=g["dir"], name=rp["basis"])
    if rp.get("kind") == "options":
        job = _prepare_opt(c2, lib, rp.get("basis_ops"), rp["comp"], rp["truth"], rp["theta"], rp["noise"], rp["seed"], rp.get("P", 1), rp.get("kw"))
        _analyse_opt(c2, _run_job(c2, job))
    else:
        _one_dataset(c2, lib, rp["comp"], rp["truth"], rp["theta"], rp["noise"], rp["seed"], P=rp.get("P", 1), exact_offset=rp.get("exact_offset", False), kw=rp.get("kw"))
    for f in c2.failures[:5]:
        print(f["what"])
    return not c2.failures
