"""C04 — exhaustive search is never beaten by a function it enumerated (MDL optimality)."""
import math, os
import numpy as np
import common, extract, libgen, fitlib, oracle_mdl

LEAN_MODULE = "ESRVerif.Props.C04"
LEVEL = "other"
LEVEL_TEXT = ("Partial proof (machine-checked composition). Proved in Lean over the C06 model of combine_DL, for tables of any size and any rank count: "
              "every row with a finite description length reports exactly the sum of its three reported terms; the first row of the final table is not "
              "above ANY variant row of ANY unique function; hence, if every enumerated tree has a line whose pipeline description length does not exceed "
              "its independently computed one (hypothesis hFaithful = optimiser reach C10 + code length C07 + exact transfer C05; C01/C03 give the line and "
              "the match), no enumerated tree beats the top row. NOT proved: hFaithful, which is numerical; it is sampled on every run by full pipeline runs "
              "(generate, fit, Fisher, match, combine) on data with planted truths, against the closed-form description length of every tree of the "
              "library that is linear in its parameters, together with the reproducibility of every row of final_<n>.dat.")
TECHNIQUE = "Lean 4 composition of the C06 theorems + end-to-end pipeline runs against an independent closed-form description length"
RULE = ("one case = one (data set, tree) pair: the top row's DL against the tree's closed-form DL, plus every final-table row's reproducibility; non-trivial = "
        "the tree is linear in its parameters after a one-to-one reparametrisation of each (a0*x, x/a0, x + 1/a0, ...) and not within 5% of a snapping threshold; distinct by (planted truth, noise, seed, tree line)")
EXPLANATION = LEVEL_TEXT
TRUSTED = ["harness/oracle_mdl.py (closed-form weighted least squares, exact Hessian, snapping rule, tree code length)",
           "the pipeline is run with the library of the staged copy and a Gaussian likelihood on synthetic data"]
ASSUMPTIONS = ["hFaithful (numerical): sampled, tolerance 5e-3 in description length", "only trees linear after a per-parameter reparametrisation have an independent closed form here; a weak parameter that cannot be zeroed is coded with ln 2 (ESR's convention, the larger of the candidate values, so the oracle never demands more than the code promises)"]
# tables whose committed version may stand in as a hand-written model when the translator cannot read the source;
# value = the correspondence that then ties it to the code (common.prove / common.decide)
FALLBACK = {'Rank': 'real combine_DL.main on random tables vs the Lean ranking model (the C06 correspondence, run here when the table cannot be regenerated)'}
MODELLED = []

TOL = 5e-3


def _final_rows(path):
    rows = []
    for l in open(path):
        p = l.rstrip("\n").split(";")
        if len(p) < 7:
            continue
        rows.append(dict(rank=int(p[0]), fcn=p[1], DL=float(p[2]), prel=float(p[3]), nll=float(p[4]), codelen=float(p[5]), aifeyn=float(p[6]), params=[float(v) for v in p[7:]]))
    return rows


def _nll_at(lik, fcn, params):
    import sympy
    import esr.fitting.likelihood as L
    f, eq, _ = L.Likelihood.run_sympify(lik, fcn)
    k = len(oracle_mdl.params_of(f))
    syms = [sympy.Symbol("x", positive=True)] + [sympy.Symbol("a%d" % j, real=True) for j in range(k)]
    fn = sympy.lambdify(syms, eq, modules=["numpy"])
    return lik.negloglike(list(params[:k]), fn), k


def _one_dataset(ctx, lib, comp, truth, theta, noise, seed, P=1, exact_offset=False):
    import esr.fitting.likelihood as L
    rs = np.random.default_rng(seed)
    x = GRID.copy()
    s = np.full(30, noise)
    model = oracle_mdl.linear_model(truth)
    k, cols, off = model
    y = off(x) + sum(t * c(x) for t, c in zip(theta, cols)) + rs.normal(0, noise, 30)
    if truth == "a0 + x" and len(theta) == 1 and exact_offset:
        y = y + (theta[0] - float(np.mean(y - x)))          # make the ESTIMATED offset exactly the planted one
    pat = ctx.extra.setdefault("planted_sign_patterns", {})                  # input distribution: sign of every planted parameter
    sk = "%s [%s]" % (truth, ",".join("+" if t > 0 else "-" for t in theta))
    pat[sk] = pat.get(sk, 0) + 1
    tag = "c04_%d_%d" % (comp, seed)
    dd = os.path.join(ctx.tmp, tag); os.makedirs(dd, exist_ok=True)
    fitlib.write_data(os.path.join(dd, "d.txt"), x, y, s)
    r = fitlib.run_pipeline(ctx, lib["copy"], lib["name"], comp, dd, "d.txt", tag, P=P, seed=seed, timeout=1800)
    rp = dict(kind="dataset", basis=lib["name"], comp=comp, truth=truth, theta=list(theta), noise=noise, seed=seed, P=P, exact_offset=exact_offset)
    if not r["ok"]:
        ctx.fail("pipeline-incomplete", "pipeline at n=%d on data planted from %s does not complete: %s %s" % (comp, truth, r["res"]["error"], fitlib.traceback_tail(r)), rp)
        return
    rows = _final_rows(os.path.join(r["out_dir"], "final_%d.dat" % comp))
    if not rows:
        ctx.fail("empty-final-table", "final_%d.dat is empty for data planted from %s" % (comp, truth), rp); return
    lik = object.__new__(L.GaussLikelihood); lik.xvar, lik.yvar, lik.yerr = x, y, s
    # (1) every row is reproducible and is the sum of its terms
    nrep = 0
    for row in rows:
        if math.isfinite(row["DL"]):
            ssum = row["nll"] + row["codelen"] + row["aifeyn"]
            if abs(ssum - row["DL"]) > 1e-5 * max(1.0, abs(row["DL"])):
                ctx.fail("row-not-sum", "final row %d (%s): DL %.10g is not nll+codelen+aifeyn = %.10g" % (row["rank"], row["fcn"], row["DL"], ssum), rp)
            try:
                v, kk = _nll_at(lik, row["fcn"], row["params"])
            except Exception:
                continue
            nrep += 1
            if math.isfinite(v) and abs(v - row["nll"]) > 2e-5 * max(1.0, abs(v)):
                ctx.fail("row-not-reproducible", "final row %d: %s at the reported parameters %s has NLL %.9g, reported %.9g" % (row["rank"], row["fcn"], row["params"][:kk], v, row["nll"]), rp)
    # (2) the top row against the closed form of every linear tree of the library
    top = rows[0]["DL"]
    funs = libgen.read_funs(libgen.libfile(lib["dir"], comp, "all_equations"))
    trees = libgen.read_trees(libgen.libfile(lib["dir"], comp, "trees"))
    nlin = 0
    worst = None
    beaten = []
    cache = ctx.extra.setdefault("_models", {})
    for i, (f, labels) in enumerate(zip(funs, trees)):
        if f not in cache:
            cache[f] = oracle_mdl.separable_model(f)
        m = cache[f]
        if m is None:
            continue
        cf = oracle_mdl.closed_form_separable(x, y, s, m)
        if cf is None or cf["margin"] < 0.05 or not math.isfinite(cf["nll"]):
            continue
        nlin += 1
        ctx.extra.setdefault("closed_form_kinds", {}).setdefault(cf["kind"], 0)
        ctx.extra["closed_form_kinds"][cf["kind"]] += 1
        dl = cf["nll"] + cf["codelen"] + oracle_mdl.aifeyn(labels)
        ctx.case((truth, noise, seed, comp, i), nontrivial=True)
        if worst is None or dl < worst[0]:
            worst = (dl, i, f)
        if not top <= dl + TOL + 1e-7 * abs(dl):
            beaten.append((dl, i, "top-ranked DL %.8g (%s) exceeds the independently computed DL %.8g of tree %r (line %d, %s; theta*=%s, nll %.6g, codelen %.6g)" % (
                top, rows[0]["fcn"], dl, labels, i, f, [round(float(t), 5) for t in cf["theta_reported"]], cf["nll"], cf["codelen"])))
    for dl, i, what in sorted(beaten):             # the enumerated tree with the smallest description length first
        ctx.fail("top-beaten", what, dict(rp, line=i))
    ctx.sample(dict(truth=truth, theta=list(theta), noise=noise, seed=seed, comp=comp, top=rows[0]["fcn"], top_DL=top, best_linear=worst, linear_trees=nlin, rows_reproduced=nrep,
                    wall_s=round(r["wall_s"], 1)), cap=6)
    ctx.extra["linear_trees"] = ctx.extra.get("linear_trees", 0) + nlin
    ctx.extra["rows_reproduced"] = ctx.extra.get("rows_reproduced", 0) + nrep


GRID = np.linspace(0.4, 3.2, 30)        # the abscissae of every data set of this check


def _scale_shapes(ctx, lib, comp):
    """The pure scale families of the library at this complexity: one-parameter trees f = a0*psi(x) with no offset and a
    non-constant psi (a0*x, a0/x, a0*x**2, a0*pow(x,x), ...), one representative per distinct psi (up to a constant factor).
    Their parameter's SIGN cannot move into the tree (core_maths has no unary minus), so a data set planted from -|c|*|psi|
    has a negative maximum-likelihood parameter in EVERY variant of its best class."""
    out, seen = [], []
    for f in libgen.read_funs(libgen.libfile(lib["dir"], comp, "all_equations")):
        if oracle_mdl.params_of(f) != [0]:
            continue
        m = oracle_mdl.linear_model(f)
        if m is None:
            continue
        with np.errstate(all="ignore"):
            c = np.broadcast_to(np.asarray(m[1][0](GRID), dtype=float), GRID.shape)
            o = np.broadcast_to(np.asarray(m[2](GRID), dtype=float), GRID.shape)
        if not (np.all(np.isfinite(c)) and np.all(o == 0)) or np.ptp(c) <= 1e-9 * np.max(np.abs(c)) or not (np.all(c > 0) or np.all(c < 0)):
            continue
        u = c / np.linalg.norm(c)
        if any(np.allclose(u, v, rtol=0, atol=1e-9) or np.allclose(u, -v, rtol=0, atol=1e-9) for v in seen):
            continue
        seen.append(u); out.append((f, 1.0 if c[0] > 0 else -1.0, float(np.sqrt(np.sum(c * c)))))
    return out


def _signed_scale_plan(ctx, lib, comps, per_comp, signs):
    """Sign sweep of the planted parameters (the fixed truths above are almost all positive): per complexity, `per_comp` scale
    families drawn from the library itself, planted as  sign * |c| * |psi(x)|  for every sign in `signs`, with |c| between 4
    and 60 precision steps sqrt(12/F) of the planted parameter (never snapped to zero, and both |c| < 1 and |c| > 1 occur)."""
    plan, planted = [], set()
    for comp in comps:
        shapes = _scale_shapes(ctx, lib, comp)
        ctx.extra.setdefault("scale_families", {})[str(comp)] = [f for f, _, _ in shapes]
        if not shapes:          # (never so for the shipped bases) the oracle only ever compares with trees that ARE in the library
            shapes = [("a0*x", 1.0, float(np.linalg.norm(GRID))), ("a0/x", 1.0, float(np.linalg.norm(1.0 / GRID)))]
        fresh = [t for t in shapes if t[0] not in planted]               # shapes not yet planted at a lower complexity come first
        stale = [t for t in shapes if t[0] in planted]
        picks = (ctx.rng.sample(fresh, len(fresh)) + ctx.rng.sample(stale, len(stale)))[:per_comp]
        planted.update(t[0] for t in picks)
        for j, (f, sgn_psi, norm) in enumerate(picks):
            noise = ctx.rng.choice([0.05, 0.3])
            mag = math.exp(ctx.rng.uniform(math.log(4.0), math.log(60.0))) * math.sqrt(12.0) * noise / norm
            for q, sg in enumerate(signs):
                plan.append((comp, f, [sg * sgn_psi * mag], noise, ctx.seed * 100 + comp * 10 + 5 + 2 * j + q, 1 if (j + q + comp) % 2 else 3))
    return plan


def run(ctx):
    deep = not ctx.quick
    nmax = 5 if deep else 4
    g = libgen.generate(ctx, "core_maths", list(range(1, nmax + 1)), P=1, copy="c04_lib", timeout=1500)
    if not g["ok"]:
        ctx.disagree("library", "generation failed: %s" % g["res"]["error"]); return
    lib = dict(copy=g["copy"], dir=g["dir"], name="core_maths")
    truths = [("a0*x", [1.7]), ("a0*x + a1", [-0.8, 2.5]), ("a0/x", [3.0]), ("a0 + x", [0.02]), ("a0*x + a1", [0.9, 0.01]), ("a0 + x", [0.25])]
    plan = []
    for comp in ([3, 4] if not deep else [3, 4, 5]):
        for j in range(2 if not deep else 4):
            t, th = truths[(comp + j + ctx.seed) % len(truths)]
            plan.append((comp, t, th, ctx.rng.choice([0.05, 0.3]), ctx.seed * 100 + comp * 10 + j, 1 if j % 2 == 0 else 3))
    # a planted offset just below one precision step (sqrt(12)*sigma/sqrt(N)): trees that carry it as 1/a0 cannot snap it to zero
    for j, comp in enumerate([4] if not deep else [4, 5]):
        noise = 0.3
        plan.append((comp, "a0 + x", [ctx.rng.uniform(0.88, 0.97) * math.sqrt(12.0) * noise / math.sqrt(30.0)], noise, ctx.seed * 100 + 90 + j, 1, True))
    # sign sweep: negative multiplicative / divisive constants (every variant of the best class then carries a negative parameter)
    plan += _signed_scale_plan(ctx, lib, [3, 4] if not deep else [3, 4, 5], 1 if not deep else 2, [-1.0] if not deep else [-1.0, 1.0])
    if deep:
        # every sign pattern of a two-parameter truth (the all-positive one is in the fixed list above)
        for q, (s0, s1) in enumerate([(-1, 1), (1, -1), (-1, -1)]):
            plan.append((5, "a0*x + a1", [s0 * ctx.rng.uniform(0.5, 2.0), s1 * ctx.rng.uniform(0.5, 3.0)], ctx.rng.choice([0.05, 0.3]), ctx.seed * 100 + 60 + q, 1 if q % 2 else 3))
    for item in plan:
        comp, t, th, noise, seed, P = item[:6]
        _one_dataset(ctx, lib, comp, t, th, noise, seed, P=P, exact_offset=(len(item) > 6))
    ctx.extra.pop("_models", None)
    ctx.extra["corr_obligations"] = 1
    ctx.extra["corr_discharged"] = int(not ctx.failures)
    if (ctx.proof or {}).get("fallback", {}).get("Rank"):
        # the ranking table could not be regenerated: tie the committed ranking model to today's combine_DL.main directly
        from props import c06
        nbad, _, _ = c06.explore(ctx, 4000, "c04fb", False)
        ctx.extra["corr_obligations"] = 2
        ctx.extra["corr_discharged"] += int(nbad == 0)
        ctx.extra["rank_model_correspondence"] = dict(tables=4000, mismatching=nbad)


def replay(ctx, data):
    rp = data["replay"]
    c2 = common.Ctx("C04", "quick", 0); c2.tmp = ctx.tmp; c2.stage = ctx.stage
    g = libgen.generate(c2, rp["basis"], list(range(1, rp["comp"] + 1)), P=1, copy="c04r")
    _one_dataset(c2, dict(copy=g["copy"], dir=g["dir"], name=rp["basis"]), rp["comp"], rp["truth"], rp["theta"], rp["noise"], rp["seed"], P=rp.get("P", 1), exact_offset=rp.get("exact_offset", False))
    for f in c2.failures[:5]:
        print(f["what"])
    return not c2.failures
