"""C05 — fitted parameters transfer exactly from a unique function to its variants (esr/fitting/match.py)."""
import csv, itertools, json, math, os, subprocess, time
from concurrent.futures import ThreadPoolExecutor
import common, extract, mpirun

LEAN_MODULE = ["ESRVerif.Props.C05", "ESRVerif.Props.C05b", "ESRVerif.Props.C05c"]
LEVEL = "proof"
LEVEL_TEXT = ("Lean theorems over a statement-by-statement model of one row of match.main and of the list-level part of "
              "simplifier.convert_params: order of composition of the recorded substitutions, triangular flatten/unflatten of the Hessian, "
              "the guard on the loaded chain (regenerated from the source), never-finite for unrecoverable chains, reported parameters / "
              "likelihood / code length for recoverable chains, the tensor law of the quadratic form (Mathlib matrices) and its closed form for "
              "monomial maps.  Props/C05b proves the calculus behind 'the Fisher matrix transformed by the Jacobian of the map' over the reals "
              "(Mathlib Frechet derivative, inverse function theorem): for g twice continuously differentiable at theta^ with invertible Jacobian J, "
              "L twice continuously differentiable and stationary at theta^, and ANY L' with L'(g theta) = L theta near theta^, "
              "Hess L'(g theta^) = J^-T Hess L(theta^) J^-1 (ESR.C05.fisher_matrix_of_variant; basis-free hessian_variant, second-order chain rule "
              "hessian_comp_general / hessian_comp_at_stationary, stationarity_needed, fderiv_local_inverse), its diagonal "
              "H_{s(i) s(i)} / g_i'(theta_{s(i)})^2 for the one-parameter-to-one-parameter templates (fisher_diag_monomial) and F' = F / g'(theta^)^2 for "
              "sign flip, reciprocal, rescaling, real power, exp, log|.| with explicit derivatives (fisher_one_param, fisher_sign_flip, ...).  "
              "Proof level for this decision logic and this calculus; sympy subs/jacobian/lambdify and np.linalg.inv are inputs of the model "
              "and are checked on every run against an independent chain-rule oracle on synthetic libraries run through the real match.main; "
              "the oracle's J^-T F J^-1 is itself sampled against fisher_matrix_of_variant by finite differences of the variant's likelihood.  "
              "Props/C05c: row independence.  The stage is modelled twice, as a map of matchOne over the rows (matchFile) and as the loop that threads the "
              "tables negloglike/params_meas/all_fish through the iterations (matchLoop); an iteration can change the tables exactly when an array it writes "
              "in place is not a fresh row-local array, and that alias fact is regenerated from the source (Generated/Match.lean snapPaths: one entry per "
              "in-place write and origin reaching it, forward may-analysis of the loop body, harness/extractors/_norm_c05.py).  rows_do_not_share_state is a "
              "decide over the regenerated table; matchStage_eq_matchFile needs it; matchFile_row_local / _perm / _reindex / _reverse / _remove / _add and "
              "matchStage_ranks (with C14's getFunctions_tiles) are the consequences, each checked on the real match.main by metamorphic runs of libraries "
              "in which every unique function has 16-32 variants (every ordered pair of chain kinds, every below/at/above-threshold pattern for k<=2).")
TECHNIQUE = ("Lean 4 proof on a hand model of match.main's row logic + regenerated guard/constants + model-code correspondence on synthetic "
             "libraries (real match.main, 1-3 ranks) + independent numpy chain-rule oracle, "
             "whose transformed Fisher matrix is sampled against theorem ESR.C05.fisher_matrix_of_variant by central finite differences "
             "+ regenerated alias (freshness) table of every in-place write of the loop, decided in Lean "
             "+ metamorphic runs of the real match.main (function order reversed / shuffled, one variant per unique function removed, 1-3 ranks) on "
             "libraries with many variants per unique function, outputs compared bit for bit per function")
RULE = ("one evaluation = one row of a synthetic library pushed through the real match.main; distinct = (number of parameters, chain of "
        "templates, sign/threshold class of theta); non-trivial = non-empty chain or a snapped parameter.  Family libraries: for every k<=2 and every "
        "below/at/above pattern per parameter (k=3: 6 patterns, 27 at thorough depth) one unique function whose variants are listed as K + reversed(K), "
        "K a seeded permutation of (same parameterisation; sign flip, reciprocal, cube root of each parameter; rescale; swap/cycle; rename; nan), so every "
        "ordered pair of kinds occurs for the same unique function on the same rank; 6 schedules per library")
EXPLANATION = LEVEL_TEXT
TRUSTED = ["hand model ESRVerif/Model/Match.lean of match.py:64-229 and of the list-level part of simplifier.convert_params (tied by correspondence on every row)",
           "harness/extractors/match.py (guard AST, constants, statement order incl. the `if chain empty: ... else: try: convert_params` split)",
           "harness/extractors/_norm_c05.py: the freshness rules (which numpy calls return new arrays, which pass their argument through, basic slice = view, "
           "list/boolean-mask index = copy; results of simplifier.convert_params / count_params are new objects; callees do not write into their array arguments - "
           "simplifier.convert_params is hash-tracked in MODELLED) - fail closed: anything not positively fresh is reported as not fresh",
           "row independence on the real code is checked on the schedules run (6 per library), not for every permutation; the Lean theorems are about the model",
           "sympy subs/jacobian/lambdify and np.linalg.inv inside simplifier.convert_params: inputs of the model, compared with the independent chain-rule oracle "
           "(closed-form derivative per template, composed by the chain rule); that the oracle's F' = J^-T F J^-1 is the Hessian of the variant's negative "
           "log-likelihood is theorem ESR.C05.fisher_matrix_of_variant (diagonal: fisher_diag_monomial), no longer an assumption; the oracle samples it: central "
           "finite differences of the variant's Gauss likelihood at p^ = g(theta^) vs J^-T H J^-1 at the exact least-squares theta^ (tie:hessian-transform)",
           "a central finite-difference Hessian (steps 1e-4 |p_i| and half of it, one Richardson step, compared to 2e-5 of the matrix norm) is the Hessian; the per-template derivative "
           "formulas of the oracle (Tpl.d) are the derivatives (each is also proved for its one-parameter form: fisher_sign_flip / _reciprocal / _rescale / _power)",
           "'%.7e' text round-off between stages (outputs compared to 2e-7 relative, decisions exactly)"]
ASSUMPTIONS = ["try_integration=False (the default) in match.main",
               "max_param = 4 file layout (test_all.main: max(4, (comp-1)//2))",
               "a chain with the nan marker belongs to a variant with at least one parameter (generation records nan only when two parameters merge)",
               "'regular there' = every template of the chain is real-differentiable with non-zero derivative at the point it is applied to and the "
               "composed Jacobian is invertible; the real-power odd-root template a**(1/n) at a<0 (NaN under numpy) is therefore an excluded point (design F6)",
               "the Fisher matrix in derivs_comp<n>.dat is positive definite when the finiteness clause is demanded (a Hessian at a maximum-likelihood point)",
               "hypotheses of ESR.C05.fisher_matrix_of_variant, under which 'the Fisher matrix transformed by the Jacobian of the map' is the variant's Fisher matrix: "
               "the negative log-likelihood L is twice continuously differentiable and stationary at theta^ (a maximum-likelihood point in the interior; "
               "stationarity is needed: ESR.C05.stationarity_needed), the map g is twice continuously differentiable at theta^ with invertible Jacobian, and the "
               "variant evaluated at g(theta) is the unique function evaluated at theta for theta near theta^"]
# tables whose committed version may stand in as a hand-written model when the translator cannot read the source;
# value = the correspondence that then ties it to the code (common.prove / common.decide)
FALLBACK = {'Match': 'real match.main on synthetic libraries (all chains) vs the Lean matchRow model, bit-exact decisions, and row independence of the real '
                     'match.main (the alias fact of the table) checked directly: family libraries with every ordered pair of chain kinds per unique function, '
                     're-run reversed / shuffled / with variants removed / on 2 and 3 ranks, per-function output bit-identical'}
MODELLED = ["match.py:main", "simplifier.py:convert_params", "simplifier.py:load_subs"]
LEANCHECKER = True

MAXP = 4
FN_SET = "verif_c05"
F1_KEY = "match.py:guard:nonempty-recoverable-chain"


# =====================================================================================================================
# templates of recorded substitutions: file string, independent numpy semantics, derivative, regularity, model encoding
# =====================================================================================================================

class Tpl(object):
    def __init__(self, name, cls, s, f, d, reg, enc, inv):
        self.name, self.cls, self.s, self.f, self.d, self.reg, self.enc, self.inv = name, cls, s, f, d, reg, enc, inv


def _diag_tpl(name, cls, j, s, g, dg, reg, enc, inv):
    """a_j -> g(a_j), other parameters untouched"""
    import numpy as np

    def f(v):
        w = np.array(v, dtype=float); w[j] = g(np.float64(v[j])) if j < len(v) else 0.0
        return w

    def d(v):
        J = np.eye(len(v)); J[j, j] = dg(np.float64(v[j]))
        return J
    return Tpl(name, cls, s, f, d, lambda v: bool(reg(v[j])), "%d=%s" % (j, enc), {"a%d" % j: inv})


def templates(k):
    import numpy as np
    T = {}
    for j in range(k):
        a = "a%d" % j
        T["neg%d" % j] = _diag_tpl("neg%d" % j, "sign", j, "{%s: -%s}" % (a, a), lambda v: -v, lambda v: -1.0, lambda v: True, "neg_v%d" % j, "-%s" % a)
        T["inv%d" % j] = _diag_tpl("inv%d" % j, "reciprocal", j, "{%s: 1/%s}" % (a, a), lambda v: 1.0 / v, lambda v: -1.0 / (v * v), lambda v: v != 0, "inv_v%d" % j, "1/%s" % a)
        for n in (2, 3):
            T["scale%d_%d" % (j, n)] = _diag_tpl("scale%d_%d" % (j, n), "rescale", j, "{%s: %s/%d}" % (a, a, n), (lambda n: lambda v: v / n)(n), (lambda n: lambda v: 1.0 / n)(n),
                                                 lambda v: True, "divn_%d_v%d" % (n, j), "%d*%s" % (n, a))
        T["oddroot%d" % j] = _diag_tpl("oddroot%d" % j, "oddroot", j, "{%s: %s**(1/3)}" % (a, a), lambda v: v ** (1 / 3), lambda v: (1 / 3) * v ** (-2 / 3), lambda v: v > 0,
                                       "rpow_1_3_v%d" % j, "%s**3" % a)
        T["evenroot%d" % j] = _diag_tpl("evenroot%d" % j, "evenroot", j, "{%s: sqrt(Abs(%s))}" % (a, a), lambda v: np.sqrt(np.abs(v)), lambda v: np.sign(v) / (2 * np.sqrt(np.abs(v))),
                                        lambda v: v != 0, "rpow_1_2_abs_v%d" % j, "%s**2" % a)
        T["square%d" % j] = _diag_tpl("square%d" % j, "power", j, "{%s: %s**2}" % (a, a), lambda v: v * v, lambda v: 2 * v, lambda v: v != 0, "rpow_2_1_v%d" % j, "sqrt(Abs(%s))" % a)
        T["signroot%d" % j] = _diag_tpl("signroot%d" % j, "oddroot", j, "{%s: sqrt(Abs(%s))*sign(%s)}" % (a, a, a), lambda v: np.sqrt(np.abs(v)) * np.sign(v),
                                        lambda v: 1 / (2 * np.sqrt(np.abs(v))), lambda v: v != 0, "mul_rpow_1_2_abs_v%d_sign_v%d" % (j, j), "%s*Abs(%s)" % (a, a))
    for i in range(k):
        for j in range(i + 1, k):
            def f(v, i=i, j=j):
                w = np.array(v, dtype=float); w[i], w[j] = v[j], v[i]; return w

            def d(v, i=i, j=j):
                J = np.eye(len(v)); J[i, i] = J[j, j] = 0; J[i, j] = J[j, i] = 1; return J
            T["swap%d%d" % (i, j)] = Tpl("swap%d%d" % (i, j), "swap", "{a%d: a%d, a%d: a%d}" % (i, j, j, i), f, d, lambda v: True,
                                         "%d=v%d&%d=v%d" % (i, j, j, i), {"a%d" % i: "a%d" % j, "a%d" % j: "a%d" % i})
    # rename a1 -> a0 (recorded when a function uses a1 but not a0).  On k >= 2 parameters it is singular (two parameters merge);
    # on one parameter it leaves a0 alone.
    def fr(v):
        w = np.array(v, dtype=float)
        if len(v) > 1:
            w[1] = v[0]
        return w

    def dr(v):
        J = np.eye(len(v))
        if len(v) > 1:
            J[1, 1] = 0; J[1, 0] = 1
        return J
    T["ren1to0"] = Tpl("ren1to0", "rename", "{a1: a0}", fr, dr, lambda v: len(v) < 2, "1=v0", {})
    if k >= 3:
        def fc(v):
            w = np.array(v, dtype=float); w[0], w[1], w[2] = v[1], v[2], v[0]; return w

        def dc(v):
            J = np.eye(len(v)); J[:3, :3] = [[0, 1, 0], [0, 0, 1], [1, 0, 0]]; return J
        T["cyc012"] = Tpl("cyc012", "swap", "{a0: a1, a1: a2, a2: a0}", fc, dc, lambda v: True, "0=v1&1=v2&2=v0", {"a0": "a2", "a1": "a0", "a2": "a1"})
    T["nan"] = Tpl("nan", "nan", "nan", None, None, None, None, {})
    return T


ALPHA = {1: ["neg0", "inv0", "scale0_2", "oddroot0", "evenroot0", "square0", "ren1to0", "nan"],
         2: ["neg0", "inv1", "swap01", "scale1_2", "oddroot0", "square1", "ren1to0", "nan"],
         3: ["neg2", "inv0", "swap02", "cyc012", "scale1_3", "evenroot2", "signroot1", "nan"]}
UNIQUE = {1: "a0*x", 2: "a0*x + a1", 3: "a0*x**2 + a1*x + a2"}


def _phi(k, x):
    import numpy as np
    return {1: [x], 2: [x, np.ones_like(x)], 3: [x * x, x, np.ones_like(x)]}[k]


def hessian(k, x, sig):
    """closed form: -log L = sum (u(x;a)-y)^2/(2 sig^2) + const with u linear in a  =>  H = sum phi phi^T / sig^2"""
    import numpy as np
    P = np.array(_phi(k, x))
    return (P / sig ** 2) @ P.T


def chain_eval(T, chain, theta):
    """independent oracle: p = c0(c1(...cm(theta))), J by the chain rule, regular = every template applied inside its domain"""
    import numpy as np
    v = np.array(theta, dtype=float)
    J = np.eye(len(v))
    reg = True
    with np.errstate(all="ignore"):
        for name in reversed(chain):
            t = T[name]
            reg = reg and t.reg(v)
            J = t.d(v) @ J
            v = t.f(v)
    if not (np.all(np.isfinite(v)) and np.all(np.isfinite(J))):
        reg = False
    elif abs(np.linalg.det(J)) < 1e-300:
        reg = False
    return v, J, reg


def expected_fisher(J, F):
    import numpy as np
    Ji = np.linalg.inv(J)
    return Ji.T @ F @ Ji


NS = None


def eval_fun(s, x, a):
    """independent evaluation of a function string (fitting-stage meaning of the names)"""
    import numpy as np
    global NS
    if NS is None:
        NS = dict(Abs=np.abs, sign=np.sign, sqrt=lambda v: np.sqrt(np.abs(v)), log=lambda v: np.log(np.abs(v)), inv=lambda v: 1.0 / v,
                  square=lambda v: v * v, cube=lambda v: v * v * v, pow=lambda u, v: np.abs(u) ** v, exp=np.exp)
    ns = dict(NS); ns["x"] = x
    for j in range(MAXP):
        ns["a%d" % j] = np.float64(a[j]) if j < len(a) else np.float64(0.0)
    with np.errstate(all="ignore"):
        return eval(compile(s, "<fun>", "eval"), {"__builtins__": {}}, ns) + 0 * x


def gauss_nll(s, data, a):
    import numpy as np
    x, y, sig = data
    try:
        yp = eval_fun(s, x, a)
    except Exception:
        return float("inf")
    if np.iscomplexobj(yp) and not np.all(np.isreal(yp)):
        return float("inf")
    with np.errstate(all="ignore"):
        v = float(np.sum(0.5 * (np.real(yp) - y) ** 2 / sig ** 2 + 0.5 * np.log(2 * np.pi) + np.log(sig)))
    return float("inf") if v != v else v


def variant_string(k, T, chain, extra_nan=True):
    """f(x; b) = u(x; cm^-1(...c0^-1(b))) printed by sympy; a chain with the nan marker gets one more parameter (as in real libraries)"""
    import sympy
    from esr.fitting.sympy_symbols import x as X
    syms = {("a%d" % j): sympy.Symbol("a%d" % j, real=True) for j in range(MAXP)}
    loc = dict(syms); loc["x"] = X
    th = [syms["a%d" % j] for j in range(k)]
    for name in reversed(chain):
        m = {syms[a]: sympy.sympify(e, locals=loc) for a, e in T[name].inv.items()}
        th = [t.subs(m, simultaneous=True) for t in th]
    u = sympy.sympify(UNIQUE[k], locals=loc)
    f = u.subs({syms["a%d" % j]: th[j] for j in range(k)}, simultaneous=True)
    s = str(f)
    if "nan" in chain and extra_nan and k < 3:
        s += " + a%d" % k
    return s


# =====================================================================================================================
# synthetic libraries
# =====================================================================================================================

def dataset(which):
    import numpy as np
    if which == "exact":            # H(a0*x) = 3/0.25 = 12 exactly
        x = np.array([1.0, 1.0, 1.0]); sig = np.full(3, 0.5)
    else:
        x = np.array([0.5, 1.0, 1.5, 2.0, 2.5]); sig = np.full(5, 0.25)
    y = 1.25 * x + 0.375 + 0.0625 * x * x
    return x, y, sig


def solve_theta(T, k, chain, F, signs, targets):
    """theta with the prescribed signs such that Nsteps_i = |p_i| sqrt(F'_ii/12) is ~ targets_i (monomial chains: one step)"""
    import numpy as np
    th = np.array([s * 0.7 for s in signs], dtype=float)
    if "nan" in chain:
        return th * np.array(targets) / 3.0
    for _ in range(4):
        p, J, reg = chain_eval(T, chain, th)
        if not reg:
            break
        with np.errstate(all="ignore"):
            Fp = np.diag(expected_fisher(J, F))
            ns = np.abs(p) * np.sqrt(Fp / 12.0)
        if not np.all(np.isfinite(ns)) or np.any(ns <= 0):
            break
        for i in range(k):
            j = int(np.argmax(np.abs(J[i])))
            th[j] *= targets[i] / ns[i]
    return th


def _r7(v):
    return float("%.7e" % v)


def make_row(T, k, chain, theta, data, F=None, variant=None, nllU=None, tag=""):
    """one library row: everything rounded as the files carry it"""
    import numpy as np
    x, y, sig = data
    theta = [_r7(v) for v in theta]
    H = hessian(k, x, sig) if F is None else np.array(F, dtype=float)
    flat = [float("nan")] * (MAXP * (MAXP + 1) // 2)
    for i in range(k):
        st = int(i * MAXP - (i - 1) * i / 2)
        for j in range(i, k):
            flat[st + j - i] = _r7(H[i, j])
    Hr = np.zeros((k, k))
    for i in range(k):
        st = int(i * MAXP - (i - 1) * i / 2)
        for j in range(i, k):
            Hr[i, j] = Hr[j, i] = flat[st + j - i]
    f = variant if variant is not None else variant_string(k, T, chain)
    nll = _r7(gauss_nll(UNIQUE[k], data, theta)) if nllU is None else nllU
    return dict(k=k, chain=list(chain), theta=theta, F=Hr.tolist(), flat=flat, variant=f, unique=UNIQUE[k], nllU=nll, tag=tag,
                custom_F=F is not None, artificial=(variant is not None and "nan" not in chain))


def write_chunk(copy, dd, run, comp, rows, data, dataname):
    """files of one complexity exactly as generation / test_all / test_all_Fisher write them"""
    import numpy as np
    T = {k: templates(k) for k in (1, 2, 3)}
    lib = os.path.join(copy, "esr", "function_library", FN_SET, "compl_%d" % comp)
    out = os.path.join(dd, "fitting", "output", "output_" + run)
    for d in (lib, out, os.path.join(dd, "fitting", "output", "partial_" + run)):
        os.makedirs(d, exist_ok=True)
    dpath = os.path.join(dd, dataname)
    if not os.path.exists(dpath):
        np.savetxt(dpath, np.c_[data[0], data[1], data[2]])
    with open(os.path.join(lib, "unique_equations_%d.txt" % comp), "w") as fh:
        fh.writelines(r["unique"] + "\n" for r in rows)
        fh.write("x\n")                                        # a parameter-free unique function (and never a 1-row table)
    with open(os.path.join(lib, "all_equations_%d.txt" % comp), "w") as fh:
        fh.writelines(r["variant"] + "\n" for r in rows)
        fh.write("x\n")
    np.savetxt(os.path.join(lib, "matches_%d.txt" % comp), np.arange(len(rows) + 1, dtype=float))
    with open(os.path.join(lib, "inv_subs_%d.txt" % comp), "w") as fh:
        w = csv.writer(fh, delimiter=";")
        for r in rows:
            w.writerow([T[r["k"]][c].s for c in r["chain"]])
        w.writerow([])
    nl = np.zeros((len(rows) + 1, 1 + MAXP))
    dv = np.full((len(rows) + 1, MAXP * (MAXP + 1) // 2), np.nan)
    for i, r in enumerate(rows):
        nl[i, 0] = r["nllU"]
        nl[i, 1:1 + r["k"]] = r["theta"]
        dv[i, :] = r["flat"]
    nl[-1, 0] = _r7(gauss_nll("x", data, []))
    np.savetxt(os.path.join(out, "negloglike_comp%d.dat" % comp), nl, fmt="%.7e")
    np.savetxt(os.path.join(out, "derivs_comp%d.dat" % comp), dv, fmt="%.7e")
    return os.path.join(out, "codelen_matches_comp%d.dat" % comp)


def run_group(ctx, copy, dd, dataname, run, comps, P, probe_json, probe=True):
    """real match.main under P ranks, then the probe (1 rank), for the chunks `comps` of run `run`"""
    env = ctx.env()
    env["PYTHONPATH"] = os.pathsep.join([common.STANDIN, copy, common.HARNESS])
    sd = os.path.join(dd, "_stdout_" + run)
    os.makedirs(sd, exist_ok=True)
    args = [dd, dataname, run, FN_SET, ",".join(map(str, comps))]
    res = mpirun.run(P, [os.path.join(common.HARNESS, "workers", "match_run.py")] + args, timeout=900, env_extra=env, cwd=copy,
                     python=common.PY, stdout_dir=sd)
    if res.get("tmp") and res["tmp"] != sd:
        import shutil
        shutil.rmtree(res["tmp"], ignore_errors=True)          # the hub's socket directory
    if not probe:
        return res, None
    pr = subprocess.run([common.PY, os.path.join(common.HARNESS, "workers", "match_probe.py")] + args + [probe_json], env=dict(env, ESRV_MPI_SIZE="1", ESRV_MPI_RANK="0"),
                        cwd=copy, capture_output=True, text=True)
    return res, pr


# =====================================================================================================================
# independent oracle of the property on one output row
# =====================================================================================================================

def _close(a, b, rel=2e-7, ab=1e-12):
    if a != a or b != b:
        return a != a and b != b
    if math.isinf(a) or math.isinf(b):
        return a == b
    return abs(a - b) <= rel * max(abs(a), abs(b)) + ab


def oracle(row, out, data):
    """-> list of (kind, message).  `out` = [nll, codelen, index, p0..p3] as written by the real match.main"""
    import numpy as np
    k, chain = row["k"], row["chain"]
    T = templates(k)
    nll_o, cl_o, par_o = out[0], out[1], list(out[3:3 + MAXP])
    bad = []
    if "nan" in chain:
        if math.isfinite(cl_o):
            bad.append(("unrecoverable-finite", "chain %s contains the nan marker but the code length is finite (%r)" % (chain, cl_o)))
        return bad, dict(cls="unrecoverable")
    if not math.isfinite(row["nllU"]):
        return bad, dict(cls="unique-not-finite")
    if row.get("artificial"):
        return bad, dict(cls="artificial-variant-string")
    theta = np.array(row["theta"]); F = np.array(row["F"])
    p, J, reg = chain_eval(T, chain, theta)
    if not reg:
        return bad, dict(cls="excluded-not-regular", f6=any(T[c].cls == "oddroot" for c in chain))
    pd = bool(np.all(np.isfinite(F)) and np.all(np.linalg.eigvalsh(F) > 0))
    if not pd:
        return bad, dict(cls="fisher-not-pd")
    Fp = np.diag(expected_fisher(J, F))
    ns = np.abs(p) * np.sqrt(Fp / 12.0)
    amb = bool(np.any(np.abs(ns - 1) < 1e-9))
    snap = ns < 1
    info = dict(cls="regular", snapped=int(snap.sum()), ambiguous=amb)
    if amb:
        return bad, info
    # ---- finiteness -----------------------------------------------------------------------------------------------
    if not math.isfinite(cl_o):
        bad.append(("finite", "recoverable chain %s, regular at theta=%s, unique function finite (F pos. def.), but code length = %r"
                    % (chain, row["theta"], cl_o)))
        info["observed_zero_params"] = all(v == 0 for v in par_o)
        return bad, info
    # ---- parameters -------------------------------------------------------------------------------------------------
    p_s = np.where(snap, 0.0, p)
    nll_s = gauss_nll(row["variant"], data, p_s) if snap.any() else None
    full = (not snap.any()) or math.isfinite(nll_s)
    zero_o = [par_o[i] == 0 for i in range(k)]
    for i in range(k):
        if zero_o[i] and not snap[i] and p[i] != 0:
            bad.append(("params", "parameter %d reported 0 but |p|/Delta = %.6g >= 1 (p=%r)" % (i, ns[i], p[i])))
        if not zero_o[i] and not _close(par_o[i], p[i]):
            bad.append(("params", "parameter %d reported %r, transformation applied to theta gives %r" % (i, par_o[i], p[i])))
        if full and snap[i] and not zero_o[i]:
            bad.append(("params", "parameter %d has |p|/Delta = %.6g < 1 and the snapped likelihood is finite, but it is reported as %r" % (i, ns[i], par_o[i])))
    for i in range(k, MAXP):
        if par_o[i] != 0:
            bad.append(("params", "padding column %d is %r" % (i, par_o[i])))
    if bad:
        return bad, info
    # ---- likelihood ---------------------------------------------------------------------------------------------------
    rep = np.array([0.0 if zero_o[i] else p[i] for i in range(k)])
    if not any(zero_o[i] and p[i] != 0 for i in range(k)):
        want = row["nllU"]
    else:
        want = gauss_nll(row["variant"], data, rep)
    if not _close(nll_o, want, rel=3e-7, ab=1e-9):
        bad.append(("nll", "reported -log L %r, expected %r (%s)" % (nll_o, want, "unique function's" if want == row["nllU"] else "re-evaluated at the reported parameters")))
    # ---- code length ----------------------------------------------------------------------------------------------------
    kept = [i for i in range(k) if not zero_o[i]] if full else list(range(k))
    if full:
        want_cl = -len(kept) / 2.0 * math.log(3.0) + sum(0.5 * math.log(Fp[i]) + math.log(abs(p[i])) for i in kept) if kept else 0.0
        if not _close(cl_o, want_cl, rel=3e-7, ab=3e-7):
            bad.append(("codelen", "code length %r, formula with F' = J^-T F J^-1 gives %r (F'=%s, p=%s, kept=%s)" % (cl_o, want_cl, Fp.tolist(), p.tolist(), kept)))
    info["full_snap_finite"] = bool(full)
    return bad, info


# =====================================================================================================================
# case generation
# =====================================================================================================================

MAGS = {"below": 0.3, "above": 4.0}


def gen_rows(ctx, deep):
    import numpy as np
    rng = ctx.rng
    rows = {"main": [], "exact": []}
    dmain, dex = dataset("main"), dataset("exact")
    T = {k: templates(k) for k in (1, 2, 3)}
    Hm = {k: hessian(k, dmain[0], dmain[2]) for k in (1, 2, 3)}

    def variants(k, chain, which):
        out = []
        for t in which:
            near = 1.0 + (1e-6 if (len(rows["main"]) + t) % 2 else -1e-6)
            cls0 = ["below", "near", "above"][t % 3]
            sg0 = 1.0 if t < 3 else -1.0
            cl = [cls0] + [rng.choice(["below", "near", "above"]) for _ in range(k - 1)]
            sg = [sg0] + [rng.choice([1.0, -1.0]) for _ in range(k - 1)]
            tg = [near if c == "near" else MAGS[c] for c in cl]
            th = solve_theta(T[k], k, chain, Hm[k], sg, tg)
            out.append(make_row(T[k], k, chain, th, dmain, tag="%s%s" % ("".join(c[0] for c in cl), "".join("+" if s > 0 else "-" for s in sg))))
        return out

    L1 = 4 if deep else 3
    for n in range(L1 + 1):
        for chain in itertools.product(ALPHA[1], repeat=n):
            rows["main"] += variants(1, chain, range(6))
    L2 = 3 if deep else 2
    for n in range(L2 + 1):
        for chain in itertools.product(ALPHA[2], repeat=n):
            rows["main"] += variants(2, chain, range(6))
    for n, cnt in ((L2 + 1, 400 if deep else 90),):
        for _ in range(cnt):
            chain = tuple(rng.choice(ALPHA[2]) for _ in range(n))
            rows["main"] += variants(2, chain, [rng.randrange(6), rng.randrange(6)])
    for _ in range(600 if deep else 70):
        chain = tuple(rng.choice(ALPHA[3]) for _ in range(rng.randint(0, 4 if deep else 3)))
        rows["main"] += variants(3, chain, [rng.randrange(6), rng.randrange(6)])
    # ---- decision branches that ordinary rows seldom reach -------------------------------------------------------------
    sp = []
    sp.append(make_row(T[1], 1, (), [0.5], dmain, nllU=float("nan"), tag="nllU-nan"))
    sp.append(make_row(T[1], 1, ("neg0",), [0.5], dmain, nllU=float("inf"), tag="nllU-inf"))
    sp.append(make_row(T[1], 1, ("nan",), [0.5], dmain, nllU=float("nan"), tag="nllU-nan-nanchain"))
    for F in ([[0.0]], [[-3.0]], [[float("nan")]]):
        for ch in ((), ("neg0",)):
            sp.append(make_row(T[1], 1, ch, [0.5], dmain, F=F, tag="F=%r" % F[0][0]))
    for F in ([[4.0, 1.0], [1.0, 0.0]], [[4.0, 9.0], [9.0, 4.0]], [[-1.0, 0.0], [0.0, 2.0]], [[2.0, 0.0], [0.0, 3.0]]):
        for ch in ((), ("swap01",), ("inv1",)):
            sp.append(make_row(T[2], 2, ch, [0.75, -1.5], dmain, F=F, tag="F2"))
    sp.append(make_row(T[1], 1, (), [1e-3], dmain, variant="a0*x)(", tag="unparsable-variant-snapped"))
    sp.append(make_row(T[1], 1, (), [2.0], dmain, variant="a0*x)(", tag="unparsable-variant"))
    # all parameters below threshold with a reciprocal: full snap infinite, subsets searched (inner `break` only)
    for k, ch in ((1, ("inv0",)), (2, ("inv0",)), (2, ("inv0", "inv1")), (3, ("inv0",)), (3, ("inv0", "inv1")), (3, ("inv0", "neg2")), (3, ())):
        if "inv1" in ch and "inv1" not in T[k]:
            continue
        for sc in (0.02, 0.2):
            th = solve_theta(T[k], k, ch, Hm[k], [1.0, -1.0, 1.0][:k], [sc] * k)
            sp.append(make_row(T[k], k, ch, th, dmain, tag="all-below"))
    for th in (0.9, -0.9, 0.05, -0.05):                       # the sign-carrying odd-root template on one parameter
        sp.append(make_row(T[1], 1, ("signroot0",), [th], dmain, tag="signroot"))
        sp.append(make_row(T[1], 1, ("neg0", "signroot0"), [th], dmain, tag="signroot"))
    sp.append(make_row(T[2], 2, ("nan",), [0.4, 0.7], dmain, variant="a0*x + a1", tag="nan-same-nparams"))
    sp.append(make_row(T[1], 1, ("neg0", "nan", "inv0"), [0.4], dmain, tag="nan-middle"))
    rows["main"] += sp
    # ---- exactly at the threshold: H = 12, theta = +-1 ---------------------------------------------------------------------
    for ch in ((), ("neg0",), ("inv0",), ("scale0_2",), ("neg0", "inv0"), ("inv0", "scale0_2"), ("square0",), ("evenroot0",)):
        for th in (1.0, -1.0, 0.5, 2.0):
            rows["exact"].append(make_row(T[1], 1, ch, [th], dex, tag="exact"))
    return rows


# =====================================================================================================================
# run
# =====================================================================================================================

def _b(v):
    return common.f2b(v)


def _cls(v):
    return "nan" if v != v else ("inf" if v == float("inf") else ("-inf" if v == float("-inf") else "fin"))


def _rowkey(r):
    return "k=%d:%s" % (r["k"], "-".join(r["chain"]) or "empty")


def _replay_of(r, dataname):
    return dict(kind="row", data=dataname, row={k: r[k] for k in ("k", "chain", "theta", "F", "flat", "variant", "unique", "nllU", "tag", "custom_F", "artificial")})


def execute(ctx, rows_by_data, nproc_budget=14, label="lib"):
    """writes the chunks, runs real match.main + probe in parallel groups; returns list of (row, out, probe, dataname)"""
    import numpy as np
    copy = common.fresh_copy(ctx, "c05_%s" % label)
    results = []
    groups = []
    comp = 1                                                     # chunk number ("complexity"), unique within the library
    for dataname, rows in rows_by_data.items():
        if not rows:
            continue
        dd = os.path.join(ctx.tmp, "c05_dd_%s_%s" % (label, dataname))
        os.makedirs(os.path.join(dd, "fitting"), exist_ok=True)
        data = dataset(dataname)
        if dataname == "main" and len(rows) > 40:
            ranks = [1, 2, 3, 1, 2, 3, 1, 1]                      # 14 rank processes in 8 groups
        else:
            ranks = [2] if len(rows) > 3 else [1]
        per = int(math.ceil(len(rows) / float(len(ranks))))
        for g, P in enumerate(ranks):
            part = rows[g * per:(g + 1) * per]
            if not part:
                continue
            run = "%s%d" % (dataname[0], g)
            # two chunks ("complexities") per group so that file naming / several calls are exercised too
            h = max(1, len(part) // 2)
            chunks = [c for c in (part[:h], part[h:]) if c]
            comps = []
            for c in chunks:
                outf = write_chunk(copy, dd, run, comp, c, data, "data_%s.txt" % dataname)
                comps.append((comp, c, outf)); comp += 1
            groups.append(dict(dd=dd, dataname=dataname, run=run, P=P, comps=comps, data=data))
    def work(g):
        pj = os.path.join(g["dd"], "probe_%s.json" % g["run"])
        t0 = time.time()
        res, pr = run_group(ctx, copy, g["dd"], "data_%s.txt" % g["dataname"], g["run"], [c[0] for c in g["comps"]], g["P"], pj)
        return g, res, pr, pj, time.time() - t0
    with ThreadPoolExecutor(max_workers=len(groups)) as ex:
        done = list(ex.map(work, groups))
    for g, res, pr, pj, dt in done:
        if not res["ok"]:
            tail = ""
            try:
                tail = open(res["stdout"][0]).read()[-800:]
            except Exception:
                pass
            raise RuntimeError("real match.main failed on a synthetic library (P=%d): %s %s\n%s" % (g["P"], res.get("error"), res.get("exit_codes"), tail))
        if pr.returncode != 0:
            raise RuntimeError("probe failed: %s" % pr.stderr[-1500:])
        probe = json.load(open(pj))
        for comp, chunk, outf in g["comps"]:
            out = np.atleast_2d(np.loadtxt(outf))
            if out.shape[0] != len(chunk) + 1:
                raise RuntimeError("codelen_matches_comp%d.dat has %d rows for %d functions (P=%d)" % (comp, out.shape[0], len(chunk) + 1, g["P"]))
            pr_rows = probe[str(comp)]
            for i, r in enumerate(chunk):
                results.append((r, [float(v) for v in out[i]], pr_rows[i], g["dataname"], g["P"], i))
            # the parameter-free row
            last = out[-1]
            results.append((dict(k=0, chain=[], theta=[], F=[], variant="x", unique="x", nllU=float(last[0]), tag="noparams", custom_F=False, artificial=False, flat=[]),
                            [float(v) for v in last], pr_rows[-1], g["dataname"], g["P"], len(chunk)))
    return results


def correspond(ctx, results):
    """model (Lean, Float instance) vs real outputs, row by row; plus unflatten / compose / nan-identity / guard ties"""
    import numpy as np
    ops, meta = [], []
    skipped = {"complex-valued": 0, "compose-nonregular": 0}
    T = {k: templates(k) for k in (1, 2, 3)}
    for (r, out, pb, dn, P, i) in results:
        shape = pb["shape"]
        if pb["row_type"] != "list":
            ctx.disagree("corr:chain-row-type", "load_subs returned a %s for a row (the model takes it to be a list)" % pb["row_type"])
        want_shape = "".join("n" if c == "nan" else "m" for c in r["chain"]) or "-"
        if shape != want_shape:
            ctx.disagree("corr:load_subs", "row %s: loaded entries %s, written %s" % (_rowkey(r), shape, want_shape))
        conv = pb.get("conv", "R")
        reval = ",".join(pb["reval"]) if pb.get("reval") else "-"
        if pb.get("complex"):
            skipped["complex-valued"] += 1                      # outside the real-valued model (always an excluded point)
            continue
        ops.append("match_row %s %d %d %s %s %d %s" % (pb["nllU"], pb["nparams"], pb["max_param"], shape, conv, pb.get("symOk", 0), reval))
        meta.append(("row", r, out, pb))
        if "unflat" in pb:
            ops.append("match_unflatten %d %d %s" % (pb["max_param"], pb["unflat_k"], ",".join(pb["fishrow"])))
            meta.append(("unflat", r, pb["unflat"], pb))
        if conv != "R" and "nan" not in r["chain"] and r["k"] > 0 and pb["nparams"] == r["k"]:
            import numpy as _np
            if not chain_eval(T[r["k"]], r["chain"], [common.b2f(v) for v in pb["measured"]])[2]:
                skipped["compose-nonregular"] += 1              # sympy may return the principal complex value where numpy gives NaN
                continue
            enc = ";".join(T[r["k"]][c].enc for c in r["chain"]) or "-"
            ops.append("match_compose %d %s %s" % (r["k"], enc, ",".join(pb["measured"])))
            meta.append(("compose", r, conv.split("/")[1], pb))
            ops.append("match_apply %d %s %s" % (r["k"], enc, ",".join(pb["measured"])))
            meta.append(("compose", r, conv.split("/")[1], pb))
        if "conv_same" in pb:
            ops.append("match_conv %d %s 1 %s" % (pb["nparams"], shape, conv))
            meta.append(("same", r, pb["conv_same"], pb))
            ops.append("match_conv %d %s 0 %s" % (pb["nparams"], shape, conv))
            meta.append(("same", r, conv, pb))
    res = common.model(ops)
    nbad = dict(row=0, unflat=0, compose=0, same=0)
    branches = {}
    for (kind, r, ref, pb), op, got in zip(meta, ops, res):
        ok = True
        if kind == "row":
            out = ref
            if got == "crash" or got == "bad-op":
                ok = False
            else:
                br, nl, cl, ps = got.split()
                branches[br] = branches.get(br, 0) + 1
                pb["_branch"] = br
                nl, cl = common.b2f(nl), common.b2f(cl)
                ps = [common.b2f(v) for v in ps.split(",")] if ps != "-" else []
                ok = (_cls(nl) == _cls(out[0]) and _cls(cl) == _cls(out[1]) and len(ps) == MAXP
                      and all(_cls(a) == _cls(b) and (a == 0) == (b == 0) for a, b in zip(ps, out[3:3 + MAXP]))
                      and _close(nl, out[0], 2e-7, 1e-12) and _close(cl, out[1], 2e-7, 2e-7)
                      and all(_close(a, b, 2e-7, 1e-300) for a, b in zip(ps, out[3:3 + MAXP])))
            if not ok:
                ctx.disagree("corr:matchRow", "%s theta=%s: code row=%s model=%s" % (_rowkey(r), r["theta"], ref, got))
        elif kind == "unflat":
            a = got.split(",") if got not in ("-", "none") else []
            ok = len(a) == len(ref) and all((x == y) or (common.b2f(x) != common.b2f(x) and common.b2f(y) != common.b2f(y)) or common.b2f(x) == common.b2f(y) for x, y in zip(a, ref))
            if not ok:
                ctx.disagree("corr:unflatten", "%s: code fish=%s model=%s" % (op[:120], [common.b2f(v) for v in ref], got))
        elif kind == "compose":
            a = [common.b2f(v) for v in got.split(",")] if got not in ("-", "bad-op") else []
            b = [common.b2f(v) for v in ref.split(",")] if ref != "-" else []
            ok = len(a) == len(b) and all(_close(x, y, 1e-11, 1e-300) for x, y in zip(a, b))
            if not ok:
                ctx.disagree("corr:compose-order", "%s: convert_params p=%s model=%s" % (op[:160], b, a))
        elif kind == "same":
            def dec(s):
                return s if s == "R" else [[common.b2f(v) for v in part.split(",")] if part != "-" else [] for part in s.split("/")[1:]]
            A, B = dec(got), dec(ref)
            ok = (A == "R") == (B == "R") and (A == "R" or (len(A) == len(B) and all(len(u) == len(v) and all(_close(x, y, 1e-11, 0) for x, y in zip(u, v)) for u, v in zip(A, B))))
            if not ok:
                ctx.disagree("corr:nan-identity", "%s: code=%s model=%s" % (op[:120], ref, got))
        if not ok:
            nbad[kind] += 1
    ctx.extra["correspondence_skipped"] = skipped
    return len(ops), nbad, branches


def flatten_tie(ctx):
    """real test_all_Fisher.convert_params (numerical Hessian) : returned `deriv` vs model `flatten` of the Hessian it used"""
    import sys, numpy as np, sympy, types, warnings
    warnings.filterwarnings("ignore")
    import esr.fitting.test_all_Fisher as taf
    import esr.fitting.likelihood as L
    x, y, sig = dataset("main")
    lik = object.__new__(L.GaussLikelihood)
    lik.xvar, lik.yvar, lik.yerr = x, y, sig
    ops, refs = [], []
    for k, th in ((1, [1.3]), (2, [1.2, 0.4]), (3, [0.1, 1.1, 0.3]), (2, [-2.0, 5.0])):
        for mp in (4, 5):
            fcn = UNIQUE[k]
            fs, eq, integ = lik.run_sympify(fcn)
            cap = {}

            def prof(frame, event, arg):
                if event == "return" and frame.f_code.co_name == "convert_params" and "test_all_Fisher" in frame.f_code.co_filename:
                    if "Hmat" in frame.f_locals:
                        cap["H"] = np.array(frame.f_locals["Hmat"])
            sys.setprofile(prof)
            try:
                theta = np.array(th + [0.0] * (mp - k))
                params, nll, deriv, cl = taf.convert_params(fs, eq, integ, theta, lik, gauss_nll(fcn, (x, y, sig), th), max_param=mp)
            finally:
                sys.setprofile(None)
            H = cap["H"]
            ops.append("match_flatten %d %d %s" % (mp, k, ",".join(_b(v) for v in H.ravel())))
            refs.append([float(v) for v in deriv])
            # and back: the matching stage's unflatten of that row restores the symmetric matrix
            ops.append("match_unflatten %d %d %s" % (mp, k, ",".join(_b(v) for v in deriv)))
            refs.append([float(v) for v in ((H + H.T) / 2 if False else np.triu(H) + np.triu(H, 1).T).ravel()])
            Hc = hessian(k, x, sig)
            if not np.allclose(H, Hc, rtol=1e-4, atol=1e-6 * np.max(np.abs(Hc))):
                ctx.disagree("corr:hessian-closed-form", "numerical Hessian of %s differs from the closed form: %s vs %s" % (fcn, H.tolist(), Hc.tolist()))
    got = common.model(ops)
    bad = 0
    for op, g, ref in zip(ops, got, refs):
        a = [common.b2f(v) for v in g.split(",")] if g not in ("-", "none", "bad-op") else []
        ok = len(a) == len(ref) and all((u != u and v != v) or u == v for u, v in zip(a, ref))
        if not ok:
            bad += 1
            ctx.disagree("corr:flatten", "%s: code=%s model=%s" % (op.split()[0:3], ref, a))
    return len(ops), bad


def template_format_tie(ctx):
    """the strings written into inv_subs files are what the simplifier's own expressions print"""
    import sympy
    from esr.fitting.sympy_symbols import pow_abs, sqrt_abs, square
    a0, a1, a2 = sympy.symbols("a0 a1 a2", real=True)
    I = sympy.Integer
    want = {"neg0": {a0: -a0}, "inv0": {a0: 1 / a0}, "scale0_2": {a0: a0 / I(2)}, "scale1_3": {a1: a1 / I(3)}, "oddroot0": {a0: a0 ** (1 / I(3))},
            "evenroot0": {a0: pow_abs(a0, 1 / I(2))}, "evenroot2": {a2: sqrt_abs(a2)}, "square0": {a0: square(a0)},
            "signroot1": {a1: pow_abs(a1, 1 / (I(1) + 1)) * sympy.sign(a1)}, "swap01": {a0: a1, a1: a0}, "ren1to0": {a1: a0}, "cyc012": {a0: a1, a1: a2, a2: a0}}
    T = templates(3)
    bad = 0
    for n, d in want.items():
        if str(d) != T[n].s:
            bad += 1
            ctx.disagree("corr:template-format", "%s: simplifier prints %s, harness writes %s" % (n, str(d), T[n].s))
    if str(float("nan")) != "nan":
        bad += 1
    return len(want), bad


def _fd_hessian_h(f, p, rel):
    """central second differences (4-point formula for every entry), step rel*|p_i|"""
    import numpy as np
    p = np.array(p, dtype=float)
    n = len(p)
    h = rel * np.where(np.abs(p) > 1e-12, np.abs(p), 1.0)
    H = np.zeros((n, n))
    for i in range(n):
        for j in range(i, n):
            ei = np.zeros(n); ei[i] = h[i]
            ej = np.zeros(n); ej[j] = h[j]
            H[i, j] = H[j, i] = (f(p + ei + ej) - f(p + ei - ej) - f(p - ei + ej) + f(p - ei - ej)) / (4 * h[i] * h[j])
    return H


def _fd_hessian(f, p, rel=1e-4):
    """one Richardson step on the central second differences (removes the h^2 term of the truncation error)"""
    return (4.0 * _fd_hessian_h(f, p, rel / 2) - _fd_hessian_h(f, p, rel)) / 3.0


def hessian_theorem_tie(ctx, deep):
    """The oracle's `expected_fisher` (J^-T F J^-1) sampled against theorem ESR.C05.fisher_matrix_of_variant: at the exact
    least-squares point theta^ of the unique function (so L is stationary there: the theorem's hypothesis), for every single template
    and every ordered pair (triples when deep), the central finite-difference Hessian of the VARIANT's Gauss likelihood at
    p^ = chain(theta^) equals J^-T H J^-1 with J from the oracle's chain rule.  The theorem's hypothesis L'(g theta) = L theta is sampled at
    theta^ and nearby; chains for which it does not hold (an inverse template that is not a two-sided inverse on that sign, e.g.
    sqrt(Abs(a)) at a < 0) are counted and skipped.  Control: off the minimum the identity must FAIL for a reciprocal
    (ESR.C05.stationarity_needed).  Pure numpy/sympy printing; does not touch match.py."""
    import numpy as np
    out = dict(theorem="ESR.C05.fisher_matrix_of_variant", diagonal="ESR.C05.fisher_diag_monomial", cases=0, skipped_not_regular=0,
               skipped_not_reparametrisation=0, max_rel_err=0.0, by_k={})
    data = dataset("main")
    x, y, sig = data
    worst = None
    for k in (1, 2, 3):
        T = templates(k)
        names = [n for n in ALPHA[k] if n != "nan"]
        chains = [(a,) for a in names] + [(a, b) for a in names for b in names]
        if deep:
            chains += [(a, b, c) for a in names for b in names for c in names][:: 3]
        P = np.array(_phi(k, x))
        th = np.linalg.solve((P / sig ** 2) @ P.T, (P / sig ** 2) @ y)          # exact minimiser of the Gauss likelihood of UNIQUE[k]
        H = hessian(k, x, sig)
        L = lambda a: gauss_nll(UNIQUE[k], data, a)
        n_k = 0
        for chain in chains:
            p, J, reg = chain_eval(T, list(chain), th)
            if not reg:
                out["skipped_not_regular"] += 1
                continue
            vs = variant_string(k, T, list(chain))
            Lp = lambda b: gauss_nll(vs, data, b)
            # hypothesis of the theorem, sampled: L'(g theta) = L theta at theta^ and at two nearby points
            ok = True
            for dth in (0.0, 1e-3, -2e-3):
                t2 = th * (1 + dth)
                p2, _, r2 = chain_eval(T, list(chain), t2)
                if not (r2 and _close(Lp(p2), L(t2), rel=1e-9, ab=1e-9)):
                    ok = False
            if not ok:
                out["skipped_not_reparametrisation"] += 1
                continue
            want = expected_fisher(J, H)
            got = _fd_hessian(Lp, p)
            err = float(np.max(np.abs(got - want)) / np.max(np.abs(want)))
            out["cases"] += 1; n_k += 1
            if err > out["max_rel_err"]:
                out["max_rel_err"] = err; worst = (k, chain)
            if not err <= 2e-5:
                ctx.disagree("tie:hessian-transform", "k=%d chain %s at the least-squares point theta^=%s: finite-difference Hessian of the variant %r at p^=%s is %s, "
                             "J^-T H J^-1 is %s (rel. %.3g) - the oracle's transformed Fisher matrix is not what ESR.C05.fisher_matrix_of_variant speaks about"
                             % (k, list(chain), th.tolist(), vs, p.tolist(), got.tolist(), want.tolist(), err))
        out["by_k"][str(k)] = n_k
    out["worst"] = str(worst)
    # control: off the minimum the second term DL(theta) D^2h(p) does not vanish
    T = templates(1)
    th = np.array([2.0])
    p, J, reg = chain_eval(T, ["inv0"], th)
    vs = variant_string(1, T, ["inv0"])
    got = _fd_hessian(lambda b: gauss_nll(vs, data, b), p)
    want = expected_fisher(J, hessian(1, x, sig))
    ctrl = float(abs(got[0, 0] - want[0, 0]) / abs(want[0, 0]))
    out["control_nonstationary_rel_diff"] = ctrl
    if not ctrl > 1e-3:
        ctx.disagree("tie:hessian-transform", "control: away from the minimum the finite-difference Hessian of %r equals J^-T H J^-1 (rel. %.3g): the sampling is insensitive" % (vs, ctrl))
    if out["cases"] < 20:
        ctx.disagree("tie:hessian-transform", "only %d sampled cases" % out["cases"])
    return out


def guard_is_nan_test(ctx):
    """does the regenerated guard (evaluated by the model) fire exactly on chains holding the nan marker?  Used to attribute a
    failing input to the guard; the proof obligation itself is theorem ESR.C05.guard_is_nan_test."""
    shapes = {"-": "0", "m": "0", "mm": "0", "mmm": "0", "n": "1", "mn": "1", "nm": "1", "mnm": "1"}
    try:
        got = common.model(["match_guard %s" % k for k in shapes])
    except Exception as e:
        return False, "model not runnable: %s" % e
    bad = [(k, g) for (k, w), g in zip(shapes.items(), got) if g != w]
    return (not bad), ("guard `%s` fires exactly on chains with a non-mapping entry" % _guard_src() if not bad else
                       "guard `%s` differs from the nan test on chain shapes %s" % (_guard_src(), bad))


def judge(ctx, results, guard_ok, replay_of=None, keyfix=""):
    """property oracle on every real output row"""
    _rp = (lambda r, dn: replay_of(r, dn)) if replay_of else _replay_of
    classes, excl_f6, nfail = {}, 0, 0
    f1_rows = []
    raised = {}
    for (r, out, pb, dn, P, i) in results:
        if r["k"] == 0:
            if not (out[1] == 0 and all(v == 0 for v in out[3:])):
                ctx.fail("match.py:noparams", "parameter-free function got code length %r / parameters %r" % (out[1], out[3:]), _rp(r, dn))
            ctx.case(("noparams", dn), nontrivial=False)
            continue
        bad, info = oracle(r, out, dataset(dn))
        classes[info["cls"]] = classes.get(info["cls"], 0) + 1
        if info.get("f6"):
            excl_f6 += 1
        ctx.case((r["k"], tuple(r["chain"]), r["tag"], keyfix), nontrivial=bool(r["chain"]) or info.get("snapped", 0) > 0)
        for kind, msg in bad:
            nfail += 1
            if kind == "finite" and out[1] == float("inf") and info.get("observed_zero_params") and r["chain"]:
                if not guard_ok:
                    f1_rows.append((r, out, dn, msg))
                    continue
                if pb.get("conv") == "R":
                    import re as _re
                    exc = pb.get("conv_exc", "Exception: ?")
                    m = _re.search(r"name '(\w+)' is not defined", exc)
                    kkey = "simplifier.py:convert_params:raises:%s:%s" % (exc.split(":")[0], m.group(1) if m else "-".join(sorted(set(templates(r["k"])[c].cls for c in r["chain"]))))
                    raised.setdefault(kkey, []).append((r, out, dn, msg, exc))
                    continue
            ctx.fail("match.py:%s:%s%s" % (kind, _rowkey(r), keyfix), "%s [variant %s of %s, theta=%s, P=%d] -> row %s" % (msg, r["variant"], r["unique"], r["theta"], P, out),
                     _rp(r, dn))
    for kkey, lst in sorted(raised.items()):
        lst.sort(key=lambda q: (q[0]["k"], len(q[0]["chain"]), q[0]["tag"]))
        r, out, dn, msg, exc = lst[0]
        ctx.fail(kkey + keyfix, "%d rows: simplifier.convert_params raises (%s) for a recoverable chain that is regular at theta, so match.py:99-102 gives code length inf; "
                 "smallest: variant %r of %r, chain [%s], theta=%s -> row %s" % (len(lst), exc, r["variant"], r["unique"], "; ".join(templates(r["k"])[c].s for c in r["chain"]), r["theta"], out),
                 _rp(r, dn))
    return classes, excl_f6, nfail, f1_rows


# =====================================================================================================================
# row independence (Props/C05c): libraries where every unique function has SEVERAL variants, and metamorphic re-runs
# =====================================================================================================================

def family_kinds(k):
    """(kind, template) of the variants given to every unique function with k parameters.  Kinds acting on one parameter are
    listed for every parameter, so that 'the snapped parameter is the one a later chain is singular on' is enumerated."""
    out = [("empty", None)]
    for j in range(k):
        out += [("sign%d" % j, "neg%d" % j), ("reciprocal%d" % j, "inv%d" % j), ("root%d" % j, "oddroot%d" % j)]
    if k == 1:
        out += [("evenroot0", "evenroot0"), ("rescale0", "scale0_2"), ("rename", "ren1to0")]
    elif k == 2:
        out += [("rescale0", "scale0_2"), ("rescale1", "scale1_2"), ("swap", "swap01"), ("rename", "ren1to0")]
    else:
        out += [("rescale1", "scale1_3"), ("swap", "swap02"), ("cycle", "cyc012")]
    out.append(("nan", "nan"))
    return out


SNAP_CLASSES = ("below", "near", "above")


def gen_families(ctx, deep):
    """-> list of libraries; library = dict(name, dataname, funcs=[row + u + fid + kind + pattern]).  For every k and every pattern
    of (below / at / above the snap threshold) per parameter one unique function whose variants are listed in the order K + reversed(K),
    K a PRNG permutation of family_kinds(k): every ORDERED pair of kinds (A listed before B, A = B included) occurs for that unique
    function, and in the base schedule (1 rank) on the same rank."""
    import numpy as np
    rng = ctx.rng
    dmain = dataset("main")
    T = {k: templates(k) for k in (1, 2, 3)}
    Hm = {k: hessian(k, dmain[0], dmain[2]) for k in (1, 2, 3)}
    libs = []
    for name, ks in (("fam12", (1, 2)), ("fam3", (3,))):
        funcs, u = [], 0
        for k in ks:
            pats = list(itertools.product(SNAP_CLASSES, repeat=k))
            if k == 3 and not deep:
                must = [("below", "below", "below"), ("below", "above", "near"), ("above", "below", "above"), ("above", "above", "above")]
                rest = [q for q in pats if q not in must]
                rng.shuffle(rest)
                pats = must + rest[:2]
            for pat in pats:
                sg = [rng.choice([1.0, -1.0]) for _ in range(k)]
                if pat.count("below") and rng.random() < 0.7:
                    sg[pat.index("below")] = 1.0                 # a positive below-threshold parameter: odd root regular there
                tg = [(1.0 + rng.choice([1e-6, -1e-6])) if c == "near" else MAGS[c] for c in pat]
                th = solve_theta(T[k], k, (), Hm[k], sg, tg)
                K = family_kinds(k)
                rng.shuffle(K)
                for kind, tpl in K + K[::-1]:
                    r = make_row(T[k], k, (tpl,) if tpl else (), th, dmain,
                                 tag="fam:%s%s" % ("".join(c[0] for c in pat), "".join("+" if v > 0 else "-" for v in sg)))
                    r["u"], r["kind"], r["pattern"] = u, kind, "".join(c[0] for c in pat)
                    funcs.append(r)
                u += 1
        for fid, r in enumerate(funcs):
            r["fid"] = fid
        libs.append(dict(name=name, dataname="main", funcs=funcs))
    return libs


def schedules(ctx, lib):
    """base + metamorphic re-runs of one library: (label, order of fids, ranks)"""
    rng = ctx.rng
    n = len(lib["funcs"])
    ident = list(range(n))
    sh = list(ident); rng.shuffle(sh)
    by_u = {}
    for r in lib["funcs"]:
        by_u.setdefault(r["u"], []).append(r["fid"])
    drop = set(rng.choice(v) for v in by_u.values())            # one variant of every unique function removed
    return [("base", ident, 1), ("reversed", ident[::-1], 1), ("shuffled", sh, 1), ("removed", [f for f in ident if f not in drop], 1),
            ("ranks2", ident, 2), ("ranks3", ident, 3)]


def write_library(copy, dd, run, comp, funcs, data, dataname, all_funcs=None):
    """like write_chunk, but several functions share a unique function: matches_<n>.txt points into the unique tables, which are
    written once from `all_funcs` (so they do not depend on which functions are listed or in which order)"""
    import numpy as np
    T = {k: templates(k) for k in (1, 2, 3)}
    lib = os.path.join(copy, "esr", "function_library", FN_SET, "compl_%d" % comp)
    out = os.path.join(dd, "fitting", "output", "output_" + run)
    for d in (lib, out, os.path.join(dd, "fitting", "output", "partial_" + run)):
        os.makedirs(d, exist_ok=True)
    dpath = os.path.join(dd, dataname)
    if not os.path.exists(dpath):
        np.savetxt(dpath, np.c_[data[0], data[1], data[2]])
    uq = {}
    for r in (all_funcs if all_funcs is not None else funcs):
        uq.setdefault(r["u"], r)
    us = sorted(uq)
    pos = {u: i for i, u in enumerate(us)}
    with open(os.path.join(lib, "unique_equations_%d.txt" % comp), "w") as fh:
        fh.writelines(uq[u_]["unique"] + "\n" for u_ in us)
        fh.write("x\n")
    with open(os.path.join(lib, "all_equations_%d.txt" % comp), "w") as fh:
        fh.writelines(r["variant"] + "\n" for r in funcs)
        fh.write("x\n")
    np.savetxt(os.path.join(lib, "matches_%d.txt" % comp), np.array([pos[r["u"]] for r in funcs] + [len(us)], dtype=float))
    with open(os.path.join(lib, "inv_subs_%d.txt" % comp), "w") as fh:
        w = csv.writer(fh, delimiter=";")
        for r in funcs:
            w.writerow([T[r["k"]][c].s for c in r["chain"]])
        w.writerow([])
    nl = np.zeros((len(us) + 1, 1 + MAXP))
    dv = np.full((len(us) + 1, MAXP * (MAXP + 1) // 2), np.nan)
    for i, u_ in enumerate(us):
        r = uq[u_]
        nl[i, 0] = r["nllU"]
        nl[i, 1:1 + r["k"]] = r["theta"]
        dv[i, :] = r["flat"]
    nl[-1, 0] = _r7(gauss_nll("x", data, []))
    np.savetxt(os.path.join(out, "negloglike_comp%d.dat" % comp), nl, fmt="%.7e")
    np.savetxt(os.path.join(out, "derivs_comp%d.dat" % comp), dv, fmt="%.7e")
    return os.path.join(out, "codelen_matches_comp%d.dat" % comp)


def run_jobs(ctx, jobs, label):
    """jobs: dict(name, dataname, funcs (in listing order), all_funcs, P, probe) -> adds job['out'] (rows as listed) and job['pb']"""
    import numpy as np
    copy = common.fresh_copy(ctx, "c05_%s" % label)
    for comp, j in enumerate(jobs, start=1):
        j["dd"] = os.path.join(ctx.tmp, "c05_dd_%s_%d" % (label, comp))
        os.makedirs(os.path.join(j["dd"], "fitting"), exist_ok=True)
        j["comp"], j["run"] = comp, "j%d" % comp
        j["outf"] = write_library(copy, j["dd"], j["run"], comp, j["funcs"], dataset(j["dataname"]), "data_%s.txt" % j["dataname"], j.get("all_funcs"))

    def work(j):
        pj = os.path.join(j["dd"], "probe.json")
        return j, pj, run_group(ctx, copy, j["dd"], "data_%s.txt" % j["dataname"], j["run"], [j["comp"]], j["P"], pj, probe=j.get("probe", False))
    with ThreadPoolExecutor(max_workers=max(1, min(len(jobs), 12))) as ex:
        done = list(ex.map(work, jobs))
    for j, pj, (res, pr) in done:
        if not res["ok"]:
            tail = ""
            try:
                tail = open(res["stdout"][0]).read()[-800:]
            except Exception:
                pass
            raise RuntimeError("real match.main failed on library %s (P=%d): %s %s\n%s" % (j["name"], j["P"], res.get("error"), res.get("exit_codes"), tail))
        out = np.atleast_2d(np.loadtxt(j["outf"]))
        if out.shape[0] != len(j["funcs"]) + 1:
            raise RuntimeError("codelen_matches_comp%d.dat has %d rows for %d functions (P=%d)" % (j["comp"], out.shape[0], len(j["funcs"]) + 1, j["P"]))
        j["out"] = [[float(v) for v in row] for row in out]
        j["pb"] = None
        if pr is not None:
            if pr.returncode != 0:
                raise RuntimeError("probe failed: %s" % pr.stderr[-1500:])
            j["pb"] = json.load(open(pj))[str(j["comp"])]
    return jobs


ROW_KEYS = ("k", "chain", "theta", "F", "flat", "variant", "unique", "nllU", "tag", "custom_F", "artificial", "u")


def _slim(r):
    return {k: r[k] for k in ROW_KEYS}


def _same_row(a, b):
    """bit patterns of what was written ('%.7e' text read back), column 2 (index of the unique function) included"""
    return len(a) == len(b) and all(_b(x) == _b(y) or (x != x and y != y) for x, y in zip(a, b))


def family_check(ctx, deep, guard_ok):
    """(a) the family libraries through the real match.main, (b) metamorphic re-runs compared function by function with the base run,
    (c) returns the base rows for the model-vs-code correspondence.  -> (results for correspond, stats, f1_rows)"""
    libs = gen_families(ctx, deep)
    jobs = []
    for lib in libs:
        byfid = {r["fid"]: r for r in lib["funcs"]}
        for label, order, P in schedules(ctx, lib):
            jobs.append(dict(name="%s/%s" % (lib["name"], label), lib=lib["name"], label=label, dataname=lib["dataname"], order=order, P=P,
                             funcs=[byfid[f] for f in order], all_funcs=lib["funcs"], probe=(label == "base")))
    run_jobs(ctx, jobs, "fam")
    stats = dict(libraries={l["name"]: len(l["funcs"]) for l in libs}, schedules=sorted(set(j["label"] for j in jobs)), rows_run=0, compared=0,
                 differing=0, ordered_pairs_same_unique_same_rank=0, target_sequences=0, unique_functions=0)
    results, judged, f1_rows = [], [], []
    for lib in libs:
        lj = [j for j in jobs if j["lib"] == lib["name"]]
        base = [j for j in lj if j["label"] == "base"][0]
        base_out = {fid: base["out"][i] for i, fid in enumerate(base["order"])}
        # coverage actually reached in the base schedule (measured on the real outputs, not assumed)
        fam = {}
        for r in lib["funcs"]:
            fam.setdefault(r["u"], []).append(r)
        stats["unique_functions"] += len(fam)
        for u_, rs in fam.items():
            kinds = [r["kind"] for r in rs]
            stats["ordered_pairs_same_unique_same_rank"] += len(set((a, b) for i, a in enumerate(kinds) for b in kinds[i + 1:]))
            # the sequence C05d needs: a same-parameterisation row that snapped parameter j, later a chain singular at 0 on j
            for i, a in enumerate(rs):
                if a["kind"] != "empty":
                    continue
                oa = base_out[a["fid"]]
                snapped = [j for j in range(a["k"]) if oa[3 + j] == 0 and a["theta"][j] != 0 and math.isfinite(oa[1])]
                for b in rs[i + 1:]:
                    if any(b["kind"] in ("reciprocal%d" % j, "root%d" % j, "evenroot%d" % j) for j in snapped):
                        stats["target_sequences"] += 1
        for j in lj:
            stats["rows_run"] += len(j["funcs"])
            for i, fid in enumerate(j["order"]):
                r = lib["funcs"][fid]
                out = j["out"][i]
                pb = j["pb"][i] if j["pb"] is not None else {}
                row = (dict(r, _job=j["name"]), out, pb, j["dataname"], j["P"], i)
                judged.append(row)
                if j is base:
                    results.append(row)
                    continue
                stats["compared"] += 1
                if _same_row(out, base_out[fid]):
                    continue
                stats["differing"] += 1
                bad, info = oracle(r, out, dataset(j["dataname"]))
                bad0, info0 = oracle(r, base_out[fid], dataset(j["dataname"]))
                what = ("row independence: function %r (variant of %r, chain [%s], theta=%s) gets the row %s in schedule %s (P=%d, listed at position %d) "
                        "but %s in schedule base (P=1, position %d) of the same library %s; oracle on the first: %s, on the second: %s"
                        % (r["variant"], r["unique"], "; ".join(templates(r["k"])[c].s for c in r["chain"]), r["theta"], out, j["label"], j["P"], i,
                           base_out[fid], fid, lib["name"], [m for _, m in bad] or info["cls"], [m for _, m in bad0] or info0["cls"]))
                rp = dict(kind="family", data=j["dataname"], fid=fid, all_funcs=[_slim(q) for q in lib["funcs"]],
                          a=dict(label=j["label"], order=j["order"], P=j["P"]), b=dict(label="base", order=base["order"], P=1))
                P_same_family(rp, lib)
                if info["cls"] in ("regular", "unrecoverable") or info0["cls"] in ("regular", "unrecoverable"):
                    ctx.fail("match.py:row-independence:%s" % _rowkey(r), what, rp)
                else:
                    ctx.disagree("corr:row-independence", what)

    def replay_of(r, dn):
        j = [q for q in jobs if q["name"] == r["_job"]][0]
        lib = [l for l in libs if l["name"] == j["lib"]][0]
        fam_order = [f for f in j["order"] if lib["funcs"][f]["u"] == r["u"]] if j["P"] == 1 else list(j["order"])
        return dict(kind="library", data=dn, fid=r["fid"], all_funcs=[_slim(q) for q in lib["funcs"]], order=fam_order, P=j["P"], label=j["label"])
    classes, excl_f6, nfail, f1 = judge(ctx, judged, guard_ok, replay_of=replay_of, keyfix=":in-library")
    stats["oracle_classes"] = classes
    stats["oracle_failures"] = nfail
    return results, stats, f1


def P_same_family(rp, lib):
    """shrink a two-schedule replay to the functions of the failing function's unique function when both schedules run on one rank
    (rows of other unique functions cannot matter then: they read other rows of the tables)"""
    if rp["a"]["P"] != 1 or rp["b"]["P"] != 1:
        return False
    u_ = lib["funcs"][rp["fid"]]["u"]
    for s in ("a", "b"):
        rp[s]["order"] = [f for f in rp[s]["order"] if lib["funcs"][f]["u"] == u_]
    return True


def _run_listing(ctx, all_funcs, order, P, dataname, label):
    byfid = {i: dict(r, fid=i) for i, r in enumerate(all_funcs)}
    for r in byfid.values():
        r["F"] = [[float(v) for v in row] for row in r["F"]]
    j = dict(name=label, dataname=dataname, P=P, funcs=[byfid[f] for f in order], all_funcs=[byfid[i] for i in sorted(byfid)], probe=False)
    run_jobs(ctx, [j], "replay_" + label)
    return {fid: j["out"][i] for i, fid in enumerate(order)}, byfid


def run(ctx):
    import numpy as np
    t0 = time.time()
    drift = extract.drifted(ctx.proof.get("extract", {}), MODELLED)
    deep = (not ctx.quick) or bool(drift)
    ctx.extra["source_drift"] = drift
    rows = gen_rows(ctx, deep)
    ctx.extra["t_gen_s"] = round(time.time() - t0, 1)
    results = execute(ctx, rows)
    ctx.extra["t_exec_s"] = round(time.time() - t0, 1)
    gok, gdetail = guard_is_nan_test(ctx)
    if not gok:
        ctx.disagree("model:guard-is-nan-test", gdetail)
    n_single = len(results)
    fam_results, fam_stats, fam_f1 = family_check(ctx, deep, gok)
    ctx.extra["t_family_s"] = round(time.time() - t0, 1)
    nops, nbad, branches = correspond(ctx, results + fam_results)
    results = results[:n_single]
    nf, bf = flatten_tie(ctx)
    nt, bt = template_format_tie(ctx)
    ctx.extra["theorem_samples"] = hessian_theorem_tie(ctx, deep)
    classes, excl_f6, nfail, f1_rows = judge(ctx, results, gok)
    ctx.extra["row_independence"] = fam_stats
    f1_rows += fam_f1
    if f1_rows:
        # minimal instance first: shortest chain, fewest parameters
        f1_rows.sort(key=lambda q: (q[0]["k"], len(q[0]["chain"]), [ALPHA[q[0]["k"]].index(c) if c in ALPHA[q[0]["k"]] else 99 for c in q[0]["chain"]], q[0]["tag"] != "a+"))
        r, out, dn, msg = f1_rows[0]
        ctx.fail(F1_KEY, "%d rows with a recoverable, regular, non-empty chain and a finite unique function get code length inf and zero parameters; smallest: "
                 "variant %r of %r, chain [%s], theta=%s -> row %s (identity-chain rows are finite). %s"
                 % (len(f1_rows), r["variant"], r["unique"], "; ".join(templates(r["k"])[c].s for c in r["chain"]), r["theta"], out, msg), _replay_of(r, dn))
    obligations = ["corr:matchRow", "corr:unflatten", "corr:compose-order", "corr:nan-identity", "corr:flatten", "corr:template-format", "model:guard-is-nan-test", "tie:hessian-transform",
                   "corr:row-independence"]
    dis = set(d["name"] for d in ctx.disagreements)
    ctx.extra["corr_obligations"] = len(obligations)
    ctx.extra["corr_discharged"] = sum(1 for o in obligations if o not in dis)
    ctx.extra["correspondence"] = dict(model_ops=nops, mismatches=nbad, flatten_ops=nf, flatten_mismatch=bf, template_strings=nt, template_mismatch=bt,
                                       guard=gdetail)
    ctx.extra["model_branches_hit"] = branches
    ctx.extra["oracle_classes"] = classes
    ctx.extra["excluded_points_F6_oddroot_negative"] = excl_f6
    ctx.extra["rows"] = len(results)
    ctx.extra["ranks"] = sorted(set(q[4] for q in results))
    ctx.extra["input_distribution"] = dict(
        by_k={str(k): sum(1 for q in results if q[0]["k"] == k) for k in (0, 1, 2, 3)},
        by_chain_length={str(n): sum(1 for q in results if len(q[0]["chain"]) == n) for n in range(0, 6)},
        template_classes=sorted(set(templates(3)[c].cls if c in templates(3) else c for q in results for c in q[0]["chain"])),
        max_chain_length_exhaustive={"k=1": 4 if deep else 3, "k=2": 3 if deep else 2})
    for q in results[:: max(1, len(results) // 8)][:8]:
        ctx.sample(dict(k=q[0]["k"], chain=q[0]["chain"], theta=q[0]["theta"], variant=q[0]["variant"], out=q[1], ranks=q[4], model_branch=q[2].get("_branch")))
    ctx.extra["wall_parts_s"] = dict(total=round(time.time() - t0, 1))


def _guard_src():
    try:
        s = open(os.path.join(common.LEAN, "ESRVerif", "Generated", "Match.lean")).read()
        import re
        return re.search(r'def guardSrc : String := "(.*)"', s).group(1)
    except Exception:
        return "?"


def replay(ctx, data):
    rp = data["replay"]
    if rp.get("kind") == "family":
        # the same function listed in two schedules of the same library: the two rows must be the same
        outs = {}
        for s_ in ("a", "b"):
            outs[s_], byfid = _run_listing(ctx, rp["all_funcs"], rp[s_]["order"], rp[s_]["P"], rp["data"], s_)
        r = byfid[rp["fid"]]
        for s_ in ("a", "b"):
            print("schedule %s (%s, %d rank(s)): functions listed as" % (s_, rp[s_]["label"], rp[s_]["P"]))
            for f in rp[s_]["order"]:
                q = byfid[f]
                print("   %s fid=%d unique#%d %-28s chain [%s] -> %s" % ("*" if f == rp["fid"] else " ", f, q["u"], q["variant"],
                                                                      "; ".join(templates(q["k"])[c].s for c in q["chain"]), outs[s_][f]))
        print("unique function %r, theta=%s" % (r["unique"], r["theta"]))
        same = _same_row(outs["a"][rp["fid"]], outs["b"][rp["fid"]])
        print("function fid=%d: rows %s" % (rp["fid"], "identical" if same else "DIFFER"))
        return same
    if rp.get("kind") == "library":
        outs, byfid = _run_listing(ctx, rp["all_funcs"], rp["order"], rp["P"], rp["data"], "lib")
        r = byfid[rp["fid"]]
        for f in rp["order"]:
            q = byfid[f]
            print("   %s fid=%d unique#%d %-28s chain [%s] -> %s" % ("*" if f == rp["fid"] else " ", f, q["u"], q["variant"],
                                                                  "; ".join(templates(q["k"])[c].s for c in q["chain"]), outs[f]))
        bad, info = oracle(r, outs[rp["fid"]], dataset(rp["data"]))
        print("unique function %r, theta=%s, %d rank(s), schedule %s" % (r["unique"], r["theta"], rp["P"], rp.get("label")))
        print("oracle on fid=%d:" % rp["fid"], info, bad)
        return not bad
    r = rp["row"]
    r = dict(r)
    r["F"] = [[float(v) for v in row] for row in r["F"]]
    res = execute(ctx, {rp["data"]: [r]}, label="replay")
    (row, out, pb, dn, P, i) = res[0]
    bad, info = oracle(row, out, dataset(dn))
    print("row:", row["variant"], "of", row["unique"], "chain", [templates(row["k"])[c].s for c in row["chain"]], "theta", row["theta"])
    print("real match.main wrote:", out)
    print("oracle:", info, bad)
    return not bad
