"""C11 — rewritten (extra) trees are well formed and equal to the tree they came from; rewriting terminates."""
import io, contextlib, itertools, json, os, signal, sys, time, traceback
import common, extract
import oracle_rewrite as orc
import c11_driver as drv
import c11_sums as sums
import c11_sites as sites

LEAN_MODULE = ["ESRVerif.Props.C11", "ESRVerif.Props.C11b", "ESRVerif.Props.C11c"]
LEVEL = "other"
LEVEL_TEXT = ("Machine-checked validator: Lean theorem certEquiv_sound (all real evaluation points, unbounded in the tree) says that a pair of "
              "label lists accepted by the executable checker certEquiv is a well-formed rewritten tree denoting the same real function as "
              "its original; every (original, extra) pair the REAL find_additional_trees emits is pushed through that checker on every run "
              "(all trees up to the tier's complexity over the six shipped and user-style bases, PRNG samples above) and, independently, through "
              "a numeric prefix-tree evaluator at 8 generic points. The quantifier over trees is therefore bounded (exhaustive small, sampled above) "
              "while the quantifier over evaluation points is universal. update_tree is additionally modelled in full at list level (detection loops "
              "over the regenerated pow_num/exp_ord tables and all output splices), compared with the real function on every call the real driver makes, "
              "and proved to remove a pow-set label on every rewrite (updateTree_decreases, driver_phase1_bounded). "
              "Candidate selection of update_tree (Props/C11c): the five parallel lists special_idx/diff1_idx/diff2_idx/num1/num2 are modelled statement by statement "
              "(UT.detectPar) and PROVED to be the columns of the record list the model splices from (detectPar_eq_specials, parallel_lists_aligned: row k of every list "
              "belongs to the same site; candidate_from_its_site: its run lengths and numbers are the ones detected AT special_idx[k], sites strictly increasing), the "
              "parallel-list spelling of the whole function equals the record model (updateTreePar_eq_updateTree), the result at try_idx k is a function of candidate k alone "
              "(updateTree_candidate_local, selectOut_local, selectOut_filter) and the decrease / valid-shape theorems hold at every try index (updateTree_all_try_indices). "
              "Tied to the code by a structure-directed phase (harness/c11_sites.py): every ordered pair of site kinds (log_abs+run, run+exp, log_abs+run+exp, pow_abs with runs "
              "on both sides) x run lengths 1..3 under every subset of the optional binary operators, classes of folded numbers rotating through all pairs, plus PRNG triples; "
              "the REAL update_tree is called at EVERY try index with its five candidate lists captured at return (sys.monitoring) and compared with the model's lists, with an "
              "independent re-derivation of the sites, and its result with the model; every returned tree is certified / evaluated, and the real driver is run on the same trees. "
              "The fixed-point driver find_additional_trees is modelled as written over abstract rewriters and an abstract cross-check oracle "
              "(Props/C11b: driver_outputs_from_rewriters, driver_phase_order, driver_no_duplicates, driver_terminates within |U|+1 passes per loop when the reachable "
              "label lists lie in a finite list U, phase1_terminates_updateTree with U computed from powCount) and compared with the REAL driver running over "
              "PRNG-scripted rewriters. update_sums is ported statement by statement (every branch) and compared with the real function on every call the real "
              "driver makes and on PRNG sum-centred trees with integer literals; updateSums_alphabet / updateSums_sizes_bounded_partial bound the labels and the length "
              "of one step's outputs. Not proved: a finite universe for phase 2 (no decreasing measure exists: 2*A+B and B+2*A rewrite into each other, one step can "
              "grow a tree by 2(m-2) labels); termination of phase 2 on real trees is observed through the per-tree time bound.")
TECHNIQUE = ("Lean 4 proof of a certificate checker (normalisation by proved-sound steps over Mathlib's reals) + regenerated pow_num/exp_ord tables "
             "+ Lean models of update_tree, update_sums and of the fixed-point driver with invariants/termination proofs + exhaustive/sampled runs of the "
             "real rewriter through the checker and an independent numeric oracle + the real driver over PRNG-scripted rewriters "
             "+ proved alignment of update_tree's parallel candidate lists, tied by structure-directed multi-site trees driving the real update_tree at every try index "
             "(candidate lists captured with sys.monitoring)")
RULE = ("one evaluation = one (original tree, basis) run of the real find_additional_trees plus one per emitted extra tree, or one scripted run of the real driver; "
        "non-trivial = the run emitted at least one extra tree; distinct by (labels, basis) / by script. quick: every tree with n<=5 over the six shipped bases "
        "(n<=6 for the four shipped bases with at most 12000 trees at n=6) "
        "and over the fixed + PRNG user-style bases (n<=4 for user bases with more than 1500 trees at n=5), plus 2500 PRNG-sampled trees at n=6,7, 400 driver scripts, "
        "2500 synthetic update_sums trees x 3 try indices, and the site-directed trees (one per ordered pair of 9 site kinds x lengths and per subset of {-,/,pow}, "
        "+ pow_abs patterns + 120 triples, about 900 trees of 5-20 labels): one evaluation per direct update_tree call (every try index up to one past the last candidate) "
        "and per driver run; "
        "thorough: 5 site-directed trees per pair and pattern + 2500 triples; every tree n<=6 (shipped) / n<=5 or 6 (user) plus 30000 PRNG-sampled trees at each of n=7,8,9, 4000 driver scripts, 30000 synthetic update_sums trees")
EXPLANATION = LEVEL_TEXT
TRUSTED = ["Mathlib v4.33 reals: Real.exp/log/rpow/sqrt",
           "ESR operator semantics as written in Proofs/Rewrite.lean (inv u=1/u, sqrt_abs u=sqrt|u|, log_abs u=log|u|, pow(u,v)=|u|^v; from esr/fitting/sympy_symbols.py)",
           "harness/extractors/rewrite.py (pow_set, pow_num, exp_set, exp_ord)",
           "harness/oracle_rewrite.py (independent parser/evaluator, float + 60/120-digit mpmath)",
           "hand model UT.updateTree of update_tree in ESRVerif/Model/Rewrite.lean (subtree ends by slot counting instead of parent pointers; tied by "
           "correspondence on every real call)",
           "hand model UT.detectPar / UT.updateTreePar of the five parallel candidate lists (generator.py l.601-694), proved equal to the record model; tied by the captured "
           "lists of every site-directed call (op rwcand) and by rwutp on the same calls",
           "harness/c11_sites.py (site generator + independent re-derivation of the candidate table)",
           "hand model US.updateSums of update_sums in ESRVerif/Model/RewriteSums.lean (same pointer reading, guarded by an evaluated precondition; tied by "
           "correspondence on every real call + synthetic calls; answers `unported` are counted in the evidence)",
           "hand model Drv.findAdditional of find_additional_trees in ESRVerif/Model/RewriteDriver.lean (three parallel lists as one list of entries; a tree = its shape; "
           "tied by harness/c11_driver.py: the real driver over scripted rewriters, emitted lists + order + passes per loop)"]
ASSUMPTIONS = ["equality is claimed at points where both trees are defined (Lean: total semantics everywhere, hence partial semantics where both defined); "
               "numeric oracle: finite values only, 8 generic points (x>0, parameters non-zero)",
               "trees beyond the exhaustive bound are PRNG-sampled; a numerically equal but uncertified pair beyond the quick bound is recorded as "
               "uncertified_sampled in the evidence and does not fail the run; within the quick bound it is reported as an incompleteness of the validator",
               "bases with the label pow_abs are outside the property's quantifier (binary operators from + * - / pow): explored, observations recorded, never a violation",
               "direct update_tree calls at try indices the driver does not reach on that tree are judged like driver outputs (the property names the rewriting step); "
               "a nested single-candidate result over a basis without '-' (known finding F13) is not judged directly: the driver run on the same tree reports it under F13",
               "the captured candidate lists are compared only when the function still has the five list locals special_idx, diff1_idx, diff2_idx, num1, num2 "
               "(otherwise counted as candidate_tables_unreadable; results are compared regardless)",
               "termination: driver_terminates needs the reachable label lists to lie in a finite list U (hypothesis hU). For phase 1 over the update_tree model U is computed "
               "(phase1_terminates_updateTree; its hypothesis Consistent is evaluated on every real update_tree call). For phase 2 hU is NOT proved "
               "(updateSums_sizes_bounded_partial is a per-step bound); on real trees termination of the whole driver = the real driver returns within the per-tree time bound",
               "the sympy cross-check inside the driver is an oracle parameter of the model (a deterministic function of parent and candidate); scripted runs replace it by a table",
               "scripted driver runs use rewriter results `one`/`many`/`none`/raise with nadded consistent with the lists; a one-element candidate list in phase 2 "
               "(never returned by update_sums, which unwraps it) is outside the modelled domain and not generated"]
# tables whose committed version may stand in as a hand-written model when the translator cannot read the source;
# value = the correspondence that then ties it to the code (common.prove / common.decide)
FALLBACK = {'Rewrite': 'the update_tree / update_sums models vs the real functions on every call the real driver makes', 'Shape': 'basis tables: labels_to_shape / check_tree correspondence on every tree used'}
MODELLED = ["generator.py:update_tree", "generator.py:update_sums", "generator.py:find_additional_trees"]

POW_SET = ("square", "cube", "sqrt_abs", "inv")
EXP_SET = ("log_abs", "exp", "pow_abs")

USER_FIXED = [
    ("u_invlog_noMinus", [["x", "a"], ["inv", "log_abs"], ["+", "*"]]),
    ("u_sqexp_minus", [["x", "a"], ["square", "exp"], ["+", "*", "-"]]),
    ("u_cubesqrtlog_div", [["x", "a"], ["cube", "sqrt_abs", "log_abs"], ["+", "*", "/"]]),
    ("u_invcubeexp_pow", [["x", "a"], ["inv", "cube", "exp"], ["+", "*", "pow"]]),
    ("u_all6_minusdiv", [["x", "a"], ["sqrt_abs", "inv", "log_abs", "exp", "cube", "square"], ["+", "*", "-", "/"]]),
    ("u_cube_all", [["x", "a"], ["cube"], ["+", "*", "-", "/", "pow"]]),
]
EXTENDED = [          # outside the property's quantifier (label pow_abs): observations only
    ("x_powabs", [["x", "a"], ["sqrt_abs", "cube", "log_abs", "exp", "inv"], ["+", "*", "-", "/", "pow_abs"]]),
]


class _Timeout(BaseException):
    pass


def _alarm(*a):
    raise _Timeout()


def bkey(b):
    return "u=%s;b=%s" % (",".join(b[1]) or "_", ",".join(b[2]))


def _csv(xs):
    return ",".join(xs) if xs else "_"


# ---- enumeration of labelled trees (own enumeration over the real get_allowed_shapes / check_tree) ----------------

_SHAPES = {}


def shapes(n):
    if n not in _SHAPES:
        import numpy as np
        from esr.generation import generator as g
        out = []
        for s in g.get_allowed_shapes(n):
            s = np.array(s, dtype=int)
            out.append((s, g.check_tree(s)[2]))
        _SHAPES[n] = out
    return _SHAPES[n]


def count_trees(n, b):
    c = 0
    for s, _ in shapes(n):
        k = 1
        for a in s:
            k *= len(b[int(a)])
        c += k
    return c


def all_trees(n, b):
    for s, tree in shapes(n):
        n0 = int((s == 0).sum()); n1 = int((s == 1).sum()); n2 = int((s == 2).sum())
        for r0 in itertools.product(b[0], repeat=n0):
            r0 = list(r0); k = 0
            for i, v in enumerate(r0):
                if v == "a":
                    r0[i] = "a%d" % k; k += 1
            for r1 in itertools.product(b[1], repeat=n1):
                for r2 in itertools.product(b[2], repeat=n2):
                    it = [iter(r0), iter(r1), iter(r2)]
                    yield tree, [next(it[int(a)]) for a in s]


def sample_trees(rng, n, b, k):
    """k PRNG-drawn labelled trees of complexity n, biased towards the operators the rewriter looks at"""
    sh = shapes(n)
    un = list(b[1]) + [u for u in b[1] if u in POW_SET or u in EXP_SET] * 2
    bi = list(b[2]) + [o for o in b[2] if o in ("+", "-")] * 2
    out = []
    tries = 0
    while len(out) < k and tries < 20 * k:
        tries += 1
        s, tree = sh[rng.randrange(len(sh))]
        if (s == 1).any() and not un:
            continue
        labels = []
        na = 0
        npar = rng.choice([0, 1, 1, 2, 3])
        for a in s:
            a = int(a)
            if a == 0:
                if "a" in b[0] and na < npar and rng.random() < 0.45:
                    labels.append("a%d" % na); na += 1
                else:
                    labels.append("x" if "x" in b[0] else "a%d" % na)
                    if labels[-1] != "x":
                        na += 1
            elif a == 1:
                labels.append(rng.choice(un))
            else:
                labels.append(rng.choice(bi))
        out.append((tree, labels))
    return out


# ---- one run of the real driver ----------------------------------------------------------------------------------

def run_real(tree, labels, b, tlimit):
    """-> dict(extras=[label lists], exc=None|(type, where, text), timeout=bool, printed=str, wall=float)"""
    from esr.generation import generator as g
    buf = io.StringIO()
    t0 = time.time()
    res = dict(extras=[], exc=None, timeout=False, printed="", wall=0.0)
    old = signal.signal(signal.SIGALRM, _alarm)
    try:
        signal.setitimer(signal.ITIMER_REAL, tlimit)
        with contextlib.redirect_stdout(buf):
            _, nl = g.find_additional_trees(tree, list(labels), b)
        signal.setitimer(signal.ITIMER_REAL, 0)
        res["extras"] = [[str(z) if isinstance(z, str) else z for z in L] if isinstance(L, (list, tuple)) else L for L in nl[1:]]
    except _Timeout:
        res["timeout"] = True
    except Exception as e:
        signal.setitimer(signal.ITIMER_REAL, 0)
        where = "?"
        for fr in traceback.extract_tb(e.__traceback__):
            if fr.filename.endswith("generator.py"):
                where = fr.name
        res["exc"] = (type(e).__name__, where, str(e)[:200])
    finally:
        signal.setitimer(signal.ITIMER_REAL, 0)
        signal.signal(signal.SIGALRM, old)
    res["printed"] = buf.getvalue()[:300]
    res["wall"] = time.time() - t0
    return res


# ---- recording of every real update_tree call (correspondence with the Lean model UT.updateTree) -------------------

def canon_ut(res):
    L, sh, n = res
    if L is None:
        return "none" if n == 0 and sh is None else "none?nadded=%r" % (n,)
    if len(L) > 0 and isinstance(L[0], str):
        return "one %s %s" % (",".join(L), "".join(str(int(a)) for a in sh)) + ("" if n == 1 else "?nadded=%r" % (n,))
    return "many " + ";".join("%s:%s" % (",".join(l), "".join(str(int(a)) for a in s_)) for l, s_ in zip(L, sh)) + ("" if n == len(L) == len(sh) else "?nadded=%r" % (n,))


class UTRec(object):
    def __init__(self, cap):
        self.calls = {}
        self.cap = cap
        self.total = 0

    def install(self):
        from esr.generation import generator as g
        self.g = g
        self.orig = g.update_tree
        rec = self

        def wrapped(tree, labels, try_idx, basis):
            key = None
            rec.total += 1
            if isinstance(labels, list) and all(isinstance(z, str) for z in labels) and len(rec.calls) < rec.cap:
                key = (tuple(labels), "".join(str(int(t.type)) for t in tree), int(try_idx), _csv(basis[1]), _csv(basis[2]))
                if key in rec.calls:
                    key = None
            try:
                res = rec.orig(tree, labels, try_idx, basis)
            except Exception:
                if key is not None:
                    rec.calls[key] = "err"
                raise
            if key is not None:
                rec.calls[key] = canon_ut(res)
            return res
        g.update_tree = wrapped

    def remove(self):
        self.g.update_tree = self.orig


def _corr_update_tree(ctx, rec):
    if not _model_ok(ctx):
        return 0, 1, {}, 0
    keys = list(rec.calls)
    ops = ["rwut %s %s %s %s %d" % (k[3], k[4], ",".join(k[0]), k[1], k[2]) for k in keys]
    out = []
    for c in range(0, len(ops), 20000):
        out += common.model(ops[c:c + 20000])
    bad = 0
    kinds = {}
    nodrop = 0
    incons = 0
    for k, o, m in zip(keys, ops, out):
        real = rec.calls[k]
        # hypothesis `Consistent` of updateTree_decreases on the real data: pow-set labels and log_abs on unary nodes
        # (and of updateTree_validShape_partial: valid shape, exp unary, + and - binary)
        need = 1
        for a in k[1]:
            need = (need - 1 + int(a)) if need > 0 else -10 ** 6
        if len(k[0]) != len(k[1]) or need != 0 \
                or any((z in POW_SET or z in ("log_abs", "exp")) and a != "1" for z, a in zip(k[0], k[1])) \
                or any(z in ("+", "-") and a != "2" for z, a in zip(k[0], k[1])):
            incons += 1
            ctx.disagree("corr:consistent", "update_tree called with labels %s on shape %s: invalid shape, or a pow-set label / log_abs / exp on a non-unary node, or +/- on a non-binary node" % (list(k[0]), k[1]))
        kinds[real.split(" ")[0]] = kinds.get(real.split(" ")[0], 0) + 1
        if real != m:
            bad += 1
            ctx.disagree("corr:update_tree", "%s: code=%s model=%s" % (o, real[:200], m[:200]))
        # termination measure on the REAL outputs: every rewrite removes at least one pow-set label
        if real.startswith(("one ", "many ")):
            body = real.split(" ", 1)[1]
            cands = [body.split(" ")[0]] if real.startswith("one ") else [c.split(":")[0] for c in body.split(";")]
            pc = sum(1 for z in k[0] if z in POW_SET)
            for c in cands:
                if sum(1 for z in c.split(",") if z in POW_SET) >= pc:
                    nodrop += 1
                    ctx.disagree("corr:powcount-decrease", "update_tree(%s, try=%d) -> %s does not remove a pow-set label" % (list(k[0]), k[2], c))
    if keys:
        k = keys[len(keys) // 2]
        ctx.sample(dict(op=ops[len(keys) // 2], code=rec.calls[k][:120], model=out[len(keys) // 2][:120]))
    return len(ops), bad, kinds, nodrop + incons



# ---- the driver over scripted rewriters (model ESR.Rewrite.Drv.findAdditional; theorems of Props/C11b) ----------------

def _driver_scripts(ctx, n):
    """the REAL find_additional_trees over PRNG-scripted update_tree / update_sums / initial_sympify:
    property oracle (drv.judge) + correspondence with the Lean model"""
    scs = [drv.gen_script(ctx.rng) for _ in range(n)]
    res = [drv.run_script(sc) for sc in scs]
    stats = dict(scripts=n, mismatches=0, property_failures=0, outcomes={}, nontrivial=0, max_passes=[0, 0], max_emitted=0)
    for sc, r in zip(scs, res):
        nontriv = bool(r["out"] and len(r["out"]) > 1)
        stats["nontrivial"] += int(nontriv)
        ctx.case(("script", json.dumps(sc, sort_keys=True)), nontrivial=nontriv, n=1)
        if r["out"]:
            stats["max_emitted"] = max(stats["max_emitted"], len(r["out"]))
            stats["max_passes"] = [max(a, b) for a, b in zip(stats["max_passes"], r["passes"])]
        for key, what in drv.judge(sc, r):
            stats["property_failures"] += 1
            ctx.fail("%s:script:%s" % (key, _script_id(sc)), what, dict(kind="script", script=sc))
    if _model_ok(ctx):
        # fuel = |universe| + 3: script_run_terminates says the model cannot answer `fuel`
        out = common.model([drv.op_line(sc, len(sc["univ"]) + 3) for sc in scs])
        for sc, r, m in zip(scs, res, out):
            a, b = drv.canon_real(r), drv.canon_model(m)
            stats["outcomes"][m.split(" ")[0]] = stats["outcomes"].get(m.split(" ")[0], 0) + 1
            if m == "fuel":
                ctx.disagree("lean:script_run_terminates", "the model ran out of fuel on %s" % drv.op_line(sc, len(sc["univ"]) + 3))
            if a != b:
                stats["mismatches"] += 1
                ctx.disagree("corr:find_additional_trees", "%s: code=%s model=%s" % (drv.op_line(sc, len(sc["univ"]) + 3)[:600], a[:300], m[:300]))
        k = next((i for i, r in enumerate(res) if r["out"] and len(r["out"]) > 2), 0)
        ctx.sample(dict(op=drv.op_line(scs[k], len(scs[k]["univ"]) + 3)[:400], code=drv.canon_real(res[k])[:200], model=out[k][:200]))
    else:
        stats["mismatches"] = -1
    return stats


def _script_id(sc):
    import hashlib
    return hashlib.sha1(json.dumps(sc, sort_keys=True).encode()).hexdigest()[:10]


def _corr_update_sums(ctx, rec2, nsyn):
    """model US.updateSums vs the real update_sums: every distinct call the real driver made + PRNG sum-centred trees
    with integer literals called directly"""
    out = {}
    if not _model_ok(ctx):
        return dict(real=dict(compared=0, mismatches=1), synthetic=dict(compared=0, mismatches=1))
    for tag, calls in (("real", rec2.calls), ("synthetic", sums.synthetic_calls(ctx.rng, nsyn))):
        r = sums.compare(ctx, calls, tag)
        nun = sum(r["unported"].values())
        out.setdefault("_bad_keys", []).extend(r["bad_keys"][:200])
        out[tag] = dict(compared=r["compared"], mismatches=r["mismatches"], unported=r["unported"], result_kinds=r["kinds"],
                        ported_fraction=round(r["compared"] / max(1, r["compared"] + nun), 6),
                        max_length_growth_of_a_candidate=r["max_length_growth"])
    out["real"]["calls_total"] = rec2.total
    return out


def _escalate_sums(ctx, acc, bad_keys, tlimit):
    """failing-input search after the update_sums model and the code disagreed on calls with integer literals (which only arise
    after rewrites): original trees over the basis whose rewriting can reach those calls (c11_sums.deliteralise) go through the
    REAL driver and are judged like every other tree (their pairs are appended to acc.pairs)"""
    import numpy as np
    from esr.generation import generator as g
    seen, trees = set(), {}
    for k in bad_keys[:60]:
        labels, _, _, un, bi = k
        b = [["x", "a"], [] if un == "_" else un.split(","), [] if bi == "_" else bi.split(",")]
        try:
            cands = sums.deliteralise(list(labels), b)
        except Exception:
            cands = []
        for L in cands:
            key = (tuple(L), bkey(b))
            if key in seen or len(seen) >= 400:
                continue
            seen.add(key)
            sh = [2 if z in b[2] else 1 if z in b[1] else 0 for z in L]
            try:
                t = g.check_tree(np.array(sh, dtype=int))
                if not t[0]:
                    continue
                trees.setdefault(bkey(b), (b, []))[1].append((t[2], L))
            except Exception:
                continue
    n0 = len(acc.pairs)
    for _, (b, ts) in trees.items():
        _explore(ctx, acc, "deliteralised", b, max(len(L) for _, L in ts), ts, True, False, min(tlimit, 20))
    return dict(disagreeing_calls_used=min(len(bad_keys), 60), original_trees_run=len(seen), pairs_added=len(acc.pairs) - n0)


def _real_driver_shape(ctx, acc):
    """driver_no_duplicates on the REAL runs (counted per run in _explore)"""
    return acc.dups

# ---- anchored-line coverage of the real code (sys.monitoring, each location reported once) ------------------------

_COV = set()
_ANCH = ("update_tree", "update_sums", "get_sum", "find_additional_trees")


def cov_start():
    mon = getattr(sys, "monitoring", None)
    if mon is None:
        return False
    try:
        mon.use_tool_id(3, "c11cov")
    except ValueError:
        return False

    def line(code, ln):
        if code.co_name in _ANCH and code.co_filename.endswith("generator.py"):
            _COV.add(ln)
        return mon.DISABLE
    mon.register_callback(3, mon.events.LINE, line)
    mon.set_events(3, mon.events.LINE)
    return True


def cov_stop():
    mon = getattr(sys, "monitoring", None)
    if mon is None:
        return
    try:
        mon.set_events(3, 0)
        mon.free_tool_id(3)
    except Exception:
        pass


def anchored_lines(stage):
    """executable line numbers of the three anchored functions (from the staged source)"""
    import ast
    src = open(os.path.join(stage, "esr/generation/generator.py")).read()
    mod = ast.parse(src)
    lines = set()
    for n in mod.body:
        if isinstance(n, ast.FunctionDef) and n.name in ("update_tree", "update_sums", "find_additional_trees"):
            for m in ast.walk(n):
                if isinstance(m, ast.stmt) and not (isinstance(m, ast.Expr) and isinstance(m.value, ast.Constant)) \
                        and not isinstance(m, ast.FunctionDef):
                    lines.add(m.lineno)
    return lines


# ---- structure-directed phase: trees built from pairs/triples of rewrite sites (harness/c11_sites.py) ---------------

_CAND = ("special_idx", "diff1_idx", "diff2_idx", "num1", "num2")


class Capture(object):
    """copies the five candidate lists of the real update_tree whenever one of its frames returns
    (sys.monitoring PY_RETURN restricted to that one code object: no cost elsewhere; sys.settrace as fallback)"""

    def __init__(self, fn):
        self.fn = fn
        self.code = fn.__code__
        self.cap = {}
        self.mon = getattr(sys, "monitoring", None)
        self.tool = None
        if self.mon is not None:
            for t in (1, 2, 5):
                try:
                    self.mon.use_tool_id(t, "c11cand")
                    self.tool = t
                    break
                except ValueError:
                    continue
        if self.tool is not None:
            self.mon.register_callback(self.tool, self.mon.events.PY_RETURN, self._ret)
            self.mon.set_local_events(self.tool, self.code, self.mon.events.PY_RETURN)

    def _grab(self, frame):
        loc = frame.f_locals
        for nm in _CAND:
            if isinstance(loc.get(nm), list):
                self.cap[nm] = list(loc[nm])

    def _ret(self, code, offset, retval):
        if code is self.code:
            self._grab(sys._getframe(1))

    def close(self):
        if self.tool is not None:
            try:
                self.mon.set_local_events(self.tool, self.code, 0)
                self.mon.register_callback(self.tool, self.mon.events.PY_RETURN, None)
                self.mon.free_tool_id(self.tool)
            except Exception:
                pass
            self.tool = None

    def call(self, tree, labels, k, b):
        """-> (canon result | 'err', {name: list} possibly incomplete)"""
        self.cap = {}
        if self.tool is not None:
            try:
                return canon_ut(self.fn(tree, labels, k, b)), self.cap
            except Exception:
                return "err", self.cap
        me = self

        def local(frame, event, arg):
            if event == "return":
                me._grab(frame)
            return local

        def tracer(frame, event, arg):
            if event == "call" and frame.f_code is me.code:
                frame.f_trace_lines = False
                return local
            return None
        old = sys.gettrace()
        sys.settrace(tracer)
        try:
            try:
                res = canon_ut(self.fn(tree, labels, k, b))
            except Exception:
                res = "err"
        finally:
            sys.settrace(old)
        return res, self.cap


def canon_tab(cap):
    """the captured lists in the spelling of the model's `rwcand`; None if the function no longer has those five lists"""
    if any(nm not in cap for nm in _CAND):
        return None
    try:
        ns = lambda xs: ",".join(str(int(z)) for z in xs) or "_"
        nm = lambda xs: ",".join("None" if z is None else str(z) for z in xs) or "_"
        return "special=%s diff1=%s diff2=%s num1=%s num2=%s" % (ns(cap["special_idx"]), ns(cap["diff1_idx"]), ns(cap["diff2_idx"]),
                                                              nm(cap["num1"]), nm(cap["num2"]))
    except Exception:
        return None


def tab_of_rows(rows):
    ns = lambda xs: ",".join(str(int(z)) for z in xs) or "_"
    nm = lambda xs: ",".join("None" if z is None else str(z) for z in xs) or "_"
    return "special=%s diff1=%s diff2=%s num1=%s num2=%s" % (ns([r["special"] for r in rows]), ns([r["diff1"] for r in rows]),
                                                          ns([r["diff2"] for r in rows]), nm([r["num1"] for r in rows]), nm([r["num2"] for r in rows]))


def _ut_candidates(real):
    """label lists of a canon_ut string"""
    if real.startswith("one "):
        return [real.split(" ")[1].split(",")]
    if real.startswith("many "):
        return [c.split(":")[0].split(",") for c in real.split(" ", 1)[1].split("?")[0].split(";")]
    return []


def _sites(ctx, acc, rec, deep, tlimit):
    """every ordered pair of site kinds x run lengths under every pattern of optional binary operators (+ PRNG triples):
    the real update_tree at EVERY try index (candidate lists captured) vs the model's candidate table and result,
    every emitted tree judged; then the real driver on the same tree (through _explore)"""
    import numpy as np
    from extractors import rewrite as rx
    from esr.generation import generator as g
    st = dict(cases=0, in_quantifier=0, direct_calls=0, direct_rewrites=0, candidate_tables_compared=0, candidate_tables_unreadable=0,
              table_mismatches=0, misaligned_tables=0, parallel_vs_record_model_mismatches=0, result_mismatches=0,
              f13_nested_results_not_judged=0, by_sites={}, by_tag={}, basis_patterns=0, max_try_idx=0)
    try:
        tb = rx.tables(ctx.stage)
    except Exception as e:
        ctx.disagree("extract:Rewrite-tables", "the pow/exp tables of update_tree could not be read for the site generator: %r" % (e,))
        return st
    C = sites.cases(ctx.rng, tb, 5 if deep else 1, 2500 if deep else 120)
    st["basis_patterns"] = len(set(tuple(sorted(c["basis"][2])) for c in C))
    capt = Capture(rec.orig)
    todo = []            # (case, k, real result, real table, independent table)
    t0 = time.time()
    for c in C:
        labels, b = c["labels"], c["basis"]
        tree = g.check_tree(np.array(c["shape"], dtype=int))[2]
        st["cases"] += 1
        st["in_quantifier"] += int(c["in_quant"])
        st["by_sites"][str(c["nsites"])] = st["by_sites"].get(str(c["nsites"]), 0) + 1
        tg = c["tag"].split(":")[0] + ":" + ",".join(z.rstrip("0123456789+") for z in c["tag"].split(":")[1].split(","))
        st["by_tag"][tg] = st["by_tag"].get(tg, 0) + 1
        ind = tab_of_rows(sites.site_table(labels, tb))
        k, top = 0, c["nsites"]
        while k <= top and k <= 12:
            real, cap = capt.call(tree, list(labels), k, b)
            tab = canon_tab(cap)
            if "special_idx" in cap:
                top = max(top, len(cap["special_idx"]))
            st["direct_calls"] += 1
            st["max_try_idx"] = max(st["max_try_idx"], k)
            key = (tuple(labels), "".join(str(a) for a in c["shape"]), k, _csv(b[1]), _csv(b[2]))
            if key not in rec.calls:
                rec.calls[key] = real                      # also compared through `rwut` in _corr_update_tree
            todo.append((c, k, real, tab, ind))
            cands = _ut_candidates(real)
            ctx.case(("ut", tuple(labels), bkey(b), k), nontrivial=bool(cands), n=1)
            if real.startswith("many ") and "-" not in b[2]:
                st["f13_nested_results_not_judged"] += 1   # known finding F13 (nested single candidate; the driver run below reports it)
            else:
                for L in cands:
                    st["direct_rewrites"] += 1
                    acc.pairs.append((len(labels), "sites", b, list(labels), L, c["in_quant"], False, k))
            k += 1
    capt.close()
    st["direct_wall_s"] = round(time.time() - t0, 1)
    t0 = time.time()
    for c in C:
        tree = g.check_tree(np.array(c["shape"], dtype=int))[2]
        _explore(ctx, acc, "sites", c["basis"], len(c["labels"]), [(tree, list(c["labels"]))], c["in_quant"], False, tlimit)
    st["driver_wall_s"] = round(time.time() - t0, 1)
    # correspondence: candidate table (five parallel lists) and the parallel-list spelling of the result
    seen_tab = {}
    for c, k, real, tab, ind in todo:
        if k == 0:
            if tab is None:
                st["candidate_tables_unreadable"] += 1
            else:
                if tab != ind:
                    st["misaligned_tables"] += 1
                    ctx.disagree("corr:update_tree-candidate-lists-aligned",
                                 "update_tree(%s, basis=%s): the five candidate lists at return are %s; the sites of the label list give %s "
                                 "(row k of every list must describe the k-th site)" % (c["labels"], c["basis"], tab, ind))
        elif tab is not None and tab != seen_tab.get(id(c), tab):
            ctx.disagree("corr:update_tree-candidate-lists-depend-on-try-idx", "update_tree(%s): candidate lists %s at try_idx %d, %s at 0" % (c["labels"], tab, k, seen_tab[id(c)]))
        if k == 0 and tab is not None:
            seen_tab[id(c)] = tab
    if _model_ok(ctx):
        ops1 = ["rwcand %s" % ",".join(c["labels"]) for c, k, _, _, _ in todo if k == 0]
        ops2 = ["rwutp %s %s %s %s %d" % (_csv(c["basis"][1]), _csv(c["basis"][2]), ",".join(c["labels"]), "".join(str(a) for a in c["shape"]), k)
                for c, k, _, _, _ in todo]
        out = common.model(ops1 + ops2)
        m1 = dict(zip(ops1, out[:len(ops1)]))
        for (c, k, real, tab, ind), o, m in zip(todo, ops2, out[len(ops1):]):
            if k == 0 and tab is not None:
                st["candidate_tables_compared"] += 1
                mt = m1["rwcand %s" % ",".join(c["labels"])]
                if mt != tab:
                    st["table_mismatches"] += 1
                    ctx.disagree("corr:update_tree-candidates", "update_tree(%s, basis=%s): candidate lists of the code %s, of the model %s" % (c["labels"], c["basis"], tab, mt))
            if m != real:
                st["result_mismatches"] += 1
                ctx.disagree("corr:update_tree", "%s: code=%s model(parallel lists)=%s" % (o, real[:200], m[:200]))
        if todo:
            c, k, real, tab, ind = todo[len(todo) // 3]
            ctx.sample(dict(op="rwcand %s" % ",".join(c["labels"]), code=tab, model=m1.get("rwcand %s" % ",".join(c["labels"]))))
    else:
        st["table_mismatches"] = -1
    return st


# ---- the check ----------------------------------------------------------------------------------------------------

class Acc(object):
    def __init__(self):
        self.pairs = []            # (n, bname, b, labels, extra, in_quant, in_quick_bound)
        self.per_n = {}
        self.trees = 0
        self.slow = []
        self.dups = 0
        self.timeouts = 0
        self.skipped = 0


def _explore(ctx, acc, name, b, n, trees, in_quant, in_bound, tlimit):
    for tree, labels in trees:
        if acc.timeouts >= 5:               # five trees already reported as non-terminating: do not spend the time bound on thousands more
            acc.skipped += 1
            continue
        r = run_real(tree, labels, b, tlimit)
        acc.trees += 1
        key = (tuple(labels), bkey(b))
        ctx.case(key, nontrivial=bool(r["extras"]), n=1 + len(r["extras"]))
        if r["wall"] > 2.0 and len(acc.slow) < 10:
            acc.slow.append(dict(labels=labels, basis=b, wall_s=round(r["wall"], 2)))
        rp = dict(kind="tree", labels=list(labels), basis=b, tlimit=tlimit)
        if r["timeout"]:
            acc.timeouts += 1
            _report(ctx, in_quant, "nontermination:%s@%s" % (",".join(labels), bkey(b)),
                    "find_additional_trees(%s) over basis %s did not return within %.0f s" % (labels, b, tlimit), rp)
            continue
        if r["exc"] is not None:
            et, where, text = r["exc"]
            _report(ctx, in_quant, "raises:%s:%s:%s@%s" % (et, where, ",".join(labels), bkey(b)),
                    "find_additional_trees(%s) over basis %s raises %s in %s: %s (no rewritten trees are produced; the generation run aborts)" % (labels, b, et, where, text), rp)
            continue
        flat = [tuple(L) for L in r["extras"] if _flat(L)]
        if len(set(flat)) != len(flat) or tuple(labels) in flat:          # theorem driver_no_duplicates, on the real run
            acc.dups += 1
            ctx.disagree("corr:driver-no-duplicates", "find_additional_trees(%s) over %s emits a label list twice: %s" % (labels, b, r["extras"]))
        for L in r["extras"]:
            acc.pairs.append((n, name, b, list(labels), L, in_quant, in_bound))


def _report(ctx, in_quant, key, what, rp):
    if in_quant:
        ctx.fail(key, what, rp)
    else:
        ctx.extra.setdefault("outside_quantifier_observations", [])
        if len(ctx.extra["outside_quantifier_observations"]) < 20:
            ctx.extra["outside_quantifier_observations"].append(dict(key=key, what=what))


def _flat(L):
    return isinstance(L, (list, tuple)) and all(isinstance(z, str) for z in L)


def _model_ok(ctx):
    return bool((ctx.proof or {}).get("model_ok")) and not (ctx.proof or {}).get("extract", {}).get("errors", {}).get("Rewrite")


def _judge(ctx, acc):
    """oracle + Lean checker over every collected pair"""
    have_model = _model_ok(ctx)
    if not have_model:
        ctx.disagree("lean:model-unavailable", "the executable model did not build from the current source (see lean log); "
                                               "pairs are judged by the numeric oracle only")
    ops, idx = [], []
    for i, (n, name, b, labels, L, inq, inb) in enumerate(p[:7] for p in acc.pairs):
        if _flat(L) and L and all(("," not in z and " " not in z and z != "") for z in L):
            ops.append("rwcert %s %s %s %s" % (_csv(b[1]), _csv(b[2]), ",".join(labels), ",".join(L)))
            idx.append(i)
    lean = {}
    for c in range(0, len(ops) if have_model else 0, 20000):
        out = common.model(ops[c:c + 20000])
        for i, o in zip(idx[c:c + 20000], out):
            lean[i] = o
    stats = dict(unsound=0, parse_mismatch=0)
    unc_samples = []
    for i, p in enumerate(acc.pairs):
        n, name, b, labels, L, inq, inb = p[:7]
        tk = p[7] if len(p) > 7 else None          # try index of a direct update_tree call (None: emitted by the driver)
        st = acc.per_n.setdefault(n, dict(pairs=0, certified=0, numerically_equal=0, uncertified=0, no_common_finite_point=0, defined_one_side_only=0))
        st["pairs"] += 1
        rp = dict(kind="tree", labels=labels, basis=b, extra=L if _flat(L) else repr(L), tlimit=60)
        tag = "%s->%s@%s" % (",".join(labels), ",".join(L) if _flat(L) else "nonflat", bkey(b))
        if tk is not None:
            rp = dict(kind="ut", labels=labels, basis=b, try_idx=tk, extra=L)
            tag = "update_tree[try_idx=%d]:%s" % (tk, tag)
        ok, why = orc.well_formed(L, b)
        lo = lean.get(i, "bad-b") if have_model else ("skip" if ok else "bad-b")
        if lo == "bad-a":
            ctx.disagree("corr:parse-original", "Lean parser rejects the original %s over %s" % (labels, b))
        if ok != (lo != "bad-b"):
            stats["parse_mismatch"] += 1
            ctx.disagree("corr:wellformed", "oracle says %s, Lean parser says %s for %s over %s" % (ok, lo, L, b))
        if not ok:
            _report(ctx, inq, "malformed:" + tag,
                    "rewritten tree %r of %s over basis %s%s is not a well-formed prefix tree over basis+{x,a_k,integers}: %s" % (
                        L, labels, b, "" if tk is None else " (update_tree at try_idx %d)" % tk, why), rp)
            continue
        names = orc.params(labels) + [p for p in orc.params(L) if p not in labels]
        cmp_ = orc.compare(orc.parse(labels, b), orc.parse(L, b), orc.points(ctx.rng, names))
        if not set(orc.params(L)) <= set(orc.params(labels)):
            pass            # a parameter name not in the original: shows up numerically unless it cancels
        if not cmp_["equal"]:
            w = cmp_["witness"]
            _report(ctx, inq, "neq:" + tag,
                    "rewritten tree %s differs from its original %s over basis %s%s: at %s original=%r rewritten=%r" % (
                        L, labels, b, "" if tk is None else " (update_tree at try_idx %d)" % tk, w["env"], w["a"], w["b"]), rp)
            if lo == "1":
                stats["unsound"] += 1
                ctx.disagree("certEquiv:certified-but-numerically-different", dict(a=labels, b=L, basis=b, witness=w))
            continue
        st["numerically_equal"] += 1
        if cmp_["n_both"] == 0:
            st["no_common_finite_point"] += 1
        if cmp_["n_onlyone"]:
            st["defined_one_side_only"] += 1
        if lo == "1":
            st["certified"] += 1
        elif lo == "skip":
            pass
        else:
            st["uncertified"] += 1
            if inb:
                ctx.disagree("certEquiv:incomplete", dict(a=labels, b=L, basis=b, lean=lo))
            elif len(unc_samples) < 20:
                unc_samples.append(dict(a=labels, b=L, basis=b, n=n))
    return stats, unc_samples


def _malformed_stream(ctx, k):
    """parser correspondence on lists that are mostly NOT well formed: Lean parsePrefix vs the oracle"""
    b = [["x", "a"], ["inv", "exp", "log_abs", "cube"], ["+", "*", "-", "pow"]]
    pool = ["x", "a0", "a1", "a10", "2", "-1", "0", "-0", "01", "a", "a01", "1.5", "inv", "exp", "log_abs", "cube", "square", "sin",
            "+", "*", "-", "/", "pow", "pow_abs", "Abs", "y", "--1", "a-1"]
    if not _model_ok(ctx):
        return 0, 1, 0
    ops, want = [], []
    for _ in range(k):
        n = ctx.rng.choice([1, 1, 2, 3, 3, 4, 5, 6, 7])
        L = [ctx.rng.choice(pool) for _ in range(n)]
        if ctx.rng.random() < 0.5:          # start from a valid tree, then damage it
            trees = sample_trees(ctx.rng, ctx.rng.choice([3, 4, 5, 6]), b, 1)
            if trees:
                L = list(trees[0][1])
                r = ctx.rng.random()
                if r < 0.3:
                    del L[ctx.rng.randrange(len(L))]
                elif r < 0.6:
                    L.insert(ctx.rng.randrange(len(L) + 1), ctx.rng.choice(pool))
                elif r < 0.8:
                    L[ctx.rng.randrange(len(L))] = ctx.rng.choice(pool)
        ok = orc.well_formed(L, b)[0]
        # the oracle admits any basis nullary label; the property's leaves are x, a_k, integers only
        if ok and any(z == "a" for z in L):
            ok = False
        ops.append("rwparse %s %s %s" % (_csv(b[1]), _csv(b[2]), ",".join(L)))
        want.append(ok)
    out = common.model(ops)
    bad = 0
    for o, w, r in zip(ops, want, out):
        if (r != "bad") != w:
            bad += 1
            ctx.disagree("corr:parse", "%s: oracle %s, Lean %s" % (o, w, r))
    ctx.sample(dict(op=ops[0], oracle_wellformed=want[0], lean=out[0]))
    return len(ops), bad, sum(want)


def _random_user_bases(ctx, k):
    known = ["inv", "square", "cube", "sqrt_abs", "exp", "log_abs", "sin", "tenexp", "log10_abs"]
    out = []
    for i in range(k):
        un = ctx.rng.sample(known, ctx.rng.choice([1, 2, 2, 3, 3, 4]))
        if ctx.rng.random() < 0.5 and "cube" not in un:
            un.append("cube")
        b2 = ["+", "*"] + [o for o in ("-", "/", "pow") if ctx.rng.random() < 0.55]
        ctx.rng.shuffle(b2)
        out.append(("u_rnd%d" % i, [["x", "a"], un, b2]))
    return out


def run(ctx):
    drift = extract.drifted(ctx.proof.get("extract", {}), MODELLED)
    deep = (not ctx.quick) or bool(drift)
    ctx.extra["source_drift"] = drift
    from extractors import shape as shx
    shipped = [(n, b) for n, b, _ in shx.bases(ctx.stage)]
    user = USER_FIXED + _random_user_bases(ctx, 6 if deep else 3)
    drv_stats = _driver_scripts(ctx, 4000 if deep else 400)
    cov_on = cov_start()
    rec = UTRec(400000 if deep else 120000)
    rec.install()
    rec2 = sums.USRec(400000 if deep else 120000)
    rec2.install()
    acc = Acc()
    t0 = time.time()
    plan = []
    tlimit = 120 if deep else 30
    if any(f["key"].startswith("driver-nontermination") for f in ctx.failures):
        tlimit = 10                     # the driver is already known not to stop on finite scripts
    try:
        for name, b in shipped:
            top = 6 if (deep or count_trees(6, b) <= 12000) else 5
            for n in range(1, top + 1):
                _explore(ctx, acc, name, b, n, all_trees(n, b), True, n <= 5, tlimit)
            plan.append(dict(basis=name, exhaustive_to=top))
        for name, b in user:
            top = 5
            if count_trees(5, b) > (12000 if deep else 1500):
                top = 4
            if deep and count_trees(6, b) <= 12000:
                top = 6
            for n in range(1, top + 1):
                _explore(ctx, acc, name, b, n, all_trees(n, b), True, n <= 5, tlimit)
            plan.append(dict(basis=name, labels=b, exhaustive_to=top))
        for name, b in EXTENDED:
            top = 5 if deep else 4
            for n in range(1, top + 1):
                _explore(ctx, acc, name, b, n, all_trees(n, b), False, True, tlimit)
            plan.append(dict(basis=name, labels=b, exhaustive_to=top, outside_quantifier=True))
        t_exh = time.time() - t0
        # sampled: above the exhaustive bound
        nsamp = 30000 if deep else 2500
        for n in ((7, 8, 9) if deep else (6, 7)):
            for name, b in shipped + user:
                _explore(ctx, acc, name, b, n, sample_trees(ctx.rng, n, b, max(1, nsamp // len(shipped + user))), True, False, tlimit)
        t_all = time.time() - t0
        site_stats = _sites(ctx, acc, rec, deep, 20 if deep else 10)
        t_sites = time.time() - t0 - t_all
    finally:
        rec2.remove()
        rec.remove()
        if cov_on:
            cov_stop()
    us_stats = _corr_update_sums(ctx, rec2, 30000 if deep else 2500)
    us_stats["deliteralised_search"] = _escalate_sums(ctx, acc, us_stats.pop("_bad_keys", []), tlimit)
    nodup_bad = _real_driver_shape(ctx, acc)
    stats, unc = _judge(ctx, acc)
    nut, badut, utkinds, nodrop = _corr_update_tree(ctx, rec)
    nmal, badmal, nwf = _malformed_stream(ctx, 3000 if deep else 600)

    # evidence
    for p in acc.pairs[:: max(1, len(acc.pairs) // 8)][:8]:
        ctx.sample(dict(n=p[0], basis=p[1], original=p[3], extra=p[4]))
    ctx.extra["per_complexity"] = {str(k): v for k, v in sorted(acc.per_n.items())}
    ctx.extra["certified_fraction"] = {str(k): (round(v["certified"] / v["numerically_equal"], 6) if v["numerically_equal"] else None)
                                       for k, v in sorted(acc.per_n.items())}
    ctx.extra["uncertified_sampled"] = unc
    ctx.extra["trees_run"] = acc.trees
    ctx.extra["trees_skipped_after_five_timeouts"] = acc.skipped
    ctx.extra["extra_trees"] = len(acc.pairs)
    ctx.extra["plan"] = plan
    ctx.extra["real_rewriter_wall_s"] = dict(exhaustive=round(t_exh, 1), with_samples=round(t_all, 1))
    ctx.extra["slowest_trees"] = acc.slow
    ctx.extra["per_tree_time_bound_s"] = tlimit
    ctx.extra["malformed_stream"] = dict(lists=nmal, wellformed=nwf, parser_mismatches=badmal)
    if cov_on:
        anch = anchored_lines(ctx.stage)
        miss = sorted(anch - _COV)
        ctx.extra["anchored_lines"] = dict(total=len(anch), executed=len(anch & _COV), never_executed=miss[:400])
    inb = [p for p in acc.pairs if p[6] and p[5]]
    ctx.extra["site_directed"] = site_stats
    ctx.extra["real_rewriter_wall_s"]["site_directed"] = round(t_sites, 1)
    ctx.extra["corr_obligations"] = 11
    ctx.extra["corr_discharged"] = (int(not any(d["name"] == "certEquiv:incomplete" for d in ctx.disagreements))
                                    + int(stats["parse_mismatch"] == 0 and badmal == 0)
                                    + int(stats["unsound"] == 0) + int(badut == 0) + int(nodrop == 0)
                                    + int(drv_stats["mismatches"] == 0 and drv_stats["scripts"] > 0)
                                    + int(us_stats["real"]["mismatches"] == 0 and us_stats["real"]["compared"] > 0)
                                    + int(us_stats["synthetic"]["mismatches"] == 0 and us_stats["synthetic"]["compared"] > 0)
                                    + int(nodup_bad == 0)
                                    + int(site_stats["table_mismatches"] == 0 and site_stats["candidate_tables_compared"] > 0)
                                    + int(site_stats["misaligned_tables"] == 0 and site_stats["result_mismatches"] == 0 and site_stats["direct_calls"] > 0))
    ctx.extra["driver_model"] = drv_stats
    ctx.extra["update_sums_model"] = us_stats
    ctx.extra["correspondence"] = dict(pairs_in_quick_bound=len(inb), parser_mismatches=stats["parse_mismatch"] + badmal,
                                       certified_but_numerically_different=stats["unsound"],
                                       update_tree_calls_total=rec.total, update_tree_distinct_calls_compared=nut,
                                       update_tree_mismatches=badut, update_tree_result_kinds=utkinds,
                                       rewrites_not_removing_a_pow_label=nodrop)
    ctx.extra["exhaustive"] = False
    _interleave_failures(ctx)


def _interleave_failures(ctx):
    """common.decide prints the first five distinct failures: show one of every kind (numeric mismatch, malformed,
    non-termination, each exception type/site) before repeating a kind"""
    groups, order = {}, []
    for f in ctx.failures:
        parts = f["key"].split(":")
        kind = ":".join(parts[:3]) if parts[0] == "raises" else parts[0]
        if kind not in groups:
            groups[kind] = []
            order.append(kind)
        groups[kind].append(f)
    order.sort(key=lambda k: (0 if k in ("neq", "malformed", "nontermination") else 1, k))
    out = []
    k = 0
    while any(groups.values()):
        g = groups[order[k % len(order)]]
        if g:
            out.append(g.pop(0))
        k += 1
    ctx.failures[:] = out
    ctx.extra["failure_kinds"] = {kk: sum(1 for f in out if (":".join(f["key"].split(":")[:3]) if f["key"].startswith("raises") else f["key"].split(":")[0]) == kk) for kk in order}


def replay(ctx, data):
    import numpy as np
    from esr.generation import generator as g
    rp = data["replay"]
    if rp.get("kind") == "script":
        sc = rp["script"]
        r = drv.run_script(sc)
        print("find_additional_trees over the scripted rewriters of %s" % drv.op_line(sc, len(sc["univ"]) + 3)[:1500])
        print("  real driver: %s" % drv.canon_real(r)[:600])
        bad = drv.judge(sc, r)
        for key, what in bad:
            print("  %s: %s" % (key, what))
        return not bad
    labels, b = rp["labels"], rp["basis"]
    if rp.get("kind") == "ut":
        return _replay_ut(rp)
    try:
        ta = orc.parse(labels, b)
    except orc.Malformed as e:
        print("replay input itself is malformed:", e)
        return True
    shape = [len(t_) - 1 for t_ in _walk(ta)]
    tree = g.check_tree(np.array(shape, dtype=int))[2]
    r = run_real(tree, labels, b, rp.get("tlimit", 60))
    print("find_additional_trees(%s, basis=%s)" % (labels, b))
    if r["timeout"]:
        print("  did not return within the time bound"); return False
    if r["exc"] is not None:
        print("  raises %s in %s: %s" % r["exc"]); return False
    import random
    rng = random.Random(12345)
    good = True
    for L in r["extras"]:
        ok, why = orc.well_formed(L, b)
        if not ok:
            print("  extra %r: MALFORMED (%s)" % (L, why)); good = False; continue
        names = orc.params(labels) + [p for p in orc.params(L) if p not in labels]
        c = orc.compare(ta, orc.parse(L, b), orc.points(rng, names))
        print("  extra %s: %s" % (L, "equal at %d points" % c["n_both"] if c["equal"] else "DIFFERS %s" % (c["witness"],)))
        good = good and c["equal"]
    return good


def _walk(t):
    yield t
    for c in t[1:]:
        for z in _walk(c):
            yield z


def _replay_ut(rp):
    """one direct call of the real update_tree at a given try index; every returned tree judged by the oracle"""
    import numpy as np, random
    from esr.generation import generator as g
    labels, b, k = rp["labels"], rp["basis"], int(rp["try_idx"])
    shape = sites.shape_of(labels, b)
    tree = g.check_tree(np.array(shape, dtype=int))[2]
    capt = Capture(g.update_tree)
    real, cap = capt.call(tree, list(labels), k, b)
    capt.close()
    print("update_tree(%s, try_idx=%d, basis=%s)" % (labels, k, b))
    print("  candidate lists at return: %s" % (canon_tab(cap),))
    print("  result: %s   (recorded at check time: %s)" % (real, rp.get("extra")))
    if real == "err":
        print("  raises"); return False
    ta = orc.parse(labels, b)
    rng = random.Random(12345)
    good = True
    for L in _ut_candidates(real):
        ok, why = orc.well_formed(L, b)
        if not ok:
            print("  returned %r: MALFORMED (%s)" % (L, why)); good = False; continue
        names = orc.params(labels) + [p for p in orc.params(L) if p not in labels]
        c = orc.compare(ta, orc.parse(L, b), orc.points(rng, names))
        print("  returned %s: %s" % (L, "equal at %d points" % c["n_both"] if c["equal"] else "DIFFERS %s" % (c["witness"],)))
        good = good and c["equal"]
    return good
