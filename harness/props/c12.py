"""C12 — printing an expression and reading it back gives the same function; printing is pure."""
import ast, contextlib, io, json, math, os, re, subprocess, sys, time
import common, extract

LEAN_MODULE = ["ESRVerif.Props.C12", "ESRVerif.Props.C12c"]
LEVEL = "proof"
LEVEL_TEXT = ("Lean proof for every expression tree (unbounded depth) over a hand model of ESRPrinter, a Lean model of the "
              "Python expression grammar and the two symbol tables regenerated from source; the real-number laws are proved "
              "for R with Mathlib (Real.rpow, zpow, Real.sqrt/exp/log/sin, abs), so the round trip is a theorem about real "
              "values with no abstract law left, and it is stated on the printed STRING (tokenizer inverse of render proved); "
              "model tied to the code by string-exact correspondence, parser tied to CPython's ast.parse; purity of the printer OBJECT: "
              "decide over the regenerated table of state cells of custom_printer.py + induction over histories of completed and interrupted prints, "
              "tied by a history search with genuine TimeoutExceptions at every statement site")
TECHNIQUE = ("Lean 4 theorems + translator (symbol tables, printer state cells) + correspondence (printer strings, parser ASTs, print histories with "
             "injected time-outs) + numeric round-trip oracle")
RULE = ("[histories: a sample of the expressions driven through print/interrupted-print histories is also counted, keyed history:<srepr>] "
        "one case = one distinct evaluated sympy expression (keyed by its srepr) built under x>0, a0..a2 real from ESR's vocabulary: "
        "all single-operator expressions over a 15-atom alphabet, a deterministic slice of the two-operator ones, and random trees "
        "of depth <= 6 (thorough: all unary-over-single-operator, wider binary slice, more random); non-trivial = contains an "
        "operator and is finite at >= 1 of the generic points")
EXPLANATION = ("Lean: (0) tokenize(render toks) = toks for every token list with well-formed tokens and no fusing neighbours, "
               "and pr e is such a list (phrases are operator-separated), so parseString(print e) = intended e on strings; "
               "the fifteen RealLike laws are instantiated and proved for R (Proofs/PrinterReal.lean), giving "
               "print_roundtrip_{gen,fit}_string_real; (a) pr e is a phrase of the Python grammar reading as `intended e` (induction on e with precedence context), "
               "(b/c) the executable parser is complete for the grammar, hence parse(pr e) = intended e and phrases are unambiguous, "
               "and evaluating `intended e` under the regenerated generation / fitting table gives the value of e when non-integer "
               "power (and, for fitting, log) arguments are non-negative. Tie: ESRPrinter().doprint == model print as strings, "
               "Lean parse == CPython ast.parse on every printed string, tables extracted from source. Oracle: the real string "
               "parsed by initial_sympify's table, generator.string_to_expr and Likelihood.run_sympify, compared numerically with "
               "the original expression. Purity (Props/C12c): the translator lists every state cell of custom_printer.py (instance attributes stored or "
               "mutated in place by any method, also through aliases; class attributes; module globals; mutable defaults; memo decorators; function "
               "attributes) and of sympy's Printer base class; printer_has_no_print_time_state decides that none is written while printing except "
               "_print_level, which Printer._print restores in a finally; print_history_independent: a printer whose state is the content of the "
               "print-time cells returns, after any history of completed and interrupted prints, what a fresh one returns; stale_cache_needed: with a "
               "fill-in-place cache cell a 2-step history prints a truncated sum. Tie: worker c12_history keeps ONE ESRPrinter per shard, prints "
               "expressions with nested sums/products/powers, their sub-/super-expressions and -1/-2 variants, and for every distinct (method, line) of "
               "custom_printer.py reached delivers SIGALRM inside simplifier.time_limit at that line event (real TimeoutException, caught as the "
               "simplifier stage does), then prints again with the same object: every completed print must equal the fresh-state string, which must "
               "equal the Lean print and read back numerically.")
TRUSTED = ["hand model ESRVerif/Model/Printer.lean of ESRPrinter (tied by string-exact correspondence on every generated expression)",
           "Lean tokenizer vs Python's tokenizer: tokenize(render toks) = toks is PROVED (Proofs/PrinterLex.lean: tokenize_render, for tokens whose "
           "names are identifiers, Float texts d+.d*[e[+-]d+], and no two adjacent alphanumeric tokens / '*' before '*'); that this Lean tokenizer "
           "reads strings like CPython does is tied by the ast.parse comparison on every printed string",
           "sympy: automatic evaluation, as_ordered_terms/as_ordered_factors/as_coeff_Mul/_keep_coeff/precedence (serialised as facts, not modelled), sympify's parser = CPython grammar + auto-symbol",
           "numpy/lambdify and mpmath evaluation for the numeric oracle",
           "real-number semantics: the laws of class RealLike (Proofs/PrinterSem.lean) are now PROVED for R in Proofs/PrinterReal.lean "
           "(instance realLike: Real.rpow, zpow, Real.sqrt/exp/log/sin, |.|, total division x/0 = 0; lemmas mul_inv, zpow_neg, Real.rpow_neg (0<=x, "
           "shown necessary by rpow_neg_needs_nonneg), abs_of_nonneg, Real.sqrt_eq_rpow); what stays trusted is that sympy's Pow/Abs/log/sqrt on "
           "admissible arguments denote these Mathlib functions (numeric oracle)"]
ASSUMPTIONS = ["history independence: the printer's state is what the cell table lists (syntactic stores/mutators on self.X, aliases of them, class, module, "
               "default, memo, funcattr cells; setattr/__dict__/vars/globals/exec are refused); state hidden inside sympy objects or reached through an "
               "unknown callee is covered by the history search only; interruptions are delivered at line events of custom_printer.py frames (not inside sympy)",
               "string-level theorems also assume `lexical e`: symbol names are identifiers ([A-Za-z_][A-Za-z0-9_]*) and Float texts have the shape "
               "d+.d*[(e|E)[+-]d+] (what sympy prints); the check only admits such expressions (symbols x, a0..a2; floats matching PLAIN_FLOAT)",
               "theorems assume `canonical e` (sympy's evaluated form: flattened sums, one leading numeric coefficient, integer powers distributed) "
               "and `Adm` (symbols are not table functions; bases of non-integer powers >= 0; for the fitting table also log arguments >= 0); "
               "one shape sympy does produce is outside `canonical`: a product nested in a product with negative coefficient "
               "(Abs(a0**3)**(-3/2) -> (a0**-4*Abs(a0))*Abs(a0)**(-3/2)); it is covered by the string/AST correspondence and the numeric oracle only",
               "expressions are evaluated sympy objects (no evaluate=False products; custom_printer.py:271-318 not modelled)",
               "symbols are real or positive, never integer-valued (so exp.is_integer holds only for Integer literals)",
               "Float coefficients print in plain decimal notation; a bare top-level Float is out of scope",
               "round trip compared at generic real points where the original expression is finite"]
# tables whose committed version may stand in as a hand-written model when the translator cannot read the source;
# value = the correspondence that then ties it to the code (common.prove / common.decide)
FALLBACK = {'SymTab': 'every generated expression printed by the real printer and read back through the real sympify with BOTH real symbol tables (structural and numeric round trip)',
            'PrinterState': 'history correspondence: long-lived ESRPrinter objects (and the module-level sstr) driven through sequences of prints and of prints '
                            'interrupted by a genuine simplifier.TimeoutException at every (method, line) site of custom_printer.py reached; every completed print '
                            'equals the string of a fresh printer in a fresh process state, equals the Lean model print, and reads back numerically under both tables'}
# PrinterState: when a print-time cell appears the translator refuses (ExtractError); the committed table (no such cell) then stands for the
# stateless model and the history search decides: a failing history -> VIOLATION with the history as replay; none -> NOTE, exit 0
MODELLED = ["ESRPrinter.parenthesize", "ESRPrinter.stringify", "ESRPrinter._print_Add", "ESRPrinter._print_Mul", "ESRPrinter._print_Pow",
            "ESRPrinter._print_Function", "ESRPrinter._print_Integer", "ESRPrinter._print_Rational", "ESRPrinter._print_Float",
            "ESRPrinter._print_Symbol"]

PLAIN_FLOAT = re.compile(r"^\d+\.\d*$")
IDENT = re.compile(r"^[A-Za-z_][A-Za-z0-9_]*$")          # `lexical` hypothesis of the string-level theorems (ASCII identifiers)
NPOINTS = 5

# --------------------------------------------------------------------------------------
# everything below runs with the staged ESR on sys.path (imports inside functions)
# --------------------------------------------------------------------------------------

_G = {}


def G():
    """lazily imported real code + symbols (per process)"""
    if _G:
        return _G
    import sympy
    from sympy.core.mul import _keep_coeff
    from esr.generation.custom_printer import ESRPrinter
    import esr.fitting.sympy_symbols as ss
    _G.update(sympy=sympy, keep=_keep_coeff, ESRPrinter=ESRPrinter, ss=ss,
              x=ss.x, a=[ss.a0, ss.a1, ss.a2], S=sympy.S)
    from sympy.printing.str import StrPrinter
    _G["fltp"] = StrPrinter(dict(full_prec=False))
    return _G


def G_tables():
    """the real parsers; heavy imports (astropy...) done once, before forking"""
    g = G()
    if "run_sympify" in g:
        return g
    import esr.generation.simplifier as simplifier
    import esr.generation.generator as generator
    from esr.fitting.likelihood import Likelihood
    with contextlib.redirect_stdout(io.StringIO()):
        # exactly what generation does before it parses anything: adds a0.. (real) to sympy_locs
        simplifier.initial_sympify(["x"], 3, verbose=False, parallel=False)
    g.update(simplifier=simplifier, generator=generator, Likelihood=Likelihood, run_sympify=Likelihood.run_sympify)
    return g


# ---- expression construction ----------------------------------------------------------

def atoms():
    g = G(); sp = g["sympy"]
    R = sp.Rational
    return [g["x"], g["a"][0], g["a"][1], g["a"][2], sp.Integer(1), sp.Integer(2), sp.Integer(3), sp.Integer(-1), sp.Integer(-2),
            R(1, 2), R(-1, 2), R(2, 3), R(-3, 2), sp.Float("2.5"), sp.Float("-1.5")]


UNARY = ["neg", "inv", "square", "cube", "invsq", "sqrt_abs", "Abs", "exp", "log_abs", "sin"]
BINARY = ["add", "sub", "mul", "div", "pow"]


def apply_op(op, *u):
    """ESR's operators as generation builds them (pow/sqrt/log wrap Abs; sympy drops the Abs of a non-negative argument)"""
    sp = G()["sympy"]
    if op == "neg": return -u[0]
    if op == "inv": return 1 / u[0]
    if op == "square": return u[0] ** 2
    if op == "cube": return u[0] ** 3
    if op == "invsq": return u[0] ** (-2)
    if op == "sqrt_abs": return sp.sqrt(sp.Abs(u[0]))
    if op == "Abs": return sp.Abs(u[0])
    if op == "exp": return sp.exp(u[0])
    if op == "log_abs": return sp.log(sp.Abs(u[0]))
    if op == "sin": return sp.sin(u[0])
    if op == "add": return u[0] + u[1]
    if op == "sub": return u[0] - u[1]
    if op == "mul": return u[0] * u[1]
    if op == "div": return u[0] / u[1]
    if op == "pow":
        if u[0].is_Number and u[1].is_Number and abs(u[1]) > 40:
            raise OutOfScope("huge-number")
        return sp.Pow(sp.Abs(u[0]), u[1])
    raise ValueError(op)


def random_tree(rng, depth):
    """(op, children) / atom index; depth = height bound"""
    if depth <= 1 or rng.random() < 0.22:
        return rng.randrange(15)
    if rng.random() < 0.38:
        return (rng.choice(UNARY), random_tree(rng, depth - 1))
    return (rng.choice(BINARY), random_tree(rng, depth - 1), random_tree(rng, depth - 1))


def build(tree, at):
    if isinstance(tree, int):
        return at[tree]
    return apply_op(tree[0], *[build(t, at) for t in tree[1:]])


# ---- scope + serialisation --------------------------------------------------------------

class OutOfScope(Exception):
    pass


def float_mag(f):
    g = G()
    t = g["fltp"].doprint(abs(f))
    if not PLAIN_FLOAT.match(t):
        raise OutOfScope("float-notation")
    return t


def serialise(e, top=True):
    """prefix line for the Lean driver: the tree with the facts the printer asks sympy for
    (Add: as_ordered_terms; Mul: as_coeff_Mul and the ordered factors of the sign-stripped product)."""
    g = G(); sp = g["sympy"]
    if e.is_Integer:
        return ["I", str(int(e.p))]
    if e.is_Rational:
        return ["Q", str(int(e.p)), str(int(e.q))]
    if e.is_Float:
        if top:
            raise OutOfScope("bare-float")
        return ["F", "1" if e < 0 else "0", float_mag(e)]
    if e.is_Symbol:
        if not IDENT.match(e.name):
            raise OutOfScope("symbol-name")
        return ["S", e.name]
    if isinstance(e, (sp.Abs, sp.exp, sp.log, sp.sin)):
        if len(e.args) != 1:
            raise OutOfScope("arity")
        if isinstance(e, sp.log) and e.args[0].is_nonnegative is not True:
            raise OutOfScope("log-arg-not-nonneg")
        return ["f", type(e).__name__] + serialise(e.args[0], False)
    if e.is_Pow:
        b, ex = e.args
        if b.is_zero:
            raise OutOfScope("zero-base")
        if not ex.is_Integer and b.is_nonnegative is not True:
            raise OutOfScope("nonint-pow-base-not-nonneg")
        return ["P"] + serialise(b, False) + serialise(ex, False)
    if e.is_Add:
        ts = e.as_ordered_terms(order=None)
        out = ["A", str(len(ts))]
        for t in ts:
            out += serialise(t, False)
        return out
    if e.is_Mul:
        c, rest = e.as_coeff_Mul()
        e2 = g["keep"](-c, rest) if c < 0 else e
        fs = list(e2.as_ordered_factors())
        if fs and fs[0].is_Number:
            if fs[0] != abs(c):
                raise OutOfScope("mul-coefficient-shape")
            fs = fs[1:]
        elif abs(c) != 1:
            raise OutOfScope("mul-coefficient-shape")
        if any(f.is_Number for f in fs):
            raise OutOfScope("mul-inner-number")
        for f in fs:
            if f.is_Pow and f.base.is_Rational and f.base.p == 1 and f.base.q != 1 and f.exp.as_coeff_Mul()[0] < 0:
                raise OutOfScope("as_base_exp-unit-fraction")
        out = ["M"] + serialise(c, False) + [str(len(fs))]
        for f in fs:
            out += serialise(f, False)
        return out
    raise OutOfScope("vocabulary:" + type(e).__name__)


def enc(e):
    """JSON tree of the exact sympy object (raw args order); `dec` rebuilds it without re-evaluation"""
    sp = G()["sympy"]
    if e.is_Integer:
        return ["I", str(int(e.p))]
    if e.is_Rational:
        return ["Q", str(int(e.p)), str(int(e.q))]
    if e.is_Float:
        return ["F", sp.srepr(e)]
    if e.is_Symbol:
        return ["S", e.name]
    return [type(e).__name__] + [enc(a) for a in e.args]


def dec(t):
    g = G(); sp = g["sympy"]
    k = t[0]
    if k == "I":
        return sp.Integer(int(t[1]))
    if k == "Q":
        return sp.Rational(int(t[1]), int(t[2]))
    if k == "F":
        return sp.sympify(t[1], locals={})
    if k == "S":
        return {"x": g["x"], "a0": g["a"][0], "a1": g["a"][1], "a2": g["a"][2]}[t[1]]
    args = [dec(a) for a in t[1:]]
    if k == "Add":
        return sp.Add._from_args(args)
    if k == "Mul":
        return sp.Mul._from_args(args)
    if k == "Pow":
        return sp.Pow(args[0], args[1], evaluate=False)
    f = {"Abs": sp.Abs, "exp": sp.exp, "log": sp.log, "sin": sp.sin}[k]
    return f(args[0], evaluate=False)


def py_dump(s):
    """canonical dump of CPython's parse of `s` (same format as PyAst.dump of the Lean model)"""
    def d(n):
        if isinstance(n, ast.Name):
            return "(name %s)" % n.id
        if isinstance(n, ast.Constant):
            if isinstance(n.value, bool) or not isinstance(n.value, (int, float)):
                raise ValueError("constant")
            if isinstance(n.value, int):
                return "(int %d)" % n.value
            return "(flt %s)" % ast.get_source_segment(s, n)
        if isinstance(n, ast.UnaryOp):
            return "(%s %s)" % ({ast.USub: "neg", ast.UAdd: "pos"}[type(n.op)], d(n.operand))
        if isinstance(n, ast.BinOp):
            return "(%s %s %s)" % ({ast.Add: "add", ast.Sub: "sub", ast.Mult: "mul", ast.Div: "div", ast.Pow: "pow"}[type(n.op)], d(n.left), d(n.right))
        if isinstance(n, ast.Call) and isinstance(n.func, ast.Name) and not n.keywords and 1 <= len(n.args) <= 2:
            return "(call %s %s)" % (n.func.id, " ".join(d(a) for a in n.args))
        raise ValueError(type(n).__name__)
    try:
        return d(ast.parse(s, mode="eval").body)
    except Exception as ex:
        return "none:%s" % type(ex).__name__


# ---- the property oracle on the real code ---------------------------------------------------

def points(seed):
    import random
    r = random.Random(seed)
    pts = []
    for _ in range(NPOINTS):
        def mag():
            return round(r.uniform(0.35, 2.9), 6) + 0.000137
        pts.append((mag(), mag() * r.choice((-1, 1)), mag() * r.choice((-1, 1)), mag() * r.choice((-1, 1))))
    pts[0] = (pts[0][0], -abs(pts[0][1]), -abs(pts[0][2]), -abs(pts[0][3]))      # all parameters negative
    pts[1] = (pts[1][0], abs(pts[1][1]), abs(pts[1][2]), abs(pts[1][3]))        # all positive
    return pts


def _hp(expr, vs, p):
    """value at point p with 40 digits, or None if not a finite real number"""
    sp = G()["sympy"]
    try:
        v = sp.N(expr.xreplace(dict(zip(vs, [sp.Float(repr(c), 60) for c in p]))), 40)
        if v.is_real is True and v.is_finite is not False and v.is_Number:
            return v
    except Exception:
        pass
    return None


def numeric_equal(orig, parsed, pts):
    """(None, n) if parsed equals orig at every point where orig is a finite real (n = number of such points);
    else (description, n).  Floats first (numpy), high precision (mpmath) to confirm any mismatch."""
    import numpy as np
    g = G(); sp = g["sympy"]
    vs = [g["x"]] + g["a"]
    cols = [np.array([p[i] for p in pts], dtype=float) for i in range(4)]
    o = q = None
    with np.errstate(all="ignore"):
        try:
            fn = sp.lambdify(vs, [orig, parsed], modules="numpy", docstring_limit=0)
            o, q = fn(*cols)
            o = np.broadcast_to(np.asarray(o, dtype=complex), (len(pts),))
            q = np.broadcast_to(np.asarray(q, dtype=complex), (len(pts),))
        except Exception:
            o = q = None
    nfin = 0
    for k, p in enumerate(pts):
        if o is not None:
            ov, qv = complex(o[k]), complex(q[k])
            if not (math.isfinite(ov.real) and math.isfinite(ov.imag)) or abs(ov.imag) > 0:
                continue
            nfin += 1
            if math.isfinite(qv.real) and abs(qv.imag) == 0 and abs(qv.real - ov.real) <= 1e-9 * max(1.0, abs(ov.real)):
                continue
        oe = _hp(orig, vs, p)
        if oe is None:
            if o is not None:
                nfin -= 1
            continue
        if o is None:
            nfin += 1
        qe = _hp(parsed, vs, p)
        if qe is None or abs(oe - qe) > sp.Float("1e-9") * max(1, abs(oe)):
            return ("at x=%r a0=%r a1=%r a2=%r: original=%s parsed=%s" % (p[0], p[1], p[2], p[3], sp.N(oe, 15), "not a finite real" if qe is None else sp.N(qe, 15))), nfin
    return None, nfin


def oracle(e, s, pts, do_s2e):
    """round trip of the real printed string through the real parsers. -> (failures [(table, what)], n_finite, stats)"""
    g = G_tables(); sp = g["sympy"]
    fails, nfin_min, structural = [], None, 0
    parsers = [("generation:sympify(sympy_locs)", lambda: sp.sympify(s, locals=g["ss"].sympy_locs)),
               ("fitting:Likelihood.run_sympify", lambda: g["run_sympify"](None, s)[1])]
    if do_s2e:
        parsers.append(("generation:generator.string_to_expr", lambda: g["generator"].string_to_expr(s)))
    for name, fn in parsers:
        try:
            with contextlib.redirect_stdout(io.StringIO()):
                q = fn()
        except Exception as ex:
            fails.append((name, "printed string %r does not parse: %s: %s" % (s, type(ex).__name__, str(ex)[:100])))
            continue
        if q == e:
            structural += 1
            continue
        why, nfin = numeric_equal(e, q, pts)
        nfin_min = nfin if nfin_min is None else min(nfin_min, nfin)
        if why is not None:
            fails.append((name, "printed %r reads back as %s, which differs %s" % (s, q, why)))
    if nfin_min is None:       # every parse was structurally identical; still say whether e has finite points
        _, nfin_min = numeric_equal(e, e, pts)
    return fails, nfin_min, structural


# ---- one worker task ------------------------------------------------------------------------

class _Timeout(BaseException):
    pass


def _alarm(signum, frame):
    raise _Timeout()


def process(item):
    """item with a per-expression time limit (sympy can take very long on a few huge constants)"""
    import signal
    old = signal.signal(signal.SIGALRM, _alarm)
    signal.setitimer(signal.ITIMER_REAL, 5.0)
    try:
        return process_inner(item)
    except _Timeout:
        return dict(kind=item[0], status="skip", why="time-limit-5s")
    finally:
        signal.setitimer(signal.ITIMER_REAL, 0)
        signal.signal(signal.SIGALRM, old)


def process_inner(item):
    """item = (kind, payload, pts_seed, do_s2e) -> result dict (picklable)"""
    g = G(); sp = g["sympy"]
    kind, payload, pts_seed, do_s2e = item
    res = dict(kind=kind, status="ok")
    try:
        if kind == "tree":
            e = sp.sympify(build(payload, atoms()))
        else:
            e = dec(payload)
            res["quirk"] = (kind == "quirk")
        if e.has(sp.zoo, sp.nan, sp.oo, -sp.oo, sp.I):
            raise OutOfScope("non-finite")
        if any(n.is_Rational and (abs(n.p) > 10**12 or n.q > 10**12) for n in e.atoms(sp.Number)):
            raise OutOfScope("huge-number")
        line = serialise(e)
    except OutOfScope as ex:
        res.update(status="skip", why=str(ex).split(":")[0])
        return res
    except (ZeroDivisionError, ValueError, TypeError, OverflowError, RecursionError, MemoryError) as ex:
        res.update(status="skip", why="build-" + type(ex).__name__)
        return res
    res["srepr"] = sp.srepr(e)
    res["enc"] = enc(e)
    if dec(res["enc"]) != e or sp.srepr(dec(res["enc"])) != res["srepr"]:
        res["enc"] = None                            # cannot be rebuilt identically: no fresh-process check / srepr replay
    res["line"] = " ".join(line)
    res["atom"] = not e.args
    from sympy.printing.precedence import precedence as _prec
    res["facts"] = "%d %s" % (_prec(e), "true" if bool(e.as_coeff_Mul()[0] < 0) else "false")
    p = g["ESRPrinter"]()
    buf = io.StringIO()
    try:
        with contextlib.redirect_stdout(buf):
            s = p.doprint(e)
            s2 = p.doprint(e)                       # same printer object again
            s3 = g["ESRPrinter"]().doprint(e)       # fresh printer object
    except Exception as ex:
        res.update(status="print-raises", what="%s: %s" % (type(ex).__name__, str(ex)[:120]))
        return res
    res["s"] = s
    res["stdout"] = buf.getvalue()[:80]
    res["pure"] = (s == s2 == s3) and isinstance(s, str)
    res["pydump"] = py_dump(s)
    if kind == "quirk":          # unevaluated shapes: model-vs-code only (not "the kind ESR produces")
        res.update(fails=[], nfin=0, structural=0)
        return res
    fails, nfin, structural = oracle(e, s, points(pts_seed), do_s2e)
    res["fails"] = fails
    res["nfin"] = nfin
    res["structural"] = structural
    return res


def quirk_cases():
    """hand-built *unevaluated* trees that drive the printer (and the model) through branches evaluated sympy never
    reaches: pow_paren (357-361, 376-378), a product spliced into a negative product, a sum nested in a sum.
    Compared as strings / ASTs only."""
    X, A0, A1, A2 = ["S", "x"], ["S", "a0"], ["S", "a1"], ["S", "a2"]
    m1 = ["I", "-1"]
    return [
        ["Mul", A0, ["Pow", ["Mul", A1, X], m1]],
        ["Mul", A0, ["Pow", ["Pow", X, A1], m1]],
        ["Mul", A0, ["Pow", ["Pow", X, A1], m1], ["Pow", ["Pow", X, A1], m1]],
        ["Mul", A0, ["Pow", ["Pow", X, A1], ["I", "2"]], ["Pow", ["Pow", X, A1], m1]],
        ["Mul", m1, ["Mul", ["Pow", A2, ["I", "-4"]], ["Abs", A2]], ["Pow", ["Abs", A2], ["Q", "-3", "2"]]],
        ["Mul", m1, A0, ["Mul", A1, ["Pow", X, m1]], ["exp", A2]],
        ["Mul", ["Q", "-2", "3"], ["Pow", ["Mul", A0, X], m1], ["Pow", ["Add", X, ["I", "1"]], m1]],
        ["Add", ["Add", X, A0], A1],
        ["Add", A1, ["Add", ["Mul", m1, X], A0]],
        ["Add", A1, ["Add", ["Mul", m1, X], ["Mul", m1, A0]]],      # real printer: 'a1 - (a0 - x)' (sign lost inside; unevaluated only)
        ["Mul", A0, ["Pow", ["Mul", ["Abs", A1], X], ["Mul", m1, A2]]],
        ["Pow", ["Pow", X, A0], ["I", "2"]],
        ["Pow", ["Mul", m1, X], ["I", "2"]],
        ["Pow", X, ["Pow", A0, ["I", "2"]]],
        ["Abs", ["Abs", A0]],
        ["Mul", ["Pow", ["Mul", A0, A1], m1]],
    ]


def _pool_init():
    G_tables()


# ---- enumeration ------------------------------------------------------------------------------

def enumerate_trees(ctx, deep):
    """deterministic part: all single-operator trees, plus a slice of the two-operator ones"""
    A = list(range(15))
    d1 = [(u, a) for u in UNARY for a in A] + [(b, a1, a2) for b in BINARY for a1 in A for a2 in A]
    trees = list(A) + d1
    # unary over every single-operator tree (quick: every 3rd, offset by seed)
    step = 1 if deep else 3
    off = ctx.seed % step
    d2u = [(u, t) for u in UNARY for t in d1]
    trees += d2u[off::step]
    # binary with one single-operator side and one atom side
    small = [0, 1, 5, 10, 13] if not deep else A           # x, a0, 2, -1/2, 2.5
    d2b = [(b, t, a) for b in BINARY for t in d1 for a in small] + [(b, a, t) for b in BINARY for t in d1 for a in small]
    stepb = 1 if deep else 12
    trees += d2b[(ctx.seed % stepb)::stepb]
    if deep:
        bin1 = [t for t in d1 if len(t) == 3]
        d2bb = [(b, t1, t2) for b in BINARY for t1 in bin1[::7] for t2 in bin1[3::11]]
        trees += d2bb
    return trees


def run(ctx):
    import multiprocessing as mp
    drift = extract.drifted(ctx.proof.get("extract", {}), MODELLED)
    deep = (not ctx.quick) or bool(drift)
    ctx.extra["source_drift"] = drift
    t0 = time.time()
    G_tables()
    trees = enumerate_trees(ctx, deep)
    n_enum = len(trees)
    n_rand = 200000 if deep else 20000
    for _ in range(n_rand):
        trees.append(random_tree(ctx.rng, ctx.rng.choice((3, 4, 4, 5, 5, 6))))
    pts_seed = ctx.rng.randrange(1 << 30)
    items = [("tree", t, pts_seed, (k % 5 == 0)) for k, t in enumerate(trees)]
    items += [("quirk", q, pts_seed, False) for q in quirk_cases()]
    hist = start_history(ctx, deep, pts_seed)
    nproc = min(16, os.cpu_count() or 4)
    with mp.get_context("fork").Pool(nproc, initializer=_pool_init) as pool:
        results = pool.map(process, items, chunksize=64)
    t_py = time.time() - t0

    skips, seen, todo = {}, set(), []
    for k, r in enumerate(results):
        if r["status"] == "skip":
            skips[r["why"]] = skips.get(r["why"], 0) + 1
            continue
        if r["status"] == "print-raises":
            ctx.fail("print-raises:%s" % r.get("srepr", "?")[:200], "ESRPrinter raised %s on %s" % (r["what"], r.get("srepr")),
                     dict(kind="expr", srepr=r.get("srepr"), tree=r.get("enc")))
            continue
        if r["srepr"] in seen:
            continue
        seen.add(r["srepr"])
        r["enum"] = k < n_enum
        todo.append(r)

    # ---- model side
    lines = ["c12 " + r["line"] for r in todo]
    t1 = time.time()
    out = common.model(lines) if lines else []
    t_model = time.time() - t1
    bad = dict(print=0, tok=0, parse=0, intended=0, pure=0, stdout=0, facts=0)
    feats = {}
    n_struct = n_num = n_nofinite = n_noncanon = n_quirk = 0
    noncanon_samples = []
    for r, o in zip(todo, out):
        f = o.split("\t")
        s = r["s"]
        if len(f) != 7:
            bad["print"] += 1
            ctx.disagree("corr:print", "model could not read %s -> %r" % (r["line"], o))
            continue
        ms, tok_ok, mdump, same, mprec, mcn, canon = f
        if canon != "true":
            n_noncanon += 1
            if len(noncanon_samples) < 3:
                noncanon_samples.append(s)
        if ms != s:
            bad["print"] += 1
            if bad["print"] <= 5:
                ctx.disagree("corr:print", "%s: code=%r model=%r" % (r["srepr"], s, ms))
        if "%s %s" % (mprec, mcn) != r["facts"]:
            bad["facts"] += 1
            if bad["facts"] <= 3:
                ctx.disagree("corr:facts", "%s: sympy precedence/as_coeff_Mul<0 = %s, model = %s %s" % (r["srepr"], r["facts"], mprec, mcn))
        if tok_ok != "true":
            bad["tok"] += 1
            if bad["tok"] <= 3:
                ctx.disagree("corr:tokenize", "tokenize(render(pr e)) != pr e for %r" % ms)
        # (ii) Lean parser vs CPython on the REAL string
        if ms == s and mdump != r["pydump"]:
            bad["parse"] += 1
            if bad["parse"] <= 5:
                ctx.disagree("corr:parse", "%r: ast.parse=%s lean=%s" % (s, r["pydump"], mdump))
        if same != "true" and canon == "true":
            bad["intended"] += 1
            if bad["intended"] <= 3:
                ctx.disagree("corr:parse_print", "model: parse(print e) != intended e for %r" % ms)
        # (iii) purity
        if not r["pure"]:
            bad["pure"] += 1
            ctx.fail("impure:%s" % r["srepr"][:200], "the same expression printed to different strings in one process: %s" % r["srepr"],
                     dict(kind="expr", srepr=r["srepr"], tree=r["enc"]))
        if r["stdout"]:
            bad["stdout"] += 1
            if bad["stdout"] <= 2:
                ctx.disagree("corr:side-effect", "printing %s wrote to stdout: %r" % (r["srepr"][:120], r["stdout"]))
        # property oracle
        for table, what in r["fails"]:
            ctx.fail("roundtrip:%s:%s" % (table.split(":")[0], s), "[%s] %s (expression %s)" % (table, what, r["srepr"]),
                     dict(kind="expr", srepr=r["srepr"], tree=r["enc"], printed=s, table=table))
        n_struct += r["structural"]
        if r["nfin"] == 0:
            n_nofinite += 1
        if r.get("quirk"):
            n_quirk += 1
            ctx.case(None, nontrivial=False)
            continue
        ctx.case(r["srepr"], nontrivial=(not r["atom"]) and r["nfin"] > 0)
        for name, pat in FEATURES:
            if pat.search(s):
                feats[name] = feats.get(name, 0) + 1
        if len(ctx.samples) < 8 and not r["atom"] and (len(todo) < 50 or hash(s) % 997 == 0):
            ctx.sample(dict(expr=r["srepr"][:300], printed=s, ast=r["pydump"][:300], finite_points=r["nfin"]))

    # ---- (iii) purity across processes: a fresh interpreter with another hash seed prints the same strings
    sample = [r for r in todo if not r["atom"] and r["enc"] is not None][:: max(1, len(todo) // (1500 if deep else 400))]
    fresh_bad = fresh_process_check(ctx, sample)

    # ---- (iv) purity under HISTORIES: one long-lived printer, prints and interrupted prints (worker c12_history)
    hist_ok = finish_history(ctx, hist)

    # ---- anchored-line coverage on a sample, in-process
    cov = line_coverage(ctx, [r["enc"] for r in todo[:: max(1, len(todo) // 600)] if r["enc"] is not None] + quirk_cases())

    ctx.extra["corr_obligations"] = 7
    ctx.extra["corr_discharged"] = int(bad["print"] == 0) + int(bad["tok"] == 0) + int(bad["parse"] == 0) + int(bad["intended"] == 0) + int(bad["facts"] == 0) + \
        int(bad["pure"] == 0 and fresh_bad == 0 and bad["stdout"] == 0) + int(hist_ok)
    ctx.extra["correspondence"] = dict(expressions=len(todo), enumerated_trees=n_enum, random_trees=n_rand, mismatch=bad,
                                       fresh_process_sample=len(sample), fresh_process_mismatch=fresh_bad)
    ctx.extra["input_distribution"] = dict(skipped_out_of_scope=skips, duplicates=len(results) - len(todo) - sum(skips.values()),
                                           no_finite_point=n_nofinite, unevaluated_quirk_cases=n_quirk, outside_Canonical_hypothesis=n_noncanon,
                                           outside_Canonical_samples=noncanon_samples, parses_structurally_identical=n_struct,
                                           printed_length_max=max([len(r["s"]) for r in todo] or [0]),
                                           printer_shapes=feats)
    ctx.extra["anchored_line_coverage"] = cov
    ctx.extra["exhaustive"] = False
    ctx.extra["bounds"] = dict(tree_height_random=6, atoms=15, points=NPOINTS, deep=deep)
    ctx.extra["timing_s"] = dict(python=round(t_py, 1), model=round(t_model, 1))


# ---- purity under histories ----------------------------------------------------------------------

HIST_WORKER = os.path.join(os.path.dirname(os.path.dirname(os.path.abspath(__file__))), "workers", "c12_history.py")


def history_bases(ctx, n):
    """base expressions for the history search: sums / products / powers nested a few levels (drawn from ctx.rng), plus
    expanded products like the ones the simplifier's expand step prints"""
    g = G(); sp = g["sympy"]
    x, a = g["x"], g["a"]
    fixed = []
    big = sp.expand((a[0] + x) * (a[1] + x ** 2))
    for f in (lambda: big, lambda: big ** 2, lambda: x / big, lambda: sp.sin(big), lambda: sp.expand((x + a[0]) ** 3),
              lambda: sp.expand((a[0] * x - a[1]) * (x ** 2 - a[2] / x)), lambda: sp.exp(1 / x - 1) + 1 / x ** 2,
              lambda: sp.sqrt(x) * a[0] - 1 / (a[1] + x), lambda: sp.Abs(x) ** (a[0] - 1) + x ** (-2) - a[1] * (x + a[2]) ** 2,
              lambda: sp.log(x) / (a[0] + x) ** 2 - sp.Rational(2, 3) * x * (a[1] - x) ** (-3)):
        try:
            fixed.append(sp.sympify(f()))
        except Exception:
            pass
    out, seen = [], set()
    at = atoms()

    def admit(e):
        try:
            if e.has(sp.zoo, sp.nan, sp.oo, -sp.oo, sp.I) or not e.has(sp.Add) or not (e.has(sp.Mul) or e.has(sp.Pow)):
                return
            if not (4 <= e.count_ops() <= 40):
                return
            if any(n_.is_Rational and (abs(n_.p) > 10**6 or n_.q > 10**6) for n_ in e.atoms(sp.Number)):
                return
            serialise(e)
            t = enc(e)
            k = sp.srepr(e)
            if k in seen or dec(t) != e or sp.srepr(dec(t)) != k:
                return
            seen.add(k)
            out.append(t)
        except (OutOfScope, ZeroDivisionError, ValueError, TypeError, OverflowError, RecursionError):
            return
    for e in fixed:
        admit(e)
    tries = 0
    while len(out) < n and tries < 40 * n:
        tries += 1
        try:
            e = sp.sympify(build(random_tree(ctx.rng, ctx.rng.choice((4, 4, 5, 5, 6))), at))
        except Exception:
            continue
        admit(e)
    return out


def start_history(ctx, deep, pts_seed):
    try:
        nsh = 12 if deep else 8
        bases = history_bases(ctx, 480 if deep else 96)
        procs = []
        for k in range(nsh):
            inp = os.path.join(ctx.tmp, "hist_in_%d.json" % k)
            outp = os.path.join(ctx.tmp, "hist_out_%d.json" % k)
            json.dump(dict(mode="hist", seed=ctx.rng.randrange(1 << 30), bases=bases[k::nsh], deep=bool(deep), pts_seed=pts_seed,
                           budget_s=900 if deep else 120), open(inp, "w"))
            p = subprocess.Popen([common.PY, HIST_WORKER, inp, outp], env=ctx.env(), cwd=ctx.tmp, stdout=subprocess.PIPE, stderr=subprocess.PIPE, text=True)
            procs.append((p, outp))
        return dict(procs=procs, nbases=len(bases))
    except Exception as ex:
        return dict(error="%s: %s" % (type(ex).__name__, ex), procs=[])


def _describe_ops(ops, srepr, strings=None):
    out = []
    for k, op in enumerate(ops):
        if op[0] == "new":
            d = "P = ESRPrinter()"
        elif op[0] == "p":
            d = "P.doprint(%s)" % srepr[op[1]]
        elif op[0] == "s":
            d = "sstr(%s)" % srepr[op[1]]
        else:
            d = "%s(%s) INTERRUPTED by simplifier.TimeoutException at line event %d = %s:%s" % ("P.doprint" if op[0] == "i" else "sstr", srepr[op[1]], op[2], op[3], op[4])
        if strings is not None and strings[k] is not None:
            d += "  ->  %r" % strings[k]
        out.append(d)
    return out


def finish_history(ctx, hist):
    """collect the shards; -> True iff the history correspondence is clean"""
    ok = True
    if hist.get("error"):
        ctx.disagree("corr:print-history", "history search could not start: %s" % hist["error"])
        return False
    tot = dict(bases=hist["nbases"], bases_done=0, expressions=0, interruptions=0, timeouts=0, completed_under_interruption=0, completed_prints_compared=0,
               oracle_roundtrips=0, failing_histories=0, shards=len(hist["procs"]), stopped_on_budget=0)
    sites = set()
    lines, refs, wall = [], [], 0.0
    for p, outp in hist["procs"]:
        try:
            so, se = p.communicate(timeout=3000)
        except subprocess.TimeoutExpired:
            p.kill()
            ctx.disagree("corr:print-history", "history worker timed out")
            ok = False
            continue
        if p.returncode != 0 or not os.path.exists(outp):
            ctx.disagree("corr:print-history", "history worker failed: %s" % (se or "")[-400:])
            ok = False
            continue
        r = json.load(open(outp))
        wall = max(wall, r["wall_s"])
        for k_ in ("bases_done", "interruptions", "timeouts", "completed_under_interruption", "oracle_roundtrips"):
            tot[k_] += r[k_]
        tot["expressions"] += len(r["exprs"])
        tot["completed_prints_compared"] += r["checks"] + r["completed_under_interruption"]
        tot["stopped_on_budget"] += int(bool(r["stopped_on_budget"]))
        sites.update(r["sites"])
        lines += r["lines"]; refs += list(zip(r["srepr"], r["ref"]))
        for f in r["ref_fail"]:
            i = f["i"]
            if f.get("table"):
                ctx.fail("roundtrip:%s:%s" % (f["table"].split(":")[0], r["ref"][i]), "%s (expression %s)" % (f["what"], r["srepr"][i]),
                         dict(kind="expr", srepr=r["srepr"][i], tree=r["exprs"][i], printed=r["ref"][i], table=f["table"]))
            else:
                ok = False
                ctx.fail("impure:%s" % r["srepr"][i][:200], "%s: %s" % (r["srepr"][i], f["what"]), dict(kind="expr", srepr=r["srepr"][i], tree=r["exprs"][i]))
        for f in r["failures"]:
            ok = False
            tot["failing_histories"] += 1
            used = sorted(set(op[1] for op in f["ops"] if op[0] != "new"))
            remap = {i: k for k, i in enumerate(used)}
            ops = [[op[0]] if op[0] == "new" else [op[0], remap[op[1]]] + list(op[2:]) for op in f["ops"]]
            sre = [r["srepr"][i] for i in used]
            site = f.get("last_interrupt")
            what = ("history-dependent print: after %d operations on one long-lived ESRPrinter (last interruption: TimeoutException at %s) "
                    "the expression %s printed as %r, a fresh printer gives %r%s" % (
                        len(ops) - 1, ("%s:%s, line event %d of printing %s" % (site[3], site[4], site[2], r["srepr"][site[1]])) if site else "none",
                        r["srepr"][f["expr"]], f["got"], f["want"], "" if f.get("reproduced") else " (not reproduced by a shorter history)"))
            if len(ops) <= 12:
                what += "; history: " + " ; ".join(_describe_ops(ops, sre))
            ctx.fail("history:%s" % r["srepr"][f["expr"]][:200], what,
                     dict(kind="history", exprs=[r["exprs"][i] for i in used], srepr=sre, ops=ops, got=f["got"], fresh=f["want"],
                          site=dict(method=site[3], line=site[4], line_event=site[2], while_printing=r["srepr"][site[1]]) if site else None))
    # the Lean model prints the same strings (so a history-dependent string is also a model/code disagreement)
    nbad = 0
    if lines:
        out = common.model(["c12 " + ln for ln in lines])
        for (sre, ref), o in zip(refs, out):
            ms = o.split("\t")[0]
            if ms != ref:
                nbad += 1
                if nbad <= 3:
                    ctx.disagree("corr:print-history", "%s: fresh printer %r, Lean model %r" % (sre[:200], ref, ms))
    if tot["failing_histories"]:
        ctx.disagree("corr:print-history", "%d histories end in a print that differs from the fresh printer's string and from the Lean model's print" % tot["failing_histories"])
    if tot["interruptions"] == 0 or tot["timeouts"] == 0:
        ok = False
        ctx.disagree("corr:print-history", "no interrupted print was exercised (%r)" % tot)
    tot["model_mismatch"] = nbad
    tot["distinct_sites_interrupted"] = len(sites)
    tot["sites_by_method"] = {}
    for s_ in sites:
        m_ = s_.split(":")[0]
        tot["sites_by_method"][m_] = tot["sites_by_method"].get(m_, 0) + 1
    tot["wall_s_max_shard"] = wall
    ctx.extra["history_search"] = tot
    for sre, ref in refs[:: max(1, len(refs) // 40)]:
        ctx.case("history:" + sre, nontrivial=True)
    return ok and nbad == 0


FEATURES = [(n, re.compile(p)) for n, p in [
    ("sqrt(", r"(?<![/\w])sqrt\("), ("1/sqrt(", r"1/sqrt\("), ("reciprocal 1/", r"(?<![\w.])1/(?!sqrt)"), ("**", r"\*\*"), ("**(-n)", r"\*\*\(-"),
    ("pow(", r"pow\("), ("negative product", r"(^|[(,] ?)-[\w(]"), ("binary minus", r" - "), ("/( group", r"/\("),
    ("single denominator", r"/[\w]"), ("rational p/q", r"\d/\d"), ("float", r"\d\.\d"), ("Abs", r"Abs\("), ("log", r"log\("),
    ("exp", r"exp\("), ("sin", r"sin\("), ("paren factor", r"\*\("), ]]


def fresh_process_check(ctx, sample):
    if not sample:
        return 0
    inp = os.path.join(ctx.tmp, "fresh_in.json")
    json.dump([r["enc"] for r in sample], open(inp, "w"))
    code = ("import sys, json, io, contextlib\n"
            "import props.c12 as c\n"
            "from esr.generation.custom_printer import ESRPrinter\n"
            "out=[]\n"
            "for t in json.load(open(sys.argv[1])):\n"
            "    e = c.dec(t)\n"
            "    with contextlib.redirect_stdout(io.StringIO()):\n"
            "        out.append(ESRPrinter().doprint(e))\n"
            "json.dump(out, sys.stdout)\n")
    p = subprocess.run([common.PY, "-c", code, inp], env=ctx.env({"PYTHONHASHSEED": str(1 + ctx.seed % 1000)}),
                       capture_output=True, text=True, cwd=ctx.tmp)
    if p.returncode != 0:
        ctx.disagree("corr:fresh-process", "fresh interpreter failed: %s" % p.stderr[-300:])
        return 1
    got = json.loads(p.stdout)
    bad = 0
    for r, s in zip(sample, got):
        if s != r["s"]:
            bad += 1
            ctx.fail("impure-fresh:%s" % r["srepr"][:200], "fresh process (other PYTHONHASHSEED) printed %r, this process %r" % (s, r["s"]),
                     dict(kind="expr", srepr=r["srepr"], tree=r["enc"], printed=r["s"], fresh=True))
    return bad


def line_coverage(ctx, encs):
    """which anchored lines of custom_printer.py ran while printing a sample (in-process, sys.settrace)"""
    g = G(); sp = g["sympy"]
    import esr.generation.custom_printer as cp
    fname = cp.__file__
    hit = set()

    def tracer(frame, event, arg):
        if frame.f_code.co_filename != fname:
            return None
        def local(fr, ev, a):
            if ev == "line":
                hit.add(fr.f_lineno)
            return local
        return local
    exprs = [dec(t) for t in encs]
    old = sys.gettrace()
    sys.settrace(tracer)
    try:
        with contextlib.redirect_stdout(io.StringIO()):
            for e in exprs:
                g["ESRPrinter"]().doprint(e)
    finally:
        sys.settrace(old)
    src = open(fname).read()
    tree = ast.parse(src)
    report = {}
    for fn in ("parenthesize", "_print_Add", "_print_Mul", "_print_Pow", "_print_Function", "_print_Rational", "_print_Integer", "_print_Float", "_print_Symbol"):
        try:
            node = extract.find_def(tree, fn, "ESRPrinter")
        except Exception:
            report[fn] = "missing"
            continue
        lines = set()
        for n in ast.walk(node):
            if isinstance(n, ast.stmt) and not isinstance(n, (ast.FunctionDef,)) and not (isinstance(n, ast.Expr) and isinstance(getattr(n, "value", None), ast.Constant)):
                lines.add(n.lineno)
        lines.discard(node.lineno)
        never = sorted(lines - hit)
        report[fn] = dict(statements=len(lines), executed=len(lines & hit), never_executed_lines=never)
    return report


def replay_history(ctx, rp):
    inp = os.path.join(ctx.tmp, "hist_replay_in.json")
    outp = os.path.join(ctx.tmp, "hist_replay_out.json")
    json.dump(dict(mode="replay", ops=rp["ops"], exprs=rp["exprs"]), open(inp, "w"))
    p = subprocess.run([common.PY, HIST_WORKER, inp, outp], env=ctx.env(), cwd=ctx.tmp, capture_output=True, text=True)
    if p.returncode != 0:
        print("history replay worker failed:", p.stderr[-400:])
        return False
    r = json.load(open(outp))
    for d in _describe_ops(rp["ops"], rp["srepr"], r["strings"]):
        print("  " + d)
    print("last print :", repr(r["last"]))
    print("fresh print:", repr(r["fresh"]))
    ok = r["last"] == r["fresh"]
    g = G_tables()
    e = dec(rp["exprs"][rp["ops"][-1][1]])
    if r["last"] is not None:
        fails, _, _ = oracle(e, r["last"], points(1), True)
        for table, what in fails:
            print("FAILS [%s] %s" % (table, what))
            ok = False
    return ok


def replay(ctx, data):
    rp = data["replay"]
    if rp.get("kind") == "history":
        return replay_history(ctx, rp)
    g = G_tables(); sp = g["sympy"]
    e = dec(rp["tree"]) if rp.get("tree") else sp.sympify(rp["srepr"], locals={})
    with contextlib.redirect_stdout(io.StringIO()):
        s = g["ESRPrinter"]().doprint(e)
        s2 = g["ESRPrinter"]().doprint(e)
    print("expression:", e)
    print("printed   :", repr(s))
    ok = (s == s2)
    if rp.get("fresh"):
        c2 = common.Ctx("C12", "quick", ctx.seed); c2.tmp = ctx.tmp; c2.stage = ctx.stage
        ok = ok and fresh_process_check(c2, [dict(srepr=rp["srepr"], enc=enc(e), s=s)]) == 0
    for seed in (1, 2, 3):
        fails, nfin, _ = oracle(e, s, points(seed), True)
        for table, what in fails:
            print("FAILS [%s] %s" % (table, what))
            ok = False
    return ok
