"""C13 — the number of MPI ranks changes neither what is enumerated nor its soundness."""
import filecmp, os
import shutil
import common, extract, libgen, oracle_lib, mpirun, synthlib

LEAN_MODULE = "ESRVerif.Props.C13"
LEVEL = "proof"
LEVEL_TEXT = ("Lean theorems over an execution model of ESR's MPI use: a program whose ranks run the same action list and communicate only through "
              "collectives has one result under every interleaving of rank progress and never deadlocks (unbounded ranks, program length, schedules); "
              "splitting into split_idx blocks, per-item work and rank-ordered gathering is independent of the rank count incl. P > N. That the generation "
              "code has this shape is re-derived from the source on every run (collective skeleton with rank-taint analysis, every split_idx use site "
              "handling the empty block; decided in Lean over the regenerated table), and real generation runs under a multi-process MPI stand-in for "
              "several rank counts incl. more ranks than functions, with randomised release order, are compared byte for byte and checked with the C03 oracle.")
TECHNIQUE = "Lean 4 proof of SPMD determinism/deadlock-freedom + block data-flow lemmas; skeleton regenerated from source; multi-rank differential runs"
RULE = ("one case = one generation run (basis, complexities 1..n, P ranks, release-delay seed) compared with the 1-rank run; non-trivial = P>=2; "
        "distinct by (basis, n, P, delay seed)")
EXPLANATION = LEVEL_TEXT
TRUSTED = ["rank-taint analysis in harness/extractors/spmd.py (flow-sensitive, per function; sound for the constructs it recognises, fails closed otherwise)",
           "per-item computations are functions of the item (sympy caches, hash order: PYTHONHASHSEED fixed) - hypothesis `hpure`, sampled by the differential runs",
           "stand-in collectives pickle payloads like mpi4py lowercase methods; no real MPI progress engine"]
ASSUMPTIONS = ["exceptions other than the empty-block unpacking are not modelled statically; a rank raising between collectives is detected only by the real runs"]
MODELLED = ["simplifier.py:make_changes", "simplifier.py:initial_sympify", "simplifier.py:load_subs", "simplifier.py:check_results",
            "simplifier.py:expand_or_factor", "utils.py:split_idx", "generator.py:shape_to_functions"]

BYTE_FILES = ["trees", "orig_trees", "extra_trees", "all_equations", "aifeyn", "orig_aifeyn", "extra_aifeyn"]


def _one(ctx, runname, nmax, P, delay_seed, ref, basis=None, compls=None):
    """run generation under P ranks; compare with ref (the P=1 library dir). Returns True if everything held."""
    key = "%s:n<=%d:P=%d" % (runname, nmax, P)
    rp = dict(kind="run", runname=runname, nmax=nmax, P=P, delay_seed=delay_seed, basis=basis)
    compls = compls or list(range(1, nmax + 1))
    rp["compls"] = compls
    r = libgen.generate(ctx, runname, compls, P=P, basis=basis,
                        copy="c13_%s_P%d_%s" % (runname, P, delay_seed), delay_seed=delay_seed, timeout=240 if ctx.quick else 900)
    ctx.case((runname, nmax, P, delay_seed), nontrivial=P >= 2)
    if not r["ok"]:
        tail = ""
        for f in r["stdout"]:
            try:
                t = open(f).read()
                if "Traceback" in t:
                    tail = t[t.rindex("Traceback"):][-600:]; break
            except Exception:
                pass
        ctx.fail("generation-incomplete:" + key,
                 "generation of %s (complexities 1..%d) under %d ranks does not terminate on all ranks: %s; exit codes %s; %s" % (
                     runname, nmax, P, r["res"]["error"], r["res"]["exit_codes"], tail.replace("\n", " | ")), rp)
        return None
    ok = True
    if ref is not None:
        for n in compls:
            for name in BYTE_FILES:
                a, b = libgen.libfile(ref, n, name), libgen.libfile(r["dir"], n, name)
                if not (os.path.exists(a) and os.path.exists(b) and filecmp.cmp(a, b, shallow=False)):
                    ctx.fail("bytes-differ:%s:%s_%d" % (key, name, n), "%s_%d.txt written under %d ranks differs from the 1-rank file (%s)" % (name, n, P, runname), rp)
                    ok = False
    for n in compls:
        fails, st = oracle_lib.check_library(r["dir"], n, ctx.rng, npoints=3, max_rows=600 if ctx.quick else 4000)
        for f in fails[:3]:
            ctx.fail("unsound:%s:n=%d:%s" % (key, n, f["kind"]), "library of %s n=%d generated under %d ranks is unsound: %s" % (runname, n, P, f["detail"]), rp)
            ok = False
        ctx.extra.setdefault("oracle_rows", 0)
        ctx.extra["oracle_rows"] += st["checked_numeric"] + st["checked_nan"]
    same_triple = None
    if ref is not None:
        same_triple = all(filecmp.cmp(libgen.libfile(ref, n, nm), libgen.libfile(r["dir"], n, nm), shallow=False)
                          for n in compls for nm in ("unique_equations", "matches", "inv_subs"))
    ctx.sample(dict(run=key, delay_seed=delay_seed, wall_s=round(r["wall_s"], 1), collectives=r["res"]["collectives"], triple_identical_to_P1=same_triple))
    return r["dir"] if ok else None


def _check_results_ranks(ctx, nlibs, Ps):
    """check_results in isolation on hand-built libraries holding deliberately wrong merges: whatever the rank count,
    every function it leaves merged must be sound (the wrong ones must be the ones it un-merges)"""
    for k in range(nlibs):
        base = os.path.join(ctx.tmp, "synth_%d" % k)
        rows = synthlib.build(os.path.join(base, "P0", "compl_3"), 3, ctx.rng, nrows=ctx.rng.choice([17, 23, 26, 31]), nwrong=ctx.rng.choice([2, 3, 5]))
        for P in Ps:
            d = os.path.join(base, "P%d" % P)
            shutil.copytree(os.path.join(base, "P0"), d)
            r = mpirun.run(P, [os.path.join(common.HARNESS, "workers", "check_results.py"), os.path.join(d, "compl_3"), "3"], timeout=300,
                           env_extra=ctx.env(), cwd=ctx.stage, python=common.PY)
            shutil.rmtree(r.get("tmp", ""), ignore_errors=True)
            ctx.case(("check_results", k, P), nontrivial=P >= 2)
            rp = dict(kind="check_results", rows=rows, P=P)
            if not r["ok"]:
                ctx.fail("check_results-incomplete:P=%d" % P, "check_results on a %d-row library under %d ranks does not complete on every rank: %s %s" % (len(rows), P, r["error"], r["exit_codes"]), rp)
                continue
            fails, st = oracle_lib.check_library(d, 3, ctx.rng, npoints=3)
            for f in fails[:2]:
                ctx.fail("check_results-leaves-unsound:P=%d:%s" % (P, f["kind"]),
                         "after check_results under %d ranks a function is still merged with a map that does not reproduce it: %s (library with %d deliberately wrong merges of %d rows)" % (
                             P, f["detail"], sum(1 for x in rows if x["wrong"]), len(rows)), rp)
            ctx.extra.setdefault("check_results_rows", 0)
            ctx.extra["check_results_rows"] += st["checked_numeric"]


def run(ctx):
    drift = extract.drifted(ctx.proof.get("extract", {}), MODELLED)
    deep = (not ctx.quick) or bool(drift)
    ctx.extra["source_drift"] = drift
    if deep:
        plan = [("core_maths", 5, [2, 3, 4, 5, 8, 16]), ("ext_maths", 4, [2, 3, 7, 16]), ("base_e_maths", 4, [3, 5, 11]), ("osc_maths", 3, [16])]
    else:
        # base_e_maths n=4: check_results un-merges functions there, so its index bookkeeping across ranks is exercised
        plan = [("core_maths", 4, [2, 3, 8]), ("base_e_maths", 4, [2, 3, 12])]
    for runname, nmax, Ps in plan:
        compls = list(range(1, nmax + 1)) if (deep or runname == "core_maths") else [nmax - 1, nmax]
        ref = _one(ctx, runname, nmax, 1, None, None, compls=compls)
        if ref is None:
            continue
        for k, P in enumerate(Ps):
            _one(ctx, runname, nmax, P, (ctx.seed * 31 + k) if (deep or k == 1) else None, ref, compls=compls)
    # a user basis through the verification hook, more ranks than functions at low complexity
    b = [["x", "a"], ctx.rng.sample(["inv", "exp", "square", "sqrt_abs", "log_abs", "cube"], 2), ["+", "*"] + ctx.rng.sample(["-", "/", "pow"], 1)]
    ref = _one(ctx, "verif_c13", 3, 1, None, None, basis=b)
    if ref is not None:
        _one(ctx, "verif_c13", 3, ctx.rng.choice([6, 7, 9] if ctx.quick else [9, 13, 16]), ctx.seed, ref, basis=b)
    _check_results_ranks(ctx, 6 if deep else 2, [1, 2, 3, 5, 7] if deep else [1, 3, 5])
    ctx.extra["corr_obligations"] = 1
    ctx.extra["corr_discharged"] = int(not ctx.failures)
    ctx.extra["plan"] = [list(p) for p in plan]


def replay(ctx, data):
    rp = data["replay"]
    c2 = common.Ctx("C13", "quick", 0); c2.tmp = ctx.tmp; c2.stage = ctx.stage
    if rp.get("kind") == "check_results":
        import csv
        d = os.path.join(ctx.tmp, "replay_cr", "compl_3"); os.makedirs(d)
        rows = rp["rows"]
        open(os.path.join(d, "all_equations_3.txt"), "w").writelines(r["fun"] + "\n" for r in rows)
        open(os.path.join(d, "unique_equations_3.txt"), "w").writelines(u + "\n" for u in synthlib.UNIQUES)
        open(os.path.join(d, "matches_3.txt"), "w").writelines("%d\n" % r["match"] for r in rows)
        with open(os.path.join(d, "inv_subs_3.txt"), "w") as f:
            csv.writer(f, delimiter=";").writerows([r["chain"] for r in rows])
        for name in ("trees", "aifeyn"):
            open(os.path.join(d, "%s_3.txt" % name), "w").writelines("0\n" for _ in rows)
        r = mpirun.run(rp["P"], [os.path.join(common.HARNESS, "workers", "check_results.py"), d, "3"], timeout=300, env_extra=ctx.env(), cwd=ctx.stage, python=common.PY)
        fails, st = oracle_lib.check_library(os.path.dirname(d), 3, ctx.rng, npoints=3) if r["ok"] else ([dict(detail=r["error"])], {})
        for f in fails:
            print(f["detail"])
        return not fails
    ref = _one(c2, rp["runname"], rp["nmax"], 1, None, None, basis=rp.get("basis"), compls=rp.get("compls"))
    if rp["P"] != 1:
        _one(c2, rp["runname"], rp["nmax"], rp["P"], rp.get("delay_seed"), ref, basis=rp.get("basis"), compls=rp.get("compls"))
    for f in c2.failures:
        print(f["what"])
    return not c2.failures
