"""C13 — the number of MPI ranks changes neither what is enumerated nor its soundness."""
import filecmp, json, os, re
import shutil
import common, extract, libgen, oracle_lib, mpirun, synthlib

LEAN_MODULE = ["ESRVerif.Props.C13", "ESRVerif.Props.C13b"]
LEVEL = "proof"
LEVEL_TEXT = ("Lean theorems over an execution model of ESR's MPI use: a program whose ranks run the same action list and communicate only through "
              "collectives has one result under every interleaving of rank progress and never deadlocks (unbounded ranks, program length, schedules); "
              "splitting into split_idx blocks, per-item work and rank-ordered gathering is independent of the rank count incl. P > N. That the generation "
              "code has this shape is re-derived from the source on every run (collective skeleton with rank-taint analysis, every split_idx use site "
              "handling the empty block; decided in Lean over the regenerated table). List-level models of make_changes (changed-index lists, gathered "
              "start_idx, in-place writes for ranks in order), of the gather of initial_sympify, of load_subs and of check_results' flagged-index "
              "bookkeeping, written as the code does them with the index arithmetic (start_idx construction, imin, the offset added to a local flagged "
              "index) read from the source as small terms, are proved to give the rank-count-free result for every N and every P >= 1 "
              "(makeChanges_eq_concat, initialSympify_gather, loadSubs_scatter_gather, flagged_indices_global). Real generation runs under a multi-process "
              "MPI stand-in for several rank counts incl. more ranks than functions, with randomised release order, are compared byte for byte and checked "
              "with the C03 oracle; the real make_changes, load_subs and initial_sympify are run in isolation for every (N, P) up to (40, 17) and compared "
              "with the model and with the concatenation of the per-rank results; check_results' list of un-merged functions is compared across rank counts. "
              "At driver level (Props/C03c, checked by the C03 check): the do_sympy / duplicate_checker driver run on P ranks equals the one-rank driver "
              "for every P >= 1 under the named per-item hypothesis on the CAS pass (casCallRanks_eq, casCallRanks_rank_independent, makeChangesRanks_eq, "
              "doSympyRanks_eq_doSympy, library_files_rank_independent), and perItem_needed shows the hypothesis (hpure) cannot be dropped.")
TECHNIQUE = ("Lean 4 proof of SPMD determinism/deadlock-freedom + block data-flow lemmas + list-level proofs of the gather/offset arithmetic read from the "
             "source; skeleton and index terms regenerated from source; multi-rank differential runs; exhaustive (N,P) correspondence of the gather functions")
RULE = ("one case = one generation run (basis, complexities 1..n, P ranks, release-delay seed) compared with the 1-rank run, or one call of the real "
        "make_changes / load_subs / initial_sympify on N items under P ranks, or one check_results run; non-trivial = P>=2 (and N>=1 for the isolated "
        "calls); distinct by (basis, n, P, delay seed) resp. (function, N, P)")
EXPLANATION = LEVEL_TEXT
TRUSTED = ["rank-taint analysis in harness/extractors/spmd.py (flow-sensitive per function, both branches of an `if` joined, names bound under a rank-dependent "
           "condition tainted, calls of straight-line helpers whose return value is rank-dependent tainted; sound for the constructs it recognises, fails closed "
           "otherwise); every split_idx result, in any function of the three modules, may only be read under a test of its emptiness",
           "harness/extractors/gather.py: abstract reading of make_changes / check_results (index terms over len/rank/size/split_idx with the emptiness case "
           "split in any spelling, gather/bcast/allgather/scatter of per-rank values, rank-0 steps [0]+x / np.cumsum / x.cumsum() / np.insert / np.concatenate / "
           "x[k:], the changed-index list and the selections over range/enumerate, the update loop over the ranks with its inner loops over range/enumerate/zip "
           "and local aliases, `None if v is None else v.copy()` in any spelling as the value v, the flagging loop over range/enumerate, chain / nested "
           "comprehension / sum(x, []) flattening, the shuffle-index mapping as loop or comprehension); statements made for their effect poison what they "
           "mention; fails closed on everything else; the per-item work inside the flagging loop is not modelled",
           "harness/extractors/_norm_c13.py, semantics-preserving rewrites applied before reading: one level of inlining of straight-line module helpers "
           "(arguments bound in call order, locals renamed apart, early return -> else, a helper global shadowed by a caller local is an error); "
           "`x = a if c else b` -> if/else; `a = b = v` -> `a = v; b = a`; a loop that only appends (optionally under `if c: continue` guards / one `if`) "
           "to lists created empty directly before it -> one comprehension per list (iterable, conditions and items side-effect free and not mentioning the "
           "lists); `not (a == b)` <-> `a != b`, `is`/`is not`, `in`/`not in`, double negation, De Morgan, integer literal moved to the right of ==/!=, in "
           "test position only (`!=` is the negation of `==` for the compared str/int/None values; `<`/`>=` never swapped); "
           "`itertools.chain.from_iterable(x)` -> `itertools.chain(*x)`",
           "make_changes model: all ranks enter with equal all_fun/all_sym/all_inv_subs; the three lists are written independently; `.copy()` is a value",
           "per-item computations are functions of the item (sympy caches, hash order: PYTHONHASHSEED fixed) - hypothesis `hpure`, sampled by the differential runs",
           "stand-in collectives pickle payloads like mpi4py lowercase methods; no real MPI progress engine"]
ASSUMPTIONS = ["exceptions other than the empty-block unpacking are not modelled statically; a rank raising between collectives is detected only by the real runs",
               "makeChanges_eq_concat assumes every rank passes lists of the length of its split_idx block (true at both call sites in sympy_simplify: the "
               "lists are slices all_fun[imin:imax]; read, not extracted)"]
MODELLED = ["simplifier.py:make_changes", "simplifier.py:initial_sympify", "simplifier.py:load_subs", "simplifier.py:check_results",
            "simplifier.py:expand_or_factor", "utils.py:split_idx", "generator.py:shape_to_functions"]

# When gather.py cannot read a refactored make_changes / check_results the committed table stands in as a hand-written model: it is then tied to
# the code only dynamically, at thorough depth (drifted() lists the table): the REAL make_changes under 1..17 ranks on every N <= 40 against the
# model interpreting that table (and against the rank-count-free oracle), and the real check_results' un-merged index lists on synthetic
# libraries with wrong merges under 1,2,3,5,7 ranks against `flaggedIndices` of that table.  The SPMD skeleton has no such exhaustive dynamic
# counterpart (a run samples a few schedules) and stays strict.
FALLBACK = {"Gather": "real make_changes in isolation for every (N, P) <= (40, 17) vs the Lean makeChanges model over the committed index terms (count, cmpBase, "
                      "steps, shift), and real check_results' un-merged index lists on synthetic libraries under 1,2,3,5,7 ranks vs the Lean flaggedIndices model "
                      "(slice bounds, offset)"}

BYTE_FILES = ["trees", "orig_trees", "extra_trees", "all_equations", "aifeyn", "orig_aifeyn", "extra_aifeyn"]


def _one(ctx, runname, nmax, P, delay_seed, ref, basis=None, compls=None):
    """run generation under P ranks; compare with ref (the P=1 library dir). Returns True if everything held."""
    key = "%s:n<=%d:P=%d" % (runname, nmax, P)
    rp = dict(kind="run", runname=runname, nmax=nmax, P=P, delay_seed=delay_seed, basis=basis)
    compls = compls or list(range(1, nmax + 1))
    rp["compls"] = compls
    r = libgen.generate(ctx, runname, compls, P=P, basis=basis,
                        copy="c13_%s_P%d_%s" % (runname, P, delay_seed), delay_seed=delay_seed, timeout=240 if ctx.quick else 900)
    ctx.case((runname, nmax, P, delay_seed), nontrivial=P >= 2)
    if not r["ok"]:
        tail = ""
        for f in r["stdout"]:
            try:
                t = open(f).read()
                if "Traceback" in t:
                    tail = t[t.rindex("Traceback"):][-600:]; break
            except Exception:
                pass
        ctx.fail("generation-incomplete:" + key,
                 "generation of %s (complexities 1..%d) under %d ranks does not terminate on all ranks: %s; exit codes %s; %s" % (
                     runname, nmax, P, r["res"]["error"], r["res"]["exit_codes"], tail.replace("\n", " | ")), rp)
        return None
    ok = True
    if ref is not None:
        for n in compls:
            for name in BYTE_FILES:
                a, b = libgen.libfile(ref, n, name), libgen.libfile(r["dir"], n, name)
                if not (os.path.exists(a) and os.path.exists(b) and filecmp.cmp(a, b, shallow=False)):
                    ctx.fail("bytes-differ:%s:%s_%d" % (key, name, n), "%s_%d.txt written under %d ranks differs from the 1-rank file (%s)" % (name, n, P, runname), rp)
                    ok = False
    for n in compls:
        fails, st = oracle_lib.check_library(r["dir"], n, ctx.rng, npoints=3, max_rows=600 if ctx.quick else 4000)
        for f in fails[:3]:
            ctx.fail("unsound:%s:n=%d:%s" % (key, n, f["kind"]), "library of %s n=%d generated under %d ranks is unsound: %s" % (runname, n, P, f["detail"]), rp)
            ok = False
        ctx.extra.setdefault("oracle_rows", 0)
        ctx.extra["oracle_rows"] += st["checked_numeric"] + st["checked_nan"]
    same_triple = None
    if ref is not None:
        same_triple = all(filecmp.cmp(libgen.libfile(ref, n, nm), libgen.libfile(r["dir"], n, nm), shallow=False)
                          for n in compls for nm in ("unique_equations", "matches", "inv_subs"))
    ctx.sample(dict(run=key, delay_seed=delay_seed, wall_s=round(r["wall_s"], 1), collectives=r["res"]["collectives"], triple_identical_to_P1=same_triple))
    return r["dir"] if ok else None


def _parse_flagged(path):
    """the `to_change` list rank 0 prints (original indices, in gathered order), or None if the listing is not found"""
    try:
        t = open(path).read()
    except Exception:
        return None
    m = re.search(r"Need to change (\d+) functions\n((?:\[.*\]\n)*)", t)
    if not m:
        return None
    idx = [int(x) for x in re.findall(r"^\[(?:np\.int64\()?(\d+)\)?, ", m.group(2), flags=re.M)]
    return idx if len(idx) == int(m.group(1)) else None


def _flagged_vs_model(ctx, rows, P, flagged, rp):
    """`flagged_indices_global` on the real run: the list of un-merged functions is, for every P, the list of flagged positions of
    the shuffled list mapped through shufidx (model), i.e. the P = 1 list (oracle).  Which items fail the check is taken from the
    first completed run (per-item, `hpure`)."""
    import numpy as np
    ref = next((flagged[q] for q in sorted(flagged) if flagged[q] is not None), None)
    got = flagged.get(P)
    if ref is None or got is None:
        ctx.disagree("corr:check_results-listing", "the `Need to change` listing of rank 0 could not be read (P=%d)" % P)
        return
    shuf = np.array([i for i, r in enumerate(rows) if len(r["chain"]) != 0])
    np.random.RandomState(1234).shuffle(shuf)
    shuf = [int(i) for i in shuf]
    flags = ["1" if i in set(ref) else "0" for i in shuf]
    mo = common.model(["gather_cr %d %s %s" % (P, _tok(flags), _tok([str(i) for i in shuf]))])[0]
    m = None if mo == "error" else [int(t) for t in _unt(mo.split(" ")[1])]
    ctx.extra["check_results_flag_lists"] = ctx.extra.get("check_results_flag_lists", 0) + 1
    if m != got:
        ctx.disagree("corr:check_results-flagged:P=%d" % P, "model %s vs real %s" % (m, got))
    if got != ref:
        ctx.fail("check_results-flags-differ:P=%d" % P,
                 "check_results on a %d-row library un-merges the functions %s under %d ranks but %s under %d rank(s): the global index of a flagged function depends on the rank count" % (
                     len(rows), got, P, ref, min(q for q in flagged if flagged[q] is not None)),
                 dict(rp, ref_P=min(q for q in flagged if flagged[q] is not None)))


def _check_results_ranks(ctx, nlibs, Ps):
    """check_results in isolation on hand-built libraries holding deliberately wrong merges: whatever the rank count,
    every function it leaves merged must be sound (the wrong ones must be the ones it un-merges)"""
    for k in range(nlibs):
        base = os.path.join(ctx.tmp, "synth_%d" % k)
        rows = synthlib.build(os.path.join(base, "P0", "compl_3"), 3, ctx.rng, nrows=ctx.rng.choice([17, 23, 26, 31]), nwrong=ctx.rng.choice([2, 3, 5]))
        flagged = {}
        for P in Ps:
            d = os.path.join(base, "P%d" % P)
            shutil.copytree(os.path.join(base, "P0"), d)
            r = mpirun.run(P, [os.path.join(common.HARNESS, "workers", "check_results.py"), os.path.join(d, "compl_3"), "3"], timeout=300,
                           env_extra=ctx.env(), cwd=ctx.stage, python=common.PY)
            flagged[P] = _parse_flagged(r["stdout"][0]) if r["ok"] else None
            shutil.rmtree(r.get("tmp", ""), ignore_errors=True)
            ctx.case(("check_results", k, P), nontrivial=P >= 2)
            rp = dict(kind="check_results", rows=rows, P=P)
            if not r["ok"]:
                ctx.fail("check_results-incomplete:P=%d" % P, "check_results on a %d-row library under %d ranks does not complete on every rank: %s %s" % (len(rows), P, r["error"], r["exit_codes"]), rp)
                continue
            _flagged_vs_model(ctx, rows, P, flagged, rp)
            fails, st = oracle_lib.check_library(d, 3, ctx.rng, npoints=3)
            for f in fails[:2]:
                ctx.fail("check_results-leaves-unsound:P=%d:%s" % (P, f["kind"]),
                         "after check_results under %d ranks a function is still merged with a map that does not reproduce it: %s (library with %d deliberately wrong merges of %d rows)" % (
                             P, f["detail"], sum(1 for x in rows if x["wrong"]), len(rows)), rp)
            ctx.extra.setdefault("check_results_rows", 0)
            ctx.extra["check_results_rows"] += st["checked_numeric"]


# --------------------------------------------------------------------------------------------------
# make_changes / load_subs / initial_sympify in isolation: real function under P ranks vs model vs oracle
# --------------------------------------------------------------------------------------------------

GATHER_WORKER = os.path.join(common.HARNESS, "workers", "c13_gather.py")


def _blk(N, P, r):
    """numpy.array_split block of rank r (independent of utils.split_idx and of the Lean model)"""
    q, m = divmod(N, P)
    lo = r * q + min(r, m)
    return lo, lo + q + (1 if r < m else 0)


def _mc_job(rng, N, P):
    """every rank holds its block of all_fun and rewrites a PRNG-chosen subset of it (f17 -> g17, s17 -> t17, inv None/d17 -> None/e17);
    the local sym/inv of an UNCHANGED function may differ from the global one and must not be propagated"""
    all_fun = ["f%d" % i for i in range(N)]
    all_sym = ["s%d" % i for i in range(N)]
    all_inv = [None if rng.random() < 0.4 else "d%d" % i for i in range(N)]
    dens = rng.choice([0.0, 0.15, 0.5, 0.5, 1.0])
    loc = []
    for r in range(P):
        lo, hi = _blk(N, P, r)
        sf, yf, vf = [], [], []
        for g in range(lo, hi):
            if rng.random() < dens:
                sf.append("g%d" % g); yf.append("t%d" % g); vf.append(rng.choice([None, "e%d" % g]))
            else:
                sf.append(all_fun[g]); yf.append(rng.choice(["s%d" % g, "u%d" % g])); vf.append(rng.choice([all_inv[g], "w%d" % g, None]))
        loc.append([sf, yf, vf])
    return dict(kind="mc", all_fun=all_fun, all_sym=all_sym, all_inv=all_inv, loc=loc)


def _mc_oracle(jb):
    """concatenation of the per-rank results in rank order; sym/inv follow where the string changed, else the old entry stays"""
    cat = [sum((l[k] for l in jb["loc"]), []) for k in range(3)]
    ch = [a != b for a, b in zip(cat[0], jb["all_fun"])]
    return [cat[0], [n if c else o for c, n, o in zip(ch, cat[1], jb["all_sym"])], [n if c else o for c, n, o in zip(ch, cat[2], jb["all_inv"])]]


def _ls_rows(rng, N):
    rows = []
    for i in range(N):
        k = rng.random()
        rows.append([] if k < 0.2 else ["nan"] if k < 0.3 else ["{a0: a0 + %d}" % (i + 1)] if k < 0.8 else ["{a1: a1 + %d}" % (i + 1), "{a0: %d*a0}" % (i + 2)])
    return rows


def _write_ls(path, rows):
    import csv
    with open(path, "w") as f:
        csv.writer(f, delimiter=";").writerows(rows)


def _tok(xs, none="N"):
    return ",".join(none if x is None else x for x in xs) if xs else "-"


def _mc_line(jb):
    return "gather_mc %s %s %s %s" % (_tok(jb["all_fun"]), _tok(jb["all_sym"]), _tok(jb["all_inv"]),
                                      " ".join(";".join(_tok(x) for x in l) for l in jb["loc"]))


def _unt(s):
    return [] if s == "-" else [None if t == "N" else t for t in s.split(",")]


def _run_gather(ctx, P, jobs, tag):
    d = os.path.join(ctx.tmp, "c13_gather"); os.makedirs(d, exist_ok=True)
    jf = os.path.join(d, "jobs_%s.json" % tag)
    for jb in jobs:
        if jb["kind"] == "ls":
            jb["file"] = os.path.join(d, "ls_%s_%d.csv" % (tag, len(jb["rows"])))
            _write_ls(jb["file"], jb["rows"])
    json.dump(jobs, open(jf, "w"))
    pre = os.path.join(d, "out_%s" % tag)
    r = mpirun.run(P, [GATHER_WORKER, jf, pre], timeout=120, env_extra=ctx.env(), cwd=ctx.stage, python=common.PY)
    outs = []
    for q in range(P):
        try:
            outs.append(json.load(open("%s.%d.json" % (pre, q))))
        except Exception:
            outs.append(None)
    shutil.rmtree(r.get("tmp", ""), ignore_errors=True)
    return r, outs


def _judge(jb, P, outs, is_map):
    """the property's own statement on the real outputs of one job on all ranks: None if it holds, else a description"""
    if jb["kind"] == "mc":
        want, name = _mc_oracle(jb), "make_changes"
    elif jb["kind"] == "ls":
        want, name = [list(r) for r in jb["rows"]], "load_subs"
    else:
        want, name = [is_map[s] for s in jb["all_fun"]], "initial_sympify"
    for q, o in enumerate(outs):
        if o is None:
            return "%s under %d ranks: rank %d produced no result" % (name, P, q)
        if o[0] != "ok":
            return "%s under %d ranks raises on rank %d: %s" % (name, P, q, o[1])
        if o[1] != want:
            k = next((i for i, (a, b) in enumerate(zip(o[1], want)) if a != b), None) if jb["kind"] != "mc" else None
            return ("%s under %d ranks on %d items: rank %d holds %s, but the per-item results in rank order (what one rank computes) are %s%s" % (
                name, P, len(jb.get("all_fun", jb.get("rows", []))), q, json.dumps(o[1])[:400], json.dumps(want)[:400],
                "" if k is None else " (first difference at row %d)" % k))
    return None


def _is_items(n):
    return ["%d + x*x*a0" % (i + 1) if i % 3 else "x*%d + x" % (i + 2) for i in range(n)]


def _is_map(items, k=1):
    """the per-item function of initial_sympify, computed without any gather (parallel=False) in this process"""
    import esr.generation.simplifier as S
    r, _ = S.initial_sympify(list(items), k, verbose=False, parallel=False, save_sympy=False)
    return dict(zip(items, r))


def _gather_isolation(ctx, Nmax, Pmax):
    """all (N, P) with N <= Nmax, P <= Pmax: one launch of P ranks handles every N"""
    from concurrent.futures import ThreadPoolExecutor
    import time
    t0 = time.time()
    items = _is_items(Nmax)
    is_map = _is_map(items)
    plans = {}
    for P in range(1, Pmax + 1):
        jobs = []
        for N in range(Nmax + 1):
            jobs.append(_mc_job(ctx.rng, N, P))
            jobs.append(dict(kind="ls", rows=_ls_rows(ctx.rng, N), k=2))
            jobs.append(dict(kind="is", all_fun=items[:N], k=1))
        plans[P] = jobs
    with ThreadPoolExecutor(max_workers=3) as ex:
        futs = {P: ex.submit(_run_gather, ctx, P, plans[P], "P%d" % P) for P in plans}
        res = {P: futs[P].result() for P in plans}
    lines, idx = [], []
    nfail, shown = {}, {}
    for P, jobs in plans.items():
        r, outs = res[P]
        complete = r["ok"] and all(o is not None and len(o) == len(jobs) for o in outs)
        for j, jb in enumerate(jobs):
            N = len(jb.get("all_fun", jb.get("rows", [])))
            name = {"mc": "make_changes", "ls": "load_subs", "is": "initial_sympify"}[jb["kind"]]
            key = "%s:N=%d:P=%d" % (name, N, P)
            ctx.case(("gather", jb["kind"], N, P), nontrivial=P >= 2 and N >= 1)
            per = [o[j] if (o is not None and j < len(o)) else None for o in outs]
            bad = _judge(jb, P, per, is_map)
            if bad is None and not complete and j == len(jobs) - 1:
                bad = "%s under %d ranks: the run did not complete on every rank: %s %s" % (name, P, r["error"], r["exit_codes"])
            if bad is not None:
                nfail[name] = nfail.get(name, 0) + 1
                how = (name, "raises" if " raises on rank " in bad else "differs" if " holds " in bad else "incomplete", P >= 2)
                shown[how] = shown.get(how, 0) + 1
                if shown[how] <= 2:            # smallest N first; with and without a second rank; raising and silently wrong
                    rj = {k: v for k, v in jb.items() if k != "file"}
                    ctx.fail("gather-isolation:" + key, bad, dict(kind="gather", P=P, job=rj))
            if jb["kind"] == "mc":
                lines.append(_mc_line(jb))
            elif jb["kind"] == "ls":
                lines.append("gather_ls %d %d" % (P, N))
            else:
                lines.append("gather_is " + " ".join(_tok(["i%d" % g for g in range(*_blk(N, P, q))]) for q in range(P)))
            idx.append((P, j, jb, per, key))
        if len(ctx.samples) < 10 and P in (3, Pmax):
            jb = jobs[3 * min(7, Nmax)]
            ctx.sample(dict(make_changes=dict(P=P, all_fun=jb["all_fun"], str_fun_per_rank=[l[0] for l in jb["loc"]], result_rank0=(outs[0] or [[None, None]] * 99)[3 * min(7, Nmax)][1])))
    mout = common.model(lines)
    ncorr = 0
    for (P, j, jb, per, key), mo in zip(idx, mout):
        real = per[0]
        if real is None:
            continue
        if jb["kind"] == "mc":
            m = None if mo == "error" else [_unt(t) for t in mo.split(" ")[1:]]
            rl = real[1] if real[0] == "ok" else None
        elif jb["kind"] == "ls":
            order = [] if mo == "-" else [int(t) for t in mo.split(",")]
            m = [list(jb["rows"][i]) for i in order]
            rl = real[1] if real[0] == "ok" else None
        else:
            m = None if mo == "error" else [None if t is None else is_map[jb["all_fun"][int(t[1:])]] for t in _unt(mo.split(" ")[1])]
            rl = real[1] if real[0] == "ok" else None
        ncorr += 1
        if m != rl and sum(1 for d_ in ctx.disagreements if d_["name"].startswith("corr:gather")) < 6:
            ctx.disagree("corr:gather:" + key, "model %s vs real %s" % (json.dumps(m)[:300], json.dumps(rl)[:300]))
    ctx.extra["gather_isolation"] = dict(Nmax=Nmax, Pmax=Pmax, cases=len(idx), compared_with_model=ncorr, failing=nfail, wall_s=round(time.time() - t0, 1),
                                         functions=["make_changes", "load_subs", "initial_sympify"])


def _replay_gather(ctx, rp):
    jb = dict(rp["job"])
    is_map = _is_map(jb["all_fun"], jb.get("k", 1)) if jb["kind"] == "is" else None
    r, outs = _run_gather(ctx, rp["P"], [jb], "replay")
    bad = _judge(jb, rp["P"], [o[0] if o else None for o in outs], is_map)
    if bad is None and not r["ok"]:
        bad = "run did not complete: %s %s" % (r["error"], r["exit_codes"])
    if bad:
        print(bad)
    return bad is None


def run(ctx):
    drift =extract.drifted(ctx.proof.get("extract", {}), MODELLED)
    deep = (not ctx.quick) or bool(drift)
    ctx.extra["source_drift"] = drift
    _gather_isolation(ctx, 40 if deep else 24, 17 if deep else 9)
    if deep:
        plan = [("core_maths", 5, [2, 3, 4, 5, 8, 16]), ("ext_maths", 4, [2, 3, 7, 16]), ("base_e_maths", 4, [3, 5, 11]), ("osc_maths", 3, [16])]
    else:
        # base_e_maths n=4: check_results un-merges functions there, so its index bookkeeping across ranks is exercised
        plan = [("core_maths", 4, [2, 3, 8]), ("base_e_maths", 4, [2, 3, 12])]
    for runname, nmax, Ps in plan:
        compls = list(range(1, nmax + 1)) if (deep or runname == "core_maths") else [nmax - 1, nmax]
        ref = _one(ctx, runname, nmax, 1, None, None, compls=compls)
        if ref is None:
            continue
        for k, P in enumerate(Ps):
            _one(ctx, runname, nmax, P, (ctx.seed * 31 + k) if (deep or k == 1) else None, ref, compls=compls)
    # a user basis through the verification hook, more ranks than functions at low complexity
    b = [["x", "a"], ctx.rng.sample(["inv", "exp", "square", "sqrt_abs", "log_abs", "cube"], 2), ["+", "*"] + ctx.rng.sample(["-", "/", "pow"], 1)]
    ref = _one(ctx, "verif_c13", 3, 1, None, None, basis=b)
    if ref is not None:
        _one(ctx, "verif_c13", 3, ctx.rng.choice([6, 7, 9] if ctx.quick else [9, 13, 16]), ctx.seed, ref, basis=b)
    # degenerate libraries: ONE function in the whole library (matches_<n>.txt is a single line, which np.loadtxt reads as a
    # 0-d array: F15), with and without a recorded substitution, on one rank and on more ranks than functions
    for tiny in ([["a"], [], [ctx.rng.choice(["-", "/"])]], [["x"], [ctx.rng.choice(["inv", "exp"])], ["+"]]):
        cs = [3] if not tiny[1] else [1]
        ref1 = _one(ctx, "verif_c13t%d" % len(tiny[1]), cs[0], 1, None, None, basis=tiny, compls=cs)
        if ref1 is not None:
            _one(ctx, "verif_c13t%d" % len(tiny[1]), cs[0], 3, None, ref1, basis=tiny, compls=cs)
    _check_results_ranks(ctx, 6 if deep else 2, [1, 2, 3, 5, 7] if deep else [1, 3, 5])
    ctx.extra["corr_obligations"] = 3
    ctx.extra["corr_discharged"] = (int(not ctx.failures) + int(not any(d["name"].startswith("corr:gather") for d in ctx.disagreements))
                                    + int(not any(d["name"].startswith("corr:check_results") for d in ctx.disagreements)))
    ctx.extra["plan"] = [list(p) for p in plan]


def replay(ctx, data):
    rp = data["replay"]
    c2 = common.Ctx("C13", "quick", 0); c2.tmp = ctx.tmp; c2.stage = ctx.stage
    if rp.get("kind") == "gather":
        return _replay_gather(ctx, rp)
    if rp.get("kind") == "check_results":
        import csv
        rows = rp["rows"]

        def once(P, tag):
            d = os.path.join(ctx.tmp, "replay_cr_%s" % tag, "compl_3"); os.makedirs(d)
            open(os.path.join(d, "all_equations_3.txt"), "w").writelines(r["fun"] + "\n" for r in rows)
            open(os.path.join(d, "unique_equations_3.txt"), "w").writelines(u + "\n" for u in synthlib.UNIQUES)
            open(os.path.join(d, "matches_3.txt"), "w").writelines("%d\n" % r["match"] for r in rows)
            with open(os.path.join(d, "inv_subs_3.txt"), "w") as f:
                csv.writer(f, delimiter=";").writerows([r["chain"] for r in rows])
            for name in ("trees", "aifeyn"):
                open(os.path.join(d, "%s_3.txt" % name), "w").writelines("0\n" for _ in rows)
            r = mpirun.run(P, [os.path.join(common.HARNESS, "workers", "check_results.py"), d, "3"], timeout=300, env_extra=ctx.env(), cwd=ctx.stage, python=common.PY)
            flagged = _parse_flagged(r["stdout"][0]) if r["ok"] else None
            fails, st = oracle_lib.check_library(os.path.dirname(d), 3, ctx.rng, npoints=3) if r["ok"] else ([dict(detail=r["error"])], {})
            return flagged, fails

        flagged, fails = once(rp["P"], "P")
        for f in fails:
            print(f["detail"])
        ok = not fails
        if rp.get("ref_P") is not None:
            ref, _ = once(rp["ref_P"], "ref")
            if ref != flagged:
                print("un-merged under %d ranks: %s; under %d rank(s): %s" % (rp["P"], flagged, rp["ref_P"], ref))
                ok = False
        return ok
    ref = _one(c2, rp["runname"], rp["nmax"], 1, None, None, basis=rp.get("basis"), compls=rp.get("compls"))
    if rp["P"] != 1:
        _one(c2, rp["runname"], rp["nmax"], rp["P"], rp.get("delay_seed"), ref, basis=rp.get("basis"), compls=rp.get("compls"))
    for f in c2.failures:
        print(f["what"])
    return not c2.failures
