"""C03 — merging duplicates never changes a function: matches and parameter maps exact."""
import os, re, shutil
import cas_script, common, extract, libgen, oracle_lib, mpirun, synthlib

LEAN_MODULE = ["ESRVerif.Props.C03", "ESRVerif.Props.C03b", "ESRVerif.Props.C03c"]
LEVEL = "other"
LEVEL_TEXT = ("Partial proof. Proved in Lean for libraries of any size: first-occurrence indexing gives a duplicate-free unique list and a total match "
              "that points at the function's own string; get_match_indexes finds the first occurrence of every rewritten tree's original; the chain "
              "of a function extended by its unique's new substitutions stays sound through any number of simplification rounds provided each CAS "
              "rewrite of a unique is sound (composition order as in convert_params); the shuffle with remapped matches and the un-merge keep every "
              "match pointing at the same string. The do_sympy DRIVER itself is modelled (both fixed-point loops, the per-parameter-count calls of "
              "sympy_simplify with in-place writes, add_inv_subs, step (3), the round files) together with duplicate_checker.main around it (extra trees "
              "inherit their original's string, the round files are re-read and appended per function): doSympy_sound shows that if every CAS call is "
              "sound (OracleSound) then after ANY number of rounds every function is sound w.r.t. its final unique and the chain assembled from the "
              "round files; round_files_recombine, files_same_length, extras_inherit_original cover the file bookkeeping. The driver is also modelled on "
              "P RANKS (Props/C03c: each rank runs the CAS on its split_idx block of the uniques, make_changes - with the index arithmetic read from "
              "today's source - splices the blocks back): casCallRanks_eq, roundRanks_eq_round, doSympyRanks_eq_doSympy show that for a per-item CAS pass "
              "(hypothesis PerItem = C13's hpure) the run on any P >= 1 ranks, incl. more ranks than items, IS the one-rank run; doSympyRanks_sound "
              "transports doSympy_sound to any rank count, library_files_rank_independent says all library/round files are the same lists for all P, "
              "perItem_needed shows the hypothesis cannot be dropped. Termination of the loops is "
              "not claimed. NOT proved (hypotheses StepSound/OracleSound): that sympy's subs/expand/factor/equals inside sympy_simplify and "
              "check_results produce sound rewrites. That part is checked on every run by an independent numeric oracle on every row of real libraries "
              "(shipped bases and PRNG bases through the verification hook) and on hand-built libraries with deliberately wrong merges.")
TECHNIQUE = ("Lean 4 proof of the merge bookkeeping and of the do_sympy/duplicate_checker driver under a named hypothesis on the CAS steps; the driver model is "
             "tied to the code by running the REAL duplicate_checker.main/do_sympy under a PRNG-scripted CAS whose every answer is sound by construction "
             "(hidden exact denotations over Z_p) and comparing every file with the model - on one rank with a whole-list scripted sympy_simplify, and on "
             "1, 2, 3, 5 and more-ranks-than-functions ranks (MPI stand-in) with a block-wise scripted sympy_simplify that hands its block to the REAL make_changes, "
             "compared with the P-rank model and with the one-rank model; numeric conformance oracle on every library row")
RULE = ("one case = one row of a generated library checked by the oracle (f(x; p(theta)) = u(x; theta) at generic points, or nan with fewer parameters), or one "
        "function of a scripted-CAS run checked exactly against the hidden denotations; non-trivial = the row has a non-empty chain or is marked "
        "unrecoverable / the scripted run merged functions and recorded chains; distinct by (basis, complexity, row) or (script)")
EXPLANATION = LEVEL_TEXT
TRUSTED = ["hand model ESRVerif/Model/Library.lean of get_unique_indexes/get_match_indexes/shuffle/un-merge (tied by correspondence on random lists) and of "
           "the do_sympy driver + duplicate_checker.main bookkeeping (tied by correspondence on PRNG scripts: returned strings, round count, every round "
           "file, all_equations/unique_equations/matches/inv_subs compared with the model)",
           "harness/oracle_lib.py (sympy parsing + numpy evaluation of library rows at generic points, finite values only)",
           "harness/cas_script.py (script generator whose CAS answers are sound by construction; exact evaluation of the hidden denotations mod 10007; "
           "its block-wise stand-in for sympy_simplify repeats the slicing statements simplifier.py 290-298 by hand before calling the real make_changes)",
           "hand model of the P-rank call in ESRVerif/Model/Library.lean section Ranks (rankBlock/casCallRanks: ONE block-wise CAS pass + ONE make_changes per "
           "sympy_simplify call; make_changes itself is ESRVerif/Model/Gather.makeChanges with the extracted arithmetic, proved against split_idx in Props/C13b)",
           "harness/mpi_standin + harness/mpirun.py (ranks = OS processes, collectives matched by a hub) instead of a real MPI library"]
ASSUMPTIONS = ["StepSound/OracleSound: each sympy rewrite recorded by sympy_simplify is a sound (function, unique, map) triple and chains are only appended to - sampled, not proved",
               "generic points: x in (0.4,2.5), parameters in +-(0.4,2.5); rows never finite at any sampled point are counted unverifiable",
               "PerItem: the CAS answer for a unique depends on that unique alone. True of the scripted CAS by construction (table lookup by name) and of the "
               "substitution passes of sympy_simplify; its two gathered 'is the sign-flipped / permuted form already in all_fun' passes (simplifier.py 516-573, "
               "592-642) look the whole broadcast list up and sit between TWO make_changes calls - that structure is not in the model, so rank-independence of "
               "those passes rests on C13's runs of real libraries on several ranks",
               "scripted-CAS runs: complexity label 1-2 (check_results not reached), generator/initial_sympify/sympy_simplify/expand_or_factor "
               "replaced by the script; all but the first 24 (quick) / 300 (thorough) scripts run main's two shell commands per file (sed, mv) in-process",
               "termination of the two fixed-point loops is not claimed (the model has fuel and reports whether the exit condition was reached; every run reached it)"]
MODELLED = ["utils.py:get_unique_indexes", "utils.py:get_match_indexes", "duplicate_checker.py:main", "simplifier.py:do_sympy", "simplifier.py:check_results",
            "simplifier.py:count_params", "simplifier.py:get_max_param",
            # the rewrites themselves are not modelled (StepSound is a hypothesis): a change there widens the row-by-row oracle run
            "simplifier.py:sympy_simplify", "simplifier.py:simplify_inv_subs", "simplifier.py:get_all_dup"]


def _index_ok(L, us, match):
    return len(set(us)) == len(us) and all(v in match and isinstance(match[v], int) and 0 <= match[v] < len(us) and us[match[v]] == v for v in L)


def _replay_index(L):
    from esr.generation import utils
    import numpy as np
    uniq, match = utils.get_unique_indexes(L)
    us = list(uniq.keys())
    if not _index_ok(L, us, match):
        print("get_unique_indexes(%r): uniques %r, match %r" % (L, us, match))
        return False
    for seed in range(5):
        np.random.seed(seed)
        i = np.arange(len(uniq)); np.random.shuffle(i)
        inv = {i[j]: j for j in range(len(i))}
        su = [us[ii] for ii in i]
        if [su[inv[match[f]]] for f in L] != L:
            return False
    return True


def _corr_index(ctx, n):
    from esr.generation import utils
    import numpy as np
    ops, real = [], []
    alpha = ["x", "a0", "a0*x", "x**2", "a0+x", "1/x", "a1", "a0*a1"]
    for _ in range(n):
        L = [ctx.rng.choice(alpha[:ctx.rng.randint(1, len(alpha))]) for _ in range(ctx.rng.randint(0, 14))]
        uniq, match = utils.get_unique_indexes(L)
        us = list(uniq.keys())
        # oracle (property): every function is assigned exactly one entry of the unique list, namely its own string; uniques distinct
        if not _index_ok(L, us, match):
            ctx.fail("get_unique_indexes:match-not-own-string", "get_unique_indexes(%r): uniques %r, match %r" % (L, us, match), dict(kind="index", L=L))
            continue
        ops.append("lib-uniq %s" % ("_" if not L else ",".join(L)))
        real.append("%s %s" % ("_" if not us else ",".join(us), "-" if not L else ",".join(str(match[v]) for v in L)))
        if L:
            b = [ctx.rng.choice(L) for _ in range(ctx.rng.randint(0, 5))]
            ops.append("lib-match %s %s" % (",".join(L), "_" if not b else ",".join(b)))
            real.append("-" if not b else ",".join(str(i) for i in utils.get_match_indexes(L, b)))
            # the shuffle of duplicate_checker.main, statement for statement
            np.random.seed(ctx.rng.randint(0, 10 ** 6))
            i = np.arange(len(uniq)); np.random.shuffle(i)
            inv = {i[j]: j for j in range(len(i))}
            su = [us[ii] for ii in i]
            mi = [inv[match[f]] for f in L]
            ops.append("lib-shuffle %s %s %s" % (",".join(map(str, i)), ",".join(us), ",".join(str(match[f]) for f in L)))
            real.append("%s %s" % (",".join(su), ",".join(map(str, mi))))
            # oracle (property): every function still points at its own string
            if [su[m] for m in mi] != L:
                ctx.fail("shuffle-remap", "after the shuffle a match no longer points at the function's string: %r -> %r" % (L, [su[m] for m in mi]), dict(kind="index", L=L))
        ctx.case(("index", tuple(L)), nontrivial=len(set(L)) < len(L))
    out = common.model(ops)
    bad = [(o, a, b) for o, a, b in zip(ops, real, out) if a != b]
    for o, a, b in bad[:4]:
        ctx.disagree("corr:index-functions", "%s: code=%s model=%s" % (o, a, b))
    return len(ops), len(bad)


def _run_script(ctx, script, real_shell=True):
    """the real duplicate_checker.main on one script -> (run state, parsed files, property failures)"""
    st = cas_script.run_real(script, os.path.join(ctx.tmp, "c03_driver"), real_shell=real_shell)
    out = cas_script.read_outputs(script, st)
    return st, out, cas_script.check_property(script, st, out)


def _shrink(ctx, script, kind, budget=120):
    """greedy minimisation of a failing script (fewer rounds, fewer table entries, fewer functions) keeping the kind of
    failure; every candidate is re-run on the real code"""
    import copy

    def fails(sc):
        try:
            return any(k == kind for k, _ in _run_script(ctx, sc, real_shell=False)[2])
        except Exception:
            return False

    cur = copy.deepcopy(script)
    progress = True
    while progress and budget > 0:
        progress = False
        cands = []
        for r in range(len(cur["tables"]) - 1, -1, -1):
            c = copy.deepcopy(cur); del c["tables"][r]; cands.append(c)
        for r, t in enumerate(cur["tables"]):
            for nm in t:
                c = copy.deepcopy(cur); del c["tables"][r][nm]; cands.append(c)
        norig = len(cur["gen"]) - cur["nextra"]
        for i in range(len(cur["gen"]) - 1, -1, -1):
            c = copy.deepcopy(cur)
            if i >= norig:
                del c["gen"][i]; del c["exorig"][i - norig]; c["nextra"] -= 1
            else:
                del c["gen"][i]
                if any(o not in c["gen"][:norig - 1] for o in c["exorig"]):
                    continue
            cands.append(c)
        for nm in list(cur["symp"]):
            c = copy.deepcopy(cur); del c["symp"][nm]; cands.append(c)
        for c in cands:
            if budget <= 0:
                break
            budget -= 1
            if fails(c):
                cur, progress = c, True
                break
    used = set(cur["gen"]) | set(cur["exorig"]) | set(cur["symp"].values())
    for t in cur["tables"]:
        used |= set(t) | set(v[0] for v in t.values())
    cur["names"] = {k: v for k, v in cur["names"].items() if k in used}
    return cur


def _corr_driver(ctx, n):
    """do_sympy + the surrounding part of duplicate_checker.main, REAL code under a PRNG-scripted CAS, against
    Model/Library.dupMain on the same script; and C03's statement on the files each run wrote."""
    import gc, random
    import esr.generation.duplicate_checker                        # noqa: everything imported before the heap is frozen
    gc.collect(); gc.freeze()                                       # do_sympy calls gc.collect() ~10 times per round
    try:
        return _corr_driver_frozen(ctx, n)
    finally:
        gc.unfreeze()


def _corr_driver_frozen(ctx, n):
    import gc, random
    nshell = 24 if ctx.quick else 300
    ops, reals, scripts = [], [], []
    stats = dict(scripts=n, rounds={}, functions=0, rows_with_chain=0, rows_nan=0, extras=0, merges=0, cancelled=0, mismatches=0,
                 property_failures=0, round_files=0, rows_recorded_in_several_rounds=0)
    for k in range(n):
        script = cas_script.make_script(random.Random(ctx.rng.getrandbits(48)))
        st, out, bad = _run_script(ctx, script, real_shell=k < nshell)
        if k % 64 == 63:
            gc.freeze()               # what the loop accumulated so far must not slow the real code's gc.collect() calls down
        for kind, detail in bad[:1]:
            stats["property_failures"] += 1
            if stats["property_failures"] > 40:
                continue              # counted; decide() reports the first few, each with its own replay
            rp = script
            if stats["property_failures"] <= 3 and "no-parameters" not in kind:
                rp = _shrink(ctx, script, kind)
                detail = ([d for k_, d in _run_script(ctx, rp, real_shell=False)[2] if k_ == kind] or [detail])[0]
            ctx.fail("scripted-cas:%s" % kind, "real duplicate_checker.main/do_sympy under a sound scripted CAS (hypothesis OracleSound holds by construction) "
                     "left an unsound library: %s; functions %r, round tables %r" % (detail, rp["gen"], rp["tables"]), dict(kind="script", script=rp))
        if st["odd"]:
            ctx.disagree("corr:do_sympy", "sympy object passed with the wrong string: %r" % (st["odd"][:3],))
        if not out["format_ok"] or out.get("stray_round_file"):
            ctx.disagree("corr:do_sympy", "round/inv_subs file not in csv ';' format or a round file beyond the returned count")
        nuniq = len(out["uniq"]) if out.get("uniq") is not None else 0
        ops.append(cas_script.model_line(script, nuniq))
        reals.append(cas_script.real_line(script, st, out))
        scripts.append((script["seed"], len(script["gen"])))
        nr = st["ret"][1] if st["ret"] else -1
        stats["rounds"][nr] = stats["rounds"].get(nr, 0) + 1
        stats["round_files"] += 2 * max(nr, 0)
        stats["functions"] += len(script["gen"]); stats["extras"] += script["nextra"]
        if out.get("inv") is not None and not st["raised"]:
            stats["rows_with_chain"] += sum(1 for r in out["inv"] if r)
            stats["rows_nan"] += sum(1 for r in out["inv"] if "nan" in r)
            stats["merges"] += len(set(out["alleq"])) - len(out["uniq"])
            raw = sum(len(r) for _, rr in out["rounds"] if rr for r in rr)
            stats["cancelled"] += raw - sum(len(r) for r in out["inv"])
            seen = {}
            for idx, _ in out["rounds"]:
                for j in idx or []:
                    seen[j] = seen.get(j, 0) + 1
            stats["rows_recorded_in_several_rounds"] += sum(1 for v in seen.values() if v > 1)
            nontriv = any(out["inv"]) and len(set(out["alleq"])) > len(out["uniq"])
            ctx.case(("script", k, ctx.seed), nontrivial=nontriv, n=len(script["gen"]))
        if k < 2:
            ctx.sample(dict(script_functions=script["gen"], rounds=nr, unique=out.get("uniq"), matches=out.get("match"), inv_subs=out.get("inv")))
    outm = common.model(ops)
    for (sseed, nfun), a, b in zip(scripts, reals, outm):
        if a != b:
            stats["mismatches"] += 1
            ctx.disagree("corr:do_sympy", "%s [script seed %d, %d functions]" % (cas_script.first_difference(a, b), sseed, nfun))
    stats["rounds"] = {str(k): v for k, v in sorted(stats["rounds"].items())}
    return stats


RANKS_WORKER = os.path.join(common.HARNESS, "workers", "c03_script_ranks.py")


def _launch_ranks(ctx, scripts, P, tag):
    """the worker on P ranks over `scripts` -> (mpirun result, per-rank records or None)"""
    import json
    d = os.path.join(ctx.tmp, "c03_ranks", tag)
    shutil.rmtree(d, ignore_errors=True)
    os.makedirs(d)
    jf = os.path.join(d, "scripts.json")
    json.dump(scripts, open(jf, "w"))
    pre = os.path.join(d, "out")
    r = mpirun.run(P, [RANKS_WORKER, jf, os.path.join(d, "w"), pre], timeout=600, env_extra=ctx.env(), cwd=ctx.stage, python=common.PY)
    outs = []
    for q in range(P):
        try:
            outs.append(json.load(open("%s.%d.json" % (pre, q))))
        except Exception:
            outs.append(None)
    shutil.rmtree(r.get("tmp", ""), ignore_errors=True)
    shutil.rmtree(os.path.join(d, "w"), ignore_errors=True)
    return r, outs


def _corr_driver_ranks(ctx, n):
    """The REAL duplicate_checker.main + do_sympy + make_changes on P ranks (P in 1, 2, 3, 5 and one P above the number of
    functions) under the block-wise scripted CAS, against `dupMainRanks P` of the model AND against the P = 1 model
    (Props/C03c: doSympyRanks_eq_doSympy, library_files_rank_independent); every rank must return the same strings and round
    count; C03's statement is recomputed on the files of every run."""
    import random
    from concurrent.futures import ThreadPoolExecutor
    scripts = [cas_script.make_script(random.Random(ctx.rng.getrandbits(48))) for _ in range(n)]
    small = [k for k, sc in enumerate(scripts) if len(sc["gen"]) <= 6]
    pbig = 1 + max([len(scripts[k]["gen"]) for k in small] + [1])
    plan = [(1, list(range(n))), (2, list(range(n))), (3, list(range(n))), (5, list(range(n))), (pbig, small)]
    plan = [(P, ks) for j, (P, ks) in enumerate(plan) if ks and P not in [q for q, _ in plan[:j]]]
    stats = dict(scripts=n, ranks=[P for P, _ in plan], runs=0, mismatches=0, mismatch_vs_one_rank_model=0, property_failures=0, incomplete=0,
                 ranks_disagree=0, surplus_rank_calls=0, empty_block_calls=0, calls_split_over_several_ranks=0, calls=0, merges=0, rows_with_chain=0)
    with ThreadPoolExecutor(len(plan)) as ex:
        res = list(ex.map(lambda pk: _launch_ranks(ctx, [scripts[k] for k in pk[1]], pk[0], "P%d" % pk[0]), plan))
    ops, want = [], []
    for (P, ks), (r, outs) in zip(plan, res):
        if not r["ok"] or any(o is None for o in outs):
            stats["incomplete"] += 1
            ctx.disagree("corr:do_sympy-ranks", "the scripted run of %d libraries on %d ranks did not complete: %s %s" % (len(ks), P, r.get("error"), r.get("exit_codes")))
            continue
        for j, k in enumerate(ks):
            sc, rec = scripts[k], outs[0][j]
            stats["runs"] += 1
            for kind, detail in rec["bad"][:1]:
                stats["property_failures"] += 1
                if stats["property_failures"] <= 6:
                    ctx.fail("scripted-cas-ranks:%s" % kind, "real duplicate_checker.main/do_sympy/make_changes on %d ranks under a sound per-item scripted CAS "
                             "left an unsound library: %s; functions %r, round tables %r" % (P, detail, sc["gen"], sc["tables"]), dict(kind="script_ranks", script=sc, P=P))
            if any(o[j]["odd"] for o in outs) or not rec["format_ok"] or rec["stray"]:
                ctx.disagree("corr:do_sympy-ranks", "P=%d: sympy object passed with the wrong string, or a round file not in csv format / beyond the returned count" % P)
            if any(o[j]["ret"] != rec["ret"] or o[j]["raised"] != rec["raised"] for o in outs[1:]):
                stats["ranks_disagree"] += 1
                ctx.disagree("corr:do_sympy-ranks", "P=%d [script seed %d]: the ranks return different strings / round counts: %r" % (P, sc["seed"], [o[j]["ret"] for o in outs][:3]))
            for q, o in enumerate(outs):
                stats["calls"] += len(o[j]["blocks"])
                stats["empty_block_calls"] += sum(1 for b in o[j]["blocks"] if b == 0)
            ncall = min(len(o[j]["blocks"]) for o in outs)
            stats["calls_split_over_several_ranks"] += sum(1 for c in range(ncall) if sum(1 for o in outs if o[j]["blocks"][c] > 0) >= 2)
            stats["surplus_rank_calls"] += sum(1 for b in outs[-1][j]["blocks"] if b == 0) if P > 1 else 0
            ml = cas_script.model_line(sc, rec["nuniq"])[len("lib-main "):]
            ops.append("lib-main-ranks %d %s" % (P, ml)); want.append((P, sc, rec["line"], "model on %d ranks" % P))
            ops.append("lib-main-ranks 1 %s" % ml); want.append((P, sc, rec["line"], "one-rank model"))
            if rec["line"].startswith("ok "):
                f = dict(x.split("=", 1) for x in rec["line"].split(" ")[1:])
                stats["merges"] += len(set(f["alleq"].split(","))) - len(f["uniq"].split(","))
                stats["rows_with_chain"] += sum(1 for x in f["inv"].split(";") if x not in ("E", "_"))
                ctx.case(("script-ranks", k, P, ctx.seed), nontrivial=P >= 2 and f["inv"].strip("E;_") != "", n=len(sc["gen"]))
    outm = common.model(ops) if ops else []
    for (P, sc, a, what), b in zip(want, outm):
        if a != b:
            stats["mismatches"] += 1
            stats["mismatch_vs_one_rank_model"] += what == "one-rank model"
            if stats["mismatches"] <= 6:
                ctx.disagree("corr:do_sympy-ranks", "real run on %d ranks vs %s: %s [script seed %d, %d functions]" % (P, what, cas_script.first_difference(a, b), sc["seed"], len(sc["gen"])))
    return stats


def _lib_rows(ctx, runname, nmax, P=1, basis=None, tag=""):
    r = libgen.generate(ctx, runname, list(range(1, nmax + 1)), P=P, basis=basis, copy="c03_%s%s_P%d" % (runname, tag, P), timeout=1500)
    rp = dict(kind="library", runname=runname, nmax=nmax, P=P, basis=basis)
    if not r["ok"]:
        ctx.fail("generation-incomplete:%s" % runname, "generation of %s (n<=%d, %d ranks, basis %s) did not complete: %s" % (runname, nmax, P, basis, r["res"]["error"]), rp)
        return
    for n in range(1, nmax + 1):
        fails, st = oracle_lib.check_library(r["dir"], n, ctx.rng, npoints=4, max_rows=2500 if ctx.quick else 20000)
        for i in range(st["rows"]):
            pass
        ctx.evaluations += st["checked_numeric"] + st["checked_nan"]
        for k in range(st["nonempty_chains"]):
            ctx.distinct.add((runname, tag, n, k))
        ctx.extra.setdefault("libraries", []).append(dict(basis=runname + tag, n=n, **st))
        for f in fails[:3]:
            ctx.fail("unsound:%s:n=%d:%s" % (runname, n, f["kind"]), "library %s n=%d (basis %s): %s" % (runname, n, basis, f["detail"]), dict(rp, nmax=n))


def run(ctx):
    drift = extract.drifted(ctx.proof.get("extract", {}), MODELLED)
    deep = (not ctx.quick) or bool(drift)
    ctx.extra["source_drift"] = drift
    n, b = _corr_index(ctx, 3000 if deep else 600)
    drv = _corr_driver(ctx, 5000 if deep else 320)
    rk = _corr_driver_ranks(ctx, 400 if deep else 48)
    ctx.extra["corr_obligations"] = 3
    ctx.extra["corr_discharged"] = int(b == 0) + int(drv["mismatches"] == 0) + int(rk["mismatches"] == 0 and rk["incomplete"] == 0 and rk["ranks_disagree"] == 0)
    ctx.extra["correspondence"] = dict(index_ops=n, mismatches=b, do_sympy_driver=drv, do_sympy_driver_ranks=rk)
    # the driver already fails on concrete inputs: the verdict is fixed, and generating real libraries with a broken driver
    # can take hours (chains growing without bound make check_results crawl) - stop here
    kf = common.known_findings(ctx.pid)
    hard = [f["key"] for f in ctx.failures if not any(re.fullmatch(e["match"], f["key"]) for e in kf)]
    if hard:
        ctx.extra["libraries_skipped"] = "driver/index oracle already failed on the real code: %s" % sorted(set(hard))[:5]
        return
    plan = ([("core_maths", 5), ("base_e_maths", 4), ("keep_duplicates", 4)] if not deep else
            [("core_maths", 6), ("ext_maths", 5), ("keep_duplicates", 5), ("osc_maths", 5), ("base10_maths", 5), ("base_e_maths", 5)])
    for rn, nmax in plan:
        _lib_rows(ctx, rn, nmax)
    # user bases through the guarded hook
    for k in range(3 if deep else 1):
        b1 = ctx.rng.sample(["inv", "exp", "square", "sqrt_abs", "log_abs", "cube", "sin"], ctx.rng.choice([1, 2, 3]))
        basis = [["x", "a"], b1, ["+", "*", "-"] + ctx.rng.sample(["/", "pow"], ctx.rng.choice([0, 1, 2]))]
        _lib_rows(ctx, "verif_c03", 4, basis=basis, tag="_%d" % k)
    # check_results must un-merge every wrong merge (hand-built libraries)
    import props.c13 as c13
    c13._check_results_ranks(ctx, 3 if deep else 1, [1])
    ctx.sample(ctx.extra.get("libraries", [])[:3])


def replay(ctx, data):
    rp = data["replay"]
    if rp.get("kind") == "index":
        return _replay_index(rp["L"])
    if rp.get("kind") == "script":
        st, out, bad = _run_script(ctx, rp["script"])
        for kind, detail in bad:
            print("%s: %s" % (kind, detail))
        return not bad
    if rp.get("kind") == "script_ranks":
        r, outs = _launch_ranks(ctx, [rp["script"]], rp["P"], "replay")
        if not r["ok"] or outs[0] is None:
            print("the run on %d ranks did not complete: %s" % (rp["P"], r.get("error")))
            return False
        for kind, detail in outs[0][0]["bad"]:
            print("%s: %s" % (kind, detail))
        return not outs[0][0]["bad"]
    if rp.get("kind") == "check_results":
        import props.c13 as c13
        return c13.replay(ctx, data)
    if rp.get("kind") == "library":
        c2 = common.Ctx("C03", "quick", 0); c2.tmp = ctx.tmp; c2.stage = ctx.stage
        _lib_rows(c2, rp["runname"], rp["nmax"], P=rp.get("P", 1), basis=rp.get("basis"))
        for f in c2.failures:
            print(f["what"])
        return not c2.failures
    return True
