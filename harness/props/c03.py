"""C03 — merging duplicates never changes a function: matches and parameter maps exact."""
import os, re, shutil
import common, extract, libgen, oracle_lib, mpirun, synthlib

LEAN_MODULE = "ESRVerif.Props.C03"
LEVEL = "other"
LEVEL_TEXT = ("Partial proof. Proved in Lean for libraries of any size: first-occurrence indexing gives a duplicate-free unique list and a total match "
              "that points at the function's own string; get_match_indexes finds the first occurrence of every rewritten tree's original; the chain "
              "of a function extended by its unique's new substitutions stays sound through any number of simplification rounds provided each CAS "
              "rewrite of a unique is sound (composition order as in convert_params); the shuffle with remapped matches and the un-merge keep every "
              "match pointing at the same string. NOT proved (hypothesis StepSound): that sympy's subs/expand/factor/equals inside sympy_simplify and "
              "check_results produce sound rewrites. That part is checked on every run by an independent numeric oracle on every row of real libraries "
              "(shipped bases and PRNG bases through the verification hook) and on hand-built libraries with deliberately wrong merges.")
TECHNIQUE = "Lean 4 proof of the merge bookkeeping under a named hypothesis on the CAS steps + numeric conformance oracle on every library row"
RULE = ("one case = one row of a generated library checked by the oracle (f(x; p(theta)) = u(x; theta) at generic points, or nan with fewer parameters); "
        "non-trivial = the row has a non-empty chain or is marked unrecoverable; distinct by (basis, complexity, row)")
EXPLANATION = LEVEL_TEXT
TRUSTED = ["hand model ESRVerif/Model/Library.lean of get_unique_indexes/get_match_indexes/shuffle/un-merge (tied by correspondence on random lists)",
           "harness/oracle_lib.py (sympy parsing + numpy evaluation of library rows at generic points, finite values only)"]
ASSUMPTIONS = ["StepSound: each sympy rewrite recorded by sympy_simplify is a sound (function, unique, map) triple - sampled, not proved",
               "generic points: x in (0.4,2.5), parameters in +-(0.4,2.5); rows never finite at any sampled point are counted unverifiable"]
MODELLED = ["utils.py:get_unique_indexes", "utils.py:get_match_indexes", "duplicate_checker.py:main", "simplifier.py:do_sympy", "simplifier.py:check_results"]


def _corr_index(ctx, n):
    from esr.generation import utils
    import numpy as np
    ops, real = [], []
    alpha = ["x", "a0", "a0*x", "x**2", "a0+x", "1/x", "a1", "a0*a1"]
    for _ in range(n):
        L = [ctx.rng.choice(alpha[:ctx.rng.randint(1, len(alpha))]) for _ in range(ctx.rng.randint(0, 14))]
        uniq, match = utils.get_unique_indexes(L)
        us = list(uniq.keys())
        ops.append("lib-uniq %s" % ("_" if not L else ",".join(L)))
        real.append("%s %s" % ("_" if not us else ",".join(us), "-" if not L else ",".join(str(match[v]) for v in L)))
        if L:
            b = [ctx.rng.choice(L) for _ in range(ctx.rng.randint(0, 5))]
            ops.append("lib-match %s %s" % (",".join(L), "_" if not b else ",".join(b)))
            real.append("-" if not b else ",".join(str(i) for i in utils.get_match_indexes(L, b)))
            # the shuffle of duplicate_checker.main, statement for statement
            np.random.seed(ctx.rng.randint(0, 10 ** 6))
            i = np.arange(len(uniq)); np.random.shuffle(i)
            inv = {i[j]: j for j in range(len(i))}
            su = [us[ii] for ii in i]
            mi = [inv[match[f]] for f in L]
            ops.append("lib-shuffle %s %s %s" % (",".join(map(str, i)), ",".join(us), ",".join(str(match[f]) for f in L)))
            real.append("%s %s" % (",".join(su), ",".join(map(str, mi))))
            # oracle (property): every function still points at its own string
            if [su[m] for m in mi] != L:
                ctx.fail("shuffle-remap", "after the shuffle a match no longer points at the function's string: %r -> %r" % (L, [su[m] for m in mi]), dict(kind="index", L=L))
        ctx.case(("index", tuple(L)), nontrivial=len(set(L)) < len(L))
    out = common.model(ops)
    bad = [(o, a, b) for o, a, b in zip(ops, real, out) if a != b]
    for o, a, b in bad[:4]:
        ctx.disagree("corr:index-functions", "%s: code=%s model=%s" % (o, a, b))
    return len(ops), len(bad)


def _lib_rows(ctx, runname, nmax, P=1, basis=None, tag=""):
    r = libgen.generate(ctx, runname, list(range(1, nmax + 1)), P=P, basis=basis, copy="c03_%s%s_P%d" % (runname, tag, P), timeout=1500)
    rp = dict(kind="library", runname=runname, nmax=nmax, P=P, basis=basis)
    if not r["ok"]:
        ctx.fail("generation-incomplete:%s" % runname, "generation of %s (n<=%d, %d ranks, basis %s) did not complete: %s" % (runname, nmax, P, basis, r["res"]["error"]), rp)
        return
    for n in range(1, nmax + 1):
        fails, st = oracle_lib.check_library(r["dir"], n, ctx.rng, npoints=4, max_rows=2500 if ctx.quick else 20000)
        for i in range(st["rows"]):
            pass
        ctx.evaluations += st["checked_numeric"] + st["checked_nan"]
        for k in range(st["nonempty_chains"]):
            ctx.distinct.add((runname, tag, n, k))
        ctx.extra.setdefault("libraries", []).append(dict(basis=runname + tag, n=n, **st))
        for f in fails[:3]:
            ctx.fail("unsound:%s:n=%d:%s" % (runname, n, f["kind"]), "library %s n=%d (basis %s): %s" % (runname, n, basis, f["detail"]), dict(rp, nmax=n))


def run(ctx):
    drift = extract.drifted(ctx.proof.get("extract", {}), MODELLED)
    deep = (not ctx.quick) or bool(drift)
    ctx.extra["source_drift"] = drift
    n, b = _corr_index(ctx, 3000 if deep else 600)
    ctx.extra["corr_obligations"] = 1
    ctx.extra["corr_discharged"] = int(b == 0)
    ctx.extra["correspondence"] = dict(index_ops=n, mismatches=b)
    plan = ([("core_maths", 5), ("base_e_maths", 4), ("keep_duplicates", 4)] if not deep else
            [("core_maths", 6), ("ext_maths", 5), ("keep_duplicates", 5), ("osc_maths", 5), ("base10_maths", 5), ("base_e_maths", 5)])
    for rn, nmax in plan:
        _lib_rows(ctx, rn, nmax)
    # user bases through the guarded hook
    for k in range(3 if deep else 1):
        b1 = ctx.rng.sample(["inv", "exp", "square", "sqrt_abs", "log_abs", "cube", "sin"], ctx.rng.choice([1, 2, 3]))
        basis = [["x", "a"], b1, ["+", "*", "-"] + ctx.rng.sample(["/", "pow"], ctx.rng.choice([0, 1, 2]))]
        _lib_rows(ctx, "verif_c03", 4, basis=basis, tag="_%d" % k)
    # check_results must un-merge every wrong merge (hand-built libraries)
    import props.c13 as c13
    c13._check_results_ranks(ctx, 3 if deep else 1, [1])
    ctx.sample(ctx.extra.get("libraries", [])[:3])


def replay(ctx, data):
    rp = data["replay"]
    if rp.get("kind") == "check_results":
        import props.c13 as c13
        return c13.replay(ctx, data)
    if rp.get("kind") == "library":
        c2 = common.Ctx("C03", "quick", 0); c2.tmp = ctx.tmp; c2.stage = ctx.stage
        _lib_rows(c2, rp["runname"], rp["nmax"], P=rp.get("P", 1), basis=rp.get("basis"))
        for f in c2.failures:
            print(f["what"])
        return not c2.failures
    return True
