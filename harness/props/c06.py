"""C06 — final ranking: minimum over variants, ascending order, normalised probabilities (combine_DL.main)."""
import csv, hashlib, json, math, os, re, shutil, struct
from concurrent.futures import ThreadPoolExecutor
import common, extract

LEAN_MODULE = "ESRVerif.Props.C06"
LEVEL = "proof"
LEVEL_TEXT = ("Lean theorems (any number of unique functions, variants and ranks) over a hand model of combine_DL.main "
              "with exact extended-real arithmetic; model tied to the code by comparing final_<n>.dat and "
              "combine_DL_comp<n>.dat of the real function, run on 1-5 ranks, with the model on generated tables")
TECHNIQUE = "Lean 4 theorem over a model of the code + checked model/code correspondence"
RULE = ("random result tables (2-40 uniques, 0-6 variants each, ties, +inf, NaN, all-NaN uniques, uniques without "
        "variants, duplicate likelihoods) x rank count 1-5, plus large tables on every seed: one of 41-8000 (thorough: "
        "41-24000) unique functions per octave of size with description lengths in a band of 0.25-250 nats so that rows at "
        "every position carry visible probability, likelihoods repeated at any distance, and tables of up to 3000 "
        "(thorough 20000) variants over 2-12 uniques; a failing large table is bisected to its smallest failing prefix; "
        "one evaluation = one real combine_DL.main run on all ranks; "
        "distinct by (table, rank count); non-trivial = at least two rows in the final table")
EXPLANATION = ("Theorems in ESRVerif/Props/C06.lean over ESRVerif/Model/Rank.lean (per-unique nanmin/nanargmin, NaN mask, "
               "stable sort, duplicate-likelihood suppression, normalisation, rank partition); the real combine_DL.main is "
               "driven through a SimpleNamespace likelihood on synthetic stage files and compared row by row with the model; "
               "an independent Python oracle checks the property statement on the real final_<n>.dat")
TRUSTED = ["hand model ESRVerif/Model/Rank.lean of combine_DL.main (tied by randomised correspondence incl. multi-rank runs)",
           "numpy semantics of nanmin/nanargmin/genfromtxt/savetxt and Python's stable sorted() (conformance-sampled by the correspondence)",
           "exact real arithmetic in the theorems: rounding, overflow and the %.7e text round-off between stages are not modelled",
           "harness/extractors/rank.py (shape of lines 64-86 and 125-164 regenerated into Generated/Rank.lean)",
           "sort -V / cat / find / rm of the shell"]
ASSUMPTIONS = ["no description length is -inf (excluded point: with (-inf, 3) the probabilities do not sum to one; sums of the "
               "values the matching stage writes are never -inf unless a term is)",
               "the codelen_matches table has at least one row and the library at least one unique function (an EMPTY table "
               "is read as shape (1,0) and combine_DL.py:42 raises IndexError; the model returns `none` there and the "
               "agreement is checked; one-row tables are ordinary tables since fix f575df7)",
               "aifeyn_<n>.txt, all_equations_<n>.txt and codelen_matches_comp<n>.dat have the same number of lines; "
               "indices in column 3 are integers",
               "no -0.0 inputs (np.fmin and == treat the two zeros alike, the bit comparison would not)"]
# tables whose committed version may stand in as a hand-written model when the translator cannot read the source;
# value = the correspondence that then ties it to the code (common.prove / common.decide)
FALLBACK = {'Rank': 'real combine_DL.main on random tables vs the Lean ranking model, bit-exact rows'}
MODELLED = ["combine_DL.py:main"]
COMP = 3
INF = float("inf")
NAN = float("nan")


# ----------------------------------------------------------------------------------------------
# tables
# ----------------------------------------------------------------------------------------------

def _t7(v):
    """value as the next stage reads it from a `%.7e` column"""
    return float("%.7e" % v)


def gen_table(rng, mode="normal"):
    """dict(U, npar, rows=[[idx, nll, codelen, aifeyn, [params]]]) — floats already as the files carry them."""
    U = rng.choice([2, 2, 3, 3, 4, 5, 6, 8, 10, 15, 25, 40]) if rng.random() < 0.6 else rng.randint(2, 40)
    if mode == "one-unique":                      # a library with a single unique function (F16: one-row stage files)
        U = 1
    npar = rng.choice([0, 1, 1, 2, 2, 3])
    p_nan = rng.choice([0.0, 0.05, 0.15, 0.4])
    p_inf = rng.choice([0.0, 0.05, 0.15, 0.4])
    p_tie = rng.choice([0.0, 0.5, 0.9, 1.0])
    p_novar = rng.choice([0.0, 0.1, 0.3])
    p_allnan = rng.choice([0.0, 0.1, 0.3])
    grid = rng.choice([0.25, 0.5, 1.0])
    span = rng.choice([3, 10, 40])
    nllpool = [grid * rng.randint(-span, span) for _ in range(rng.randint(1, 6))]
    big = rng.random() < 0.15
    if mode == "allinf":
        p_inf, p_nan = 1.0, rng.choice([0.0, 0.2])
    if mode == "allnan":
        p_nan = 1.0

    def val(kind):
        r = rng.random()
        if r < p_nan / 3.0 or (mode == "allnan" and kind == "nll"):
            return NAN
        if r < (p_nan + p_inf) / 3.0 or (mode == "allinf" and kind == "codelen"):
            return INF
        if kind == "nll" and rng.random() < p_tie:
            return rng.choice(nllpool)
        if rng.random() < p_tie:
            return grid * rng.randint(-span, span)
        if big:
            return rng.choice([-1, 1]) * 10 ** rng.uniform(-2, 5)
        return rng.uniform(-50.0, 200.0)

    owners = []
    for u in range(U):
        nv = 0 if rng.random() < p_novar else rng.choice([1, 1, 1, 2, 2, 3, 4, 5, 6])
        owners += [(u, rng.random() < p_allnan)] * nv
    if mode in ("one-row", "no-row"):
        owners = owners[:1] if mode == "one-row" and owners else ([(0, False)] if mode == "one-row" else [])
    else:
        while len(owners) < (1 if mode == "one-unique" else 2):
            owners.append((rng.randrange(U), False))
    if rng.random() < 0.5:
        rng.shuffle(owners)
    rows = []
    for u, alln in owners:
        nll, cl, af = val("nll"), val("codelen"), val("aifeyn")
        if alln:
            k = rng.randrange(3)
            nll, cl, af = [NAN if j == k else x for j, x in enumerate((nll, cl, af))]
        rows.append([u, _t7(nll), _t7(cl), float(af), [_t7(rng.choice([0.0, rng.uniform(-9, 9), rng.gauss(0, 1e3)])) for _ in range(npar)]])
    return dict(U=U, npar=npar, rows=rows)


def gen_long(rng, R, shape="long"):
    """A table (same dict as gen_table) that is LARGE in one of the two directions the property quantifies over.

    shape "long": R unique functions, 1-4 variants each (mostly 1), so the final table has about R rows.  The
    description lengths lie in a band of drawn width (0.25 ... 250 nats), so rows at EVERY position of the final
    table, also far down, carry a share of the probability that is visible to the oracle both relatively (the
    exp shape, no underflow) and — for the narrow bands — absolutely (the normalising sum).  Likelihoods repeating
    that of an arbitrary earlier unique (any distance apart in the sorted table), ties on a coarse grid, NaN/+inf
    variants and uniques without variants are mixed in at low rates.
    shape "tall": R variant rows owned by only 2-12 unique functions (hundreds of variants per unique)."""
    npar = rng.choice([0, 1, 1, 2])
    width = rng.choice([0.25, 1.0, 4.0, 4.0, 20.0, 60.0, 250.0])
    base = rng.choice([-30.0, 0.0, 50.0, 1000.0])
    p_dup = rng.choice([0.02, 0.1, 0.3])
    p_nan = rng.choice([0.0, 0.01, 0.05])
    p_inf = rng.choice([0.0, 0.0, 0.01])
    p_novar = rng.choice([0.0, 0.01])
    p_more = rng.choice([0.0, 0.1, 0.3])
    step = width / 64.0 if rng.random() < 0.25 else 0.0           # coarse grid: exact DL ties between uniques
    rows, seen_nll = [], []

    def variant(u, d, lead):
        cl = 0.25 * rng.randint(0, 40)
        af = rng.uniform(0.0, 12.0)
        nll = _t7(d - cl - af)
        if lead and seen_nll and rng.random() < p_dup:
            nll = rng.choice(seen_nll)                               # an earlier unique's exact likelihood, another DL
            cl = d - nll - af
        r = rng.random()
        if r < p_nan:
            j = rng.randrange(3)
            nll, cl, af = [NAN if i == j else x for i, x in enumerate((nll, cl, af))]
        elif r < p_nan + p_inf:
            cl = INF
        elif lead:
            seen_nll.append(nll)
        rows.append([u, _t7(nll), _t7(cl), float(af), [_t7(rng.choice([0.0, rng.uniform(-9, 9)])) for _ in range(npar)]])

    def target():
        return base + (step * rng.randint(0, 64) if step else width * rng.random())

    if shape == "tall":
        U = rng.randint(2, 12)
        for _ in range(R):
            variant(rng.randrange(U), target(), False)
    else:
        U = R
        for u in range(U):
            if rng.random() < p_novar:
                continue
            d = target()
            nv = 1
            while nv < 4 and rng.random() < p_more:
                nv += 1
            best = rng.randrange(nv)
            for k in range(nv):
                variant(u, d if k == best else d + rng.choice([0.0, rng.uniform(0.0, 5.0)]), k == best)
    while len(rows) < 2:
        rows.append([rng.randrange(U), 1.0, 2.0, 3.0, [0.0] * npar])
    if shape == "tall" or rng.random() < 0.5:
        rng.shuffle(rows)
    return dict(U=U, npar=npar, rows=rows)


def long_plan(rng, deep):
    """[(shape, R)]: one size per octave, so that EVERY position up to the largest size is reached by a row of some
    table on every seed (a size-dependent cut at position T shows on any table with more than T rows)."""
    top = 11 if deep else 9                                        # octaves up to 10*2**11 = 20480 / 10*2**9 = 5120
    plan = [("long", rng.randint(10 * 2 ** k + 1, 10 * 2 ** (k + 1))) for k in range(2, top)]
    plan.append(("long", rng.randint(22000, 24000) if deep else rng.randint(6001, 8000)))   # > 10*2**top rows survive NaN/no-variant losses (< 8 %)
    if deep:
        plan += [("long", rng.randint(41, 5120)) for _ in range(12)]
    plan += [("tall", rng.randint(41, 20000 if deep else 3000)) for _ in range(4 if deep else 2)]
    return plan


def f2b(x):
    return str(struct.unpack("<Q", struct.pack("<d", float(x)))[0])


def b2f(s):
    return struct.unpack("<d", struct.pack("<Q", int(s)))[0]


def table_to_wire(t):
    return dict(U=t["U"], npar=t["npar"], rows=[[r[0], f2b(r[1]), f2b(r[2]), f2b(r[3]), [f2b(p) for p in r[4]]] for r in t["rows"]])


def table_from_wire(w):
    return dict(U=w["U"], npar=w["npar"], rows=[[r[0], b2f(r[1]), b2f(r[2]), b2f(r[3]), [b2f(p) for p in r[4]]] for r in w["rows"]])


def op_line(op, t, P):
    return " ".join([op, str(P), str(t["U"]), str(t["npar"])] +
                    [",".join([str(r[0]), f2b(r[1]), f2b(r[2]), f2b(r[3])] + [f2b(p) for p in r[4]]) for r in t["rows"]])


def write_table(d, t, comp=COMP):
    """The files combine_DL.main reads, in the formats the earlier stages write them."""
    fn = os.path.join(d, "fn", "compl_%d" % comp)
    os.makedirs(fn)
    os.makedirs(os.path.join(d, "out", "o"))            # out/t is left for get_functions to create
    with open(os.path.join(fn, "unique_equations_%d.txt" % comp), "w") as fh:
        fh.write("".join("u%d\n" % u for u in range(t["U"])))
    with open(os.path.join(fn, "all_equations_%d.txt" % comp), "w") as fh:
        fh.write("".join("v%d\n" % j for j in range(len(t["rows"]))))
    with open(os.path.join(fn, "aifeyn_%d.txt" % comp), "w") as fh:          # generator.py: print(aifeyn_complexity(...), file=f)
        fh.write("".join("%r\n" % float(r[3]) for r in t["rows"]))
    with open(os.path.join(d, "out", "o", "codelen_matches_comp%d.dat" % comp), "w") as fh:   # match.py: np.savetxt(fmt='%.7e')
        for r in t["rows"]:
            fh.write(" ".join("%.7e" % v for v in [r[1], r[2], float(r[0])] + r[4]) + "\n")


def _pf(s):
    return float(s)


def read_outputs(d, t, comp=COMP):
    """dict(error=…) | dict(final=[…], mins=[…]) parsed from the files the real run left."""
    o = os.path.join(d, "out", "o")
    if os.path.exists(os.path.join(d, "error.txt")):
        return dict(error=open(os.path.join(d, "error.txt")).read())
    fin = os.path.join(o, "final_%d.dat" % comp)
    if not os.path.exists(fin):
        return dict(error="no final file")
    final = []
    with open(fin, newline="") as fh:
        for row in csv.reader(fh, delimiter=";"):
            final.append(dict(rank=int(row[0]), fcn=row[1], dl=_pf(row[2]), prel=_pf(row[3]), nll=_pf(row[4]),
                              codelen=_pf(row[5]), aifeyn=_pf(row[6]), params=[_pf(x) for x in row[7:]]))
    mins = []
    fl = open(os.path.join(o, "combine_DL_fcn_comp%d.dat" % comp)).read().splitlines()
    dl = [l.split() for l in open(os.path.join(o, "combine_DL_comp%d.dat" % comp)).read().splitlines()]
    if len(fl) == len(dl):
        for f, l in zip(fl, dl):
            v = [_pf(x) for x in l]
            n = t["npar"]
            mins.append(dict(dl=v[0], params=v[1:1 + n], fcn=f, nll=v[1 + n], codelen=v[2 + n], aifeyn=v[3 + n]))
    else:
        mins = None
    return dict(final=final, mins=mins)


# ----------------------------------------------------------------------------------------------
# running the real code (all ranks), in batches
# ----------------------------------------------------------------------------------------------

def run_real(ctx, jobs, tag, width=8, batch=80, timeout=120.0):
    """jobs = [(table, P)] -> list of read_outputs dicts (same order)."""
    import mpirun
    root = os.path.join(ctx.tmp, "c06_%s" % tag)
    if os.path.isdir(root):
        shutil.rmtree(root)
    os.makedirs(root)
    dirs = []
    byP = {}
    for k, (t, P) in enumerate(jobs):
        d = os.path.join(root, "t%05d" % k)
        write_table(d, t)
        dirs.append(d)
        byP.setdefault(P, []).append(k)
    launches = []
    for P, ks in sorted(byP.items()):
        for a in range(0, len(ks), batch):
            launches.append((P, ks[a:a + batch]))
    if batch == 1:                                            # long tables: one launch each, the longest first
        launches.sort(key=lambda l: -len(jobs[l[1][0]][0]["rows"]))
    worker = os.path.join(common.HARNESS, "workers", "c06_combine.py")
    errors = {}

    def launch(item):
        n, (P, ks) = item
        jf = os.path.join(root, "job%04d.json" % n)
        json.dump(dict(comp=COMP, dirs=[dirs[k] for k in ks]), open(jf, "w"))
        sd = os.path.join(root, "so%04d" % n)
        os.makedirs(sd)
        res = mpirun.run(P, [worker, jf], env_extra=ctx.env(), cwd=ctx.stage, python=common.PY, timeout=timeout, stdout_dir=sd)
        shutil.rmtree(res.get("tmp", ""), ignore_errors=True)
        if not res["ok"]:
            tail = ""
            try:
                tail = open(res["stdout"][0]).read()[-600:]
            except Exception:
                pass
            for k in ks:
                errors[k] = "launch failed: %s exit=%s %s" % (res.get("error"), res.get("exit_codes"), tail)

    with ThreadPoolExecutor(max_workers=width) as ex:
        list(ex.map(launch, enumerate(launches)))
    outs = []
    for k, (t, P) in enumerate(jobs):
        if k in errors and not os.path.exists(os.path.join(dirs[k], "out", "o", "final_%d.dat" % COMP)):
            outs.append(dict(error=errors[k]))
        else:
            outs.append(read_outputs(dirs[k], t))
    shutil.rmtree(root, ignore_errors=True)
    return outs


# ----------------------------------------------------------------------------------------------
# independent oracle: the property statement, on the real output
# ----------------------------------------------------------------------------------------------

def _same(a, b):
    return (a != a and b != b) or (a == b and math.copysign(1, a) == math.copysign(1, b)) if isinstance(a, float) else a == b


def oracle(t, final):
    """[(kind, message)] — empty iff the property's statement holds for this table and this final table."""
    bad = []
    rows = t["rows"]
    dls = [(r[1] + r[2]) + r[3] for r in rows]
    var = {}
    for j, r in enumerate(rows):
        var.setdefault(r[0], []).append(j)
    expect = {}
    for u in range(t["U"]):
        good = [dls[j] for j in var.get(u, []) if dls[j] == dls[j]]
        if good:
            expect[u] = min(good)
    if any(d == -INF for d in dls):
        return [("excluded", "a description length is -inf (outside the property's domain as designed)")]
    name2j = {"v%d" % j: j for j in range(len(rows))}
    seen = {}
    for i, f in enumerate(final):
        j = name2j.get(f["fcn"])
        u = rows[j][0] if j is not None else None
        seen.setdefault(u, []).append(i)
    for u, m in expect.items():
        n = len(seen.get(u, []))
        if n != 1:
            bad.append(("appears-once", "unique %d (min DL %r) appears %d times in the final table" % (u, m, n)))
            continue
        f = final[seen[u][0]]
        if not (f["dl"] == m):
            bad.append(("row-is-min", "unique %d listed with DL %r, the minimum over its non-NaN variants is %r" % (u, f["dl"], m)))
        elif math.isfinite(m):
            j = name2j[f["fcn"]]
            r = rows[j]
            if dls[j] != m:
                bad.append(("row-variant", "unique %d: row shows variant %s whose DL %r is not the minimum %r" % (u, f["fcn"], dls[j], m)))
            elif not (_same(f["nll"], r[1]) and _same(f["codelen"], r[2]) and _same(f["aifeyn"], r[3])
                      and len(f["params"]) == len(r[4]) and all(_same(a, b) for a, b in zip(f["params"], r[4]))):
                bad.append(("row-fields", "unique %d: terms/parameters shown are not those of variant %s" % (u, f["fcn"])))
    for i, f in enumerate(final):
        if f["rank"] != i:
            bad.append(("ranks", "row %d carries rank %d" % (i, f["rank"])))
            break
    for i in range(len(final) - 1):
        if not (final[i]["dl"] <= final[i + 1]["dl"]):
            bad.append(("order", "rows %d,%d: DL %r then %r" % (i, i + 1, final[i]["dl"], final[i + 1]["dl"])))
            break
    # relative probabilities
    if final:
        anyfinite = any(math.isfinite(f["dl"]) for f in final)
        neg = [i for i, f in enumerate(final) if not (f["prel"] >= 0.0)]
        if neg:
            bad.append(("prel-nonneg", "Prel of row %d is %r (not >= 0)%s" % (neg[0], final[neg[0]]["prel"],
                        "" if anyfinite else "; no description length in the table is finite")))
        dup = _repeats([f["nll"] for f in final])
        for i, f in enumerate(final):
            if dup[i] and not neg and f["prel"] != 0.0:
                bad.append(("prel-dup", "row %d repeats an earlier likelihood %r but has Prel %r" % (i, f["nll"], f["prel"])))
                break
        if anyfinite and not neg:
            d0 = final[0]["dl"]
            w = [0.0 if dup[i] else _expneg(f["dl"] - d0) for i, f in enumerate(final)]
            s = math.fsum(w)
            tot = math.fsum(f["prel"] for f in final)
            if not abs(tot - 1.0) <= 1e-9:
                bad.append(("prel-sum", "Prel sums to %r although a description length is finite" % tot))
            elif s > 0 and math.isfinite(s):
                off = [i for i, f in enumerate(final) if not _close(f["prel"], w[i] / s, 1e-9)]
                if off:
                    i = off[0]
                    msg = "row %d: Prel %r, expected exp(-(DL-DL0))/sum = %r" % (i, final[i]["prel"], w[i] / s)
                    zero = [j for j in off if final[j]["prel"] == 0.0]
                    if len(off) > 1:
                        msg += "; %d of %d rows differ" % (len(off), len(final))
                    if zero and zero[0] != i:
                        j = zero[0]
                        msg += "; first row with Prel 0 that repeats no earlier likelihood: row %d (DL-DL0 = %r, expected %r)" % (
                            j, final[j]["dl"] - d0, w[j] / s)
                    bad.append(("prel-shape", msg))
    return bad


def _repeats(xs):
    """[x_i == x_j for some j < i] — float `==` (NaN equals nothing, the two zeros are equal), in linear time."""
    seen, out = set(), []
    for x in xs:
        if x != x:
            out.append(False)
            continue
        out.append(x in seen)          # hash(0.0) == hash(-0.0) and 0.0 == -0.0: set membership is `==` on non-NaN floats
        seen.add(x)
    return out


def _expneg(x):
    try:
        return math.exp(-x)
    except OverflowError:
        return INF


def _close(a, b, rel):
    if a != a or b != b:
        return a != a and b != b
    if a == b:
        return True
    return abs(a - b) <= rel * max(abs(a), abs(b)) or max(abs(a), abs(b)) < 1e-290


# ----------------------------------------------------------------------------------------------
# model vs code
# ----------------------------------------------------------------------------------------------

def compare_final(real, line, t):
    """None if the model's line equals the real final table, else a description."""
    if "error" in real:
        return None if line == "err" else "code raised (%s), model gives %s" % (real["error"][:80], line[:60])
    if line == "err":
        return "model says IndexError, code produced %d rows" % len(real["final"])
    body = line[3:] if line.startswith("ok ") else ("" if line == "ok" else None)
    if body is None:
        return "model output unreadable: %s" % line[:60]
    mrows = [x.split(",") for x in body.split(";")] if body else []
    if len(mrows) != len(real["final"]):
        return "row count: code %d model %d" % (len(real["final"]), len(mrows))
    for i, (m, f) in enumerate(zip(mrows, real["final"])):
        j = int(m[2][1:]) if m[2].startswith("v") else None
        if int(m[0]) != f["rank"] or m[2] != f["fcn"]:
            return "row %d: code (rank %d, %s) model (rank %s, %s)" % (i, f["rank"], f["fcn"], m[0], m[2])
        if j is not None and t["rows"][j][0] != int(m[1]):
            return "row %d: model's unique index %s is not the owner of %s" % (i, m[1], m[2])
        for nm, k in (("dl", 3), ("nll", 5), ("codelen", 6), ("aifeyn", 7)):
            if not _same(b2f(m[k]), f[nm]):
                return "row %d %s: code %r model %r" % (i, nm, f[nm], b2f(m[k]))
        mp = [b2f(x) for x in m[8:]]
        if len(mp) != len(f["params"]) or not all(_same(a, b) for a, b in zip(mp, f["params"])):
            return "row %d params: code %r model %r" % (i, f["params"], mp)
        if not _close(b2f(m[4]), f["prel"], 1e-12 + 4.5e-16 * len(mrows)):
            return "row %d Prel: code %r model %r" % (i, f["prel"], b2f(m[4]))
        if (b2f(m[4]) == 0.0) != (f["prel"] == 0.0) and max(abs(b2f(m[4])), abs(f["prel"])) > 1e-300:
            return "row %d Prel zero-ness: code %r model %r" % (i, f["prel"], b2f(m[4]))
    return None


def compare_mins(real, line, t):
    if "error" in real:
        return None
    if real["mins"] is None:
        return "combine_DL_comp and combine_DL_fcn_comp have different numbers of lines"
    if not line.startswith("ok"):
        return "model gives %s" % line[:40]
    body = line[3:]
    mrows = [x.split(",") for x in body.split(";")] if body else []
    if len(mrows) != len(real["mins"]):
        return "per-unique rows: code %d model %d" % (len(real["mins"]), len(mrows))
    for u, (m, f) in enumerate(zip(mrows, real["mins"])):
        if m[1] != f["fcn"]:
            return "unique %d: code variant %s model %s" % (u, f["fcn"], m[1])
        vals = [b2f(m[0]), b2f(m[2]), b2f(m[3]), b2f(m[4])]
        if not all(_same(a, b) for a, b in zip(vals, [f["dl"], f["nll"], f["codelen"], f["aifeyn"]])):
            return "unique %d: code %r model %r" % (u, [f["dl"], f["nll"], f["codelen"], f["aifeyn"]], vals)
        mp = [b2f(x) for x in m[5:]]
        if len(mp) != len(f["params"]) or not all(_same(a, b) for a, b in zip(mp, f["params"])):
            return "unique %d params: code %r model %r" % (u, f["params"], mp)
    return None


def features(t, real):
    rows = t["rows"]
    dls = [(r[1] + r[2]) + r[3] for r in rows]
    var = {}
    for j, r in enumerate(rows):
        var.setdefault(r[0], []).append(j)
    f = set()
    if any(u not in var for u in range(t["U"])):
        f.add("unique-without-variant")
    if any(all(dls[j] != dls[j] for j in js) for js in var.values()):
        f.add("all-NaN-unique(guard l.75)")
    if any(d != d for d in dls):
        f.add("NaN")
    if any(d == INF for d in dls):
        f.add("+inf")
    for js in var.values():
        good = [dls[j] for j in js if dls[j] == dls[j]]
        if good and good.count(min(good)) > 1:
            f.add("tie-within-unique")
        if good and min(good) == INF and dls[js[0]] != dls[js[0]]:
            f.add("nanargmin-picks-NaN-variant")
    if "final" in real:
        d = [x["dl"] for x in real["final"]]
        if len(set(d)) < len(d):
            f.add("tie-between-uniques")
        n = [x["nll"] for x in real["final"]]
        if any(_repeats(n)):
            f.add("duplicate-likelihood(l.157)")
        if not d:
            f.add("empty-final(l.143,181)")
        elif d[0] == INF:
            f.add("all-DL-infinite")
    else:
        f.add("raises")
    return f


def shrink(ctx, t, P, kinds):
    """Smallest prefix of the unique functions (rows of uniques < m, U = m) on which the real code still breaks the
    property in one of `kinds` — found by bisection, every candidate judged by the oracle on a real run.
    Returns (table, P, note); the input itself when no smaller failing prefix is confirmed."""
    def cut(m):
        return dict(U=m, npar=t["npar"], rows=[r for r in t["rows"] if r[0] < m])

    def fails(c, p):
        if len(c["rows"]) < 2:
            return False
        real = run_real(ctx, [(c, p)], "shrink", batch=1, timeout=900.0)[0]
        return "final" in real and any(k in kinds for k, _ in oracle(c, real["final"]))

    lo, hi = 2, t["U"]                       # invariant: cut(hi) fails; cut(lo) is not known to
    if fails(cut(lo), P):
        hi = lo
    while hi - lo > 1:
        mid = (lo + hi) // 2
        if fails(cut(mid), P):
            hi = mid
        else:
            lo = mid
    best, note = cut(hi), ""
    if hi < t["U"]:
        note = "; shrunk from %d unique functions: with the first %d the property still fails, %s" % (
            t["U"], hi, "with the first %d it holds" % (hi - 1) if hi > 2 else "the smallest admissible number")
    if P > 1 and fails(best, 1):
        P = 1
    return best, P, note


def explore(ctx, n, tag, deep=False, plan=None):
    """n random small tables, or (plan = [(shape, R)]) the large tables of `long_plan`."""
    rng = ctx.rng
    jobs = []
    for shape, R in (plan or []):
        t = gen_long(rng, R, shape)
        jobs.append((t, rng.choice([1, 1, 1, 2, 3, 5]) if R <= 8000 else rng.choice([1, 2, 4])))
    n = len(jobs) if plan else n
    for k in range(0 if plan else n):
        r = rng.random()
        mode = "allinf" if r < 0.012 else "allnan" if r < 0.024 else "one-row" if r < 0.030 else "no-row" if r < 0.034 else "one-unique" if r < 0.044 else "normal"
        t = gen_table(rng, mode)
        P = rng.choice([1, 1, 1, 2, 3, 4, 5]) if rng.random() < 0.8 else rng.choice([2, 3, 4, 5])
        if rng.random() < 0.1 and t["U"] <= 4:
            P = 5                                                    # P > number of uniques
        if deep and rng.random() < 0.007:
            P = rng.choice([11, 12])                                 # two-digit rank numbers in the per-rank file names (sort -V)
        jobs.append((t, P))
    outs = run_real(ctx, jobs, tag, batch=1, timeout=900.0) if plan else run_real(ctx, jobs, tag)
    lines = common.model([op_line("rank", t, P) for t, P in jobs] + [op_line("rankmins", t, P) for t, P in jobs])
    nbad = 0
    feat = {}
    dist = dict(P={}, U={}, rows={}, final_rows={})
    for k, ((t, P), real) in enumerate(zip(jobs, outs)):
        wire = dict(table=table_to_wire(t), P=P)
        key = hashlib.sha1(json.dumps(wire, sort_keys=True).encode()).hexdigest()[:16]
        nfinal = len(real.get("final", []))
        ctx.case(key, nontrivial=nfinal >= 2)
        for f in features(t, real):
            feat[f] = feat.get(f, 0) + 1
        if P > t["U"]:
            feat["P>U"] = feat.get("P>U", 0) + 1
        if plan:
            feat["large:" + plan[k][0]] = feat.get("large:" + plan[k][0], 0) + 1
            ctx.extra.setdefault("large_tables", []).append(dict(shape=plan[k][0], U=t["U"], variant_rows=len(t["rows"]),
                                                                  final_rows=nfinal, P=P))
        for nm, v in (() if plan else (("P", P), ("U", t["U"]), ("rows", len(t["rows"])), ("final_rows", nfinal))):
            dist[nm][v] = dist[nm].get(v, 0) + 1
        if "error" in real and len(t["rows"]) >= 2:
            ctx.disagree("corr:run", "real run failed on a table with %d rows, P=%d: %s" % (len(t["rows"]), P, real["error"][:300]))
            ctx.fail("raises@combine_DL.main", "combine_DL.main raised / hung on an admissible table (P=%d): %s" % (P, real["error"][:200]), wire)
            nbad += 1
            continue
        d1 = compare_final(real, lines[k], t)
        d2 = compare_mins(real, lines[n + k], t)
        if d1 or d2:
            nbad += 1
            ctx.disagree("corr:combine_DL.main", dict(what=d1 or d2, P=P, op=op_line("rank", t, P)[:1500]))
        if "final" in real:
            bad = [b for b in oracle(t, real["final"]) if b[0] != "excluded"]
            if bad and plan and not any(f["key"] == "%s@combine_DL.main" % b[0] for f in ctx.failures for b in bad):
                # a large failing table: report the smallest failing prefix of it (judged again on the real code)
                t2, P2, note = shrink(ctx, t, P, set(b[0] for b in bad))
                if note or P2 != P:
                    real2 = run_real(ctx, [(t2, P2)], "shrunk", batch=1, timeout=900.0)[0]
                    bad2 = [b for b in oracle(t2, real2.get("final", [])) if b[0] != "excluded"] if "final" in real2 else []
                    if bad2:
                        t, P, bad = t2, P2, [(k_, m_ + note) for k_, m_ in bad2]
                        wire = dict(table=table_to_wire(t), P=P)
            for kind, msg in bad:
                ctx.fail("%s@combine_DL.main" % kind, "%s (U=%d, %d variant rows, P=%d)" % (msg, t["U"], len(t["rows"]), P), wire)
        if k < 3:
            ctx.sample(dict(P=P, U=t["U"], variant_rows=len(t["rows"]),
                            final_head=[[f["rank"], f["fcn"], f["dl"], f["prel"]] for f in real.get("final", [])[:4]],
                            model_head=lines[k][:160]))
    return nbad, feat, dist


def run(ctx):
    drift = extract.drifted(ctx.proof.get("extract", {}), MODELLED)
    deep = (not ctx.quick) or bool(drift)
    ctx.extra["source_drift"] = drift
    n = 40000 if deep else 2400
    if os.environ.get("ESRV_C06_TABLES"):                     # testing aid only (mutation trials of the check itself)
        n = int(os.environ["ESRV_C06_TABLES"])
    kf = common.known_findings(ctx.pid)
    nbad = 0
    feat, dist = {}, {}
    chunk = 4000
    done = 0
    nlarge, large_done = 0, False
    while done < n or not large_done:
        if not large_done and done >= min(chunk, n):
            # the large tables come after the first chunk of small ones (a fault that small tables show is then
            # reported on a small table) and before the rest of a thorough-depth run
            plan = long_plan(ctx.rng, deep)
            b, f, d = explore(ctx, 0, "large", deep, plan=plan)
            nlarge, large_done, m = len(plan), True, 0
        else:
            m = min(chunk, n - done)
            b, f, d = explore(ctx, m, "x%d" % done, deep)
        nbad += b
        for k, v in f.items():
            feat[k] = feat.get(k, 0) + v
        for nm in d:
            for k, v in d[nm].items():
                dist.setdefault(nm, {})[k] = dist.get(nm, {}).get(k, 0) + v
        done += m
        if any(not any(re.fullmatch(e["match"], f["key"]) for e in kf) for f in ctx.failures):
            ctx.notes.append("stopped after %d small and %d large tables: a failing input was found" % (done, nlarge))
            n = done
            break
    ctx.extra["corr_obligations"] = 1
    ctx.extra["corr_discharged"] = int(nbad == 0)
    ctx.extra["correspondence"] = dict(tables=n + nlarge, mismatching=nbad, compared="final_<n>.dat rows (rank, function, DL/terms/params bit-exact, "
                                       "Prel to 1e-12) and combine_DL_comp/fcn_comp rows, model run with the same rank count")
    ctx.extra["branches_hit"] = {k: feat[k] for k in sorted(feat)}
    ctx.extra["input_distribution"] = {nm: {str(k): v for k, v in sorted(d.items())} for nm, d in dist.items()}
    ctx.extra["bounds"] = dict(uniques="2-40 (random small tables); 41-%d in the large tables, one size per octave" % (24000 if deep else 8000),
                               variants_per_unique="0-6 (small tables); up to several hundred in the `tall` large tables "
                                                   "(41-%d variant rows over 2-12 uniques)" % (20000 if deep else 3000),
                               ranks="1-5 (thorough: also 11, 12 rarely)", params="0-3",
                               values="reals (to 1e5), +inf, NaN; no -inf, no -0.0",
                               final_table_positions="every row position below %d is occupied by a probability-carrying row of some table "
                                                     "on every seed" % (20000 if deep else 5120))
    ctx.extra["excluded_points"] = ["a description length of -inf", "no variant row at all / no unique function (IndexError at combine_DL.py:42 / :110; "
                                    "model returns `none`, agreement is checked)"]


def replay(ctx, data):
    rp = data["replay"]
    t = table_from_wire(rp["table"])
    P = rp["P"]
    real = run_real(ctx, [(t, P)], "replay", batch=1, timeout=900.0)[0]
    print("table: U=%d npar=%d P=%d, %d variant rows" % (t["U"], t["npar"], P, len(t["rows"])))

    def show(n):                                               # large tables: head and tail only
        return list(range(n)) if n <= 60 else list(range(20)) + [None] + list(range(n - 8, n))

    for j in show(len(t["rows"])):
        if j is None:
            print("  ...")
            continue
        r = t["rows"][j]
        print("  v%d: unique %d nll=%r codelen=%r aifeyn=%r DL=%r" % (j, r[0], r[1], r[2], r[3], (r[1] + r[2]) + r[3]))
    if "error" in real:
        print("combine_DL.main failed:", real["error"])
        return False
    for i in show(len(real["final"])):
        if i is None:
            print("  ...")
            continue
        f = real["final"][i]
        print("  final:", f["rank"], f["fcn"], "DL=%r Prel=%r nll=%r" % (f["dl"], f["prel"], f["nll"]))
    bad = [b for b in oracle(t, real["final"]) if b[0] != "excluded"]
    for kind, msg in bad:
        print("  property fails [%s]: %s" % (kind, msg))
    return not bad
