"""C15 — a timed-out simplification step is skipped cleanly."""
import json, os, subprocess, concurrent.futures as cf
import common, extract, libgen, oracle_lib

LEAN_MODULE = "ESRVerif.Props.C15"
LEVEL = "proof"
LEVEL_TEXT = ("Lean theorems over a fault model of the time-limited blocks whose shape is regenerated from the source on every run (for each "
              "`with time_limit` block: the state it mutates, what its TimeoutException handler restores, whether another handler can intercept the "
              "timeout first, which multi-list appends it performs): for every fault point in every block the handler leaves the function's string equal "
              "to the committed one, make_changes commits nothing for it, and the committed library triple is unchanged — hence sound whenever it was. "
              "The fault model is tied to the code by deterministic injection of genuine SIGALRM timeouts at every distinct (block, statement) site "
              "of real generation runs (sys.monitoring line events inside ESR's own time_limit), followed by the C03 oracle on the resulting library. "
              "Stale records: a handler that restores string and sympy object but not the chain leaves `chain ++ [nan]`; later blocks of the same call may "
              "commit it (`runCall`); `fault_schedule_sound_with_verifier` proves for every schedule of faults (any number, the same site in every round) "
              "that StepSound steps plus a verifier un-merging every row with a marker not justified by a parameter loss (`nanUnjustified`) end in a C03-sound "
              "row, `verifier_needed` that without the verifier the 2-step schedule of seed C15c publishes an unsound row, and `check_results_shape` "
              "(decide over the regenerated `verifier` table: parse inside the try, handler un-merges, the only skip is the parameter-count test) that "
              "today's check_results is such a verifier. Injection also has a PERSISTENT mode: a (block, statement(+twin in the other arm of a flag "
              "conditional), function selector all/lineage/exact) fault fires in every activation that reaches it - every round, both do_sympy loops, check_results.")
TECHNIQUE = "Lean 4 proof over an extracted fault/effect model + deterministic timeout injection into real generation runs"
RULE = ("one case = one generation run with a timeout delivered before the n-th line event of the k-th time_limit activation; sites are the distinct "
        "(function, with-line, line about to run, previous line) tuples seen in a recording run; or one generation run with a persistent fault "
        "(block, statement line(s), function selector) firing in every activation that reaches it; non-trivial = a fault actually fired; "
        "distinct by site and activation / by persistent fault specification")
EXPLANATION = LEVEL_TEXT
TRUSTED = ["harness/extractors/fault.py (block/handler/effect extraction: may-analysis of the block bodies, must-analysis of what the handlers undo)",
           "harness/extractors/_norm_c15.py (AST normalisations applied before extraction, each effect-preserving for all inputs: N1 canonical names of the "
           "three local lists from the make_changes call; N2 tuple/chained assignment = separate stores; N3 tuple alias of names substituted; N4 loops over "
           "literal tuples / zip of literal tuples unrolled; N5 one level of inlining of straight-line state-changing helpers (module level or closure), "
           "anything else about such a helper is an extraction error; N6 append/extend/insert/`+=`/`L = L + ..` are appends; N7 `del L[n:]`, `L[n:] = []`, "
           "`while len(L) > n: L.pop()` are cuts; N8 min(len(..),..) / min(len(r) for r in (..)) / min(map(len, (..))) is the common length)",
           "library and builtin calls inside the blocks do not change the tracked lists handed to them as elements (`str(sym_fun[i])`, `all_fun.index(str_fun[i])`); "
           "a tracked list handed over whole to anything but a reader builtin or an inlined helper is an extraction error",
           "CPython delivers the Python-level signal handler before the next line of the interrupted frame",
           "persistent faults: the function of an activation is read from the frame as `L[V]` of the enclosing `for V in range(len(L))` loop (ast of the staged "
           "source; `keys[j]` in expand_or_factor); when that cannot be read only the selector `all` fires",
           "Model/Fault.checkRow is a hand model of check_results' per-row decision; the facts tying it to the source are the regenerated `verifier` table "
           "(harness/extractors/fault.py:analyse_verifier) and the persistent-fault runs through the real check_results",
           "faults are injected at line granularity in simplifier.py frames only; interruption points inside sympy callee frames are covered by the model (any statement may fail anywhere) but not injected"]
ASSUMPTIONS = ["soundness of completed (non-interrupted) rewrite steps is C03's hypothesis StepSound, sampled by the oracle",
               "StepSound.interrupted (what an interrupted step leaves in the chain is harmless for exactness or is the marker) and `rewriting never adds "
               "parameters` are hypotheses of fault_schedule_sound_with_verifier, sampled by the persistent-fault injection + C03 oracle"]
# When the translator cannot read today's blocks the committed table stands in as a hand-written fault model; what ties it to
# the code is then the exhaustive dynamic oracle below, which does not use the table at all: a genuine SIGALRM at every distinct
# (block, statement) site of real generation runs (all sites, thorough plan) + completion + the C03 library oracle.
FALLBACK = {'Fault': 'genuine SIGALRM injected at every distinct (block, statement) site of real generation runs (thorough plan: every site, two activations, '
                     'pairs of faults), generation must complete and the resulting library must pass the C03 oracle'}
MODELLED = ["simplifier.py:sympy_simplify", "simplifier.py:expand_or_factor", "simplifier.py:check_results", "simplifier.py:make_changes"]

# persistent-fault campaign: (basis, complexity) -> (lineage selectors at sites next to a recording statement, at other sites, exact selectors too?)
PERSIST_PLAN_QUICK = {("core_maths", 2): (8, 2, False), ("core_maths", 3): (8, 2, False)}
PERSIST_PLAN_DEEP = {("core_maths", 2): (8, 2, True), ("core_maths", 3): (8, 2, False), ("core_maths", 4): (1, 0, False), ("ext_maths", 3): (2, 0, False)}

BASES = {"core_maths": [["x", "a"], ["inv"], ["+", "*", "-", "/", "pow"]],
         "ext_maths": [["x", "a"], ["inv", "sqrt_abs", "square", "exp"], ["+", "*", "-", "/", "pow"]]}


def _run(ctx, copy, tag, basis, compl, spec, timeout=600):
    runname = "verif_" + tag
    env = ctx.env({"ESR_VERIF_BASIS": json.dumps(basis)})
    env["PYTHONPATH"] = os.pathsep.join([common.STANDIN, copy, common.HARNESS])
    outp = os.path.join(copy, "_inj_%s.json" % tag)
    try:
        p = subprocess.run([common.PY, os.path.join(common.HARNESS, "workers", "gen_inject.py"), runname, str(compl), json.dumps(spec), outp],
                           env=env, cwd=copy, capture_output=True, text=True, timeout=timeout)
        rc = p.returncode
        tail = (p.stdout[-300:] + p.stderr[-600:])
    except subprocess.TimeoutExpired:
        rc, tail = "timeout", "generation did not finish within %ds" % timeout
    res = json.load(open(outp)) if os.path.exists(outp) else dict(status="no-output", error=tail, fired=[], log=[])
    res["rc"] = rc
    res["libdir"] = os.path.join(copy, "esr", "function_library", runname)
    return res


def _deliverable(src, line):
    """False for `try:` / `else:` / `finally:` / `except ..:` lines: no instruction of the interrupted frame runs on them, so a real
    signal is never handled "at" them (CPython runs signal handlers at calls and backward jumps); an exception raised from the
    line-event callback there escapes every enclosing handler of the frame (observed on the unchanged tree: `try:` at simplifier.py:443),
    which is an artefact of the injection, not a behaviour of ESR."""
    txt = src[line - 1].strip() if 0 < line <= len(src) else ""
    return not (txt in ("try:", "else:", "finally:") or txt.startswith("except"))


def _sites(rec):
    """distinct (fn, with_line, line, prev_line) -> list of (k, n)"""
    sites = {}
    src = rec.get("_src") or []
    for a in rec["log"]:
        prev = a["with_line"]
        for n, line in enumerate(a["lines"], start=1):
            if not _deliverable(src, line):
                # no instruction of the interrupted frame runs on these lines: a signal cannot be delivered "at" them
                prev = line
                continue
            sites.setdefault((a["fn"], a["with_line"], line, prev), []).append((a["k"], n))
            prev = line
    return sites


def _twins(src_text):
    """line -> lines of the same statement in the other arm of a two-armed conditional (`if expand_fun: X = f(..) else: X = g(..)`):
    a function that is slow at the one is slow at the other, so a persistent fault site is the whole group."""
    import ast
    out = {}
    try:
        tree = ast.parse(src_text)
    except SyntaxError:
        return out
    for n in ast.walk(tree):
        if isinstance(n, ast.If) and n.orelse and len(n.body) == len(n.orelse):
            for a, b in zip(n.body, n.orelse):
                if isinstance(a, ast.Assign) and isinstance(b, ast.Assign) and \
                        [ast.unparse(t) for t in a.targets] == [ast.unparse(t) for t in b.targets]:
                    g = sorted(set(out.get(a.lineno, [a.lineno])) | set(out.get(b.lineno, [b.lineno])))
                    for l in g:
                        out[l] = g
    return out


def _psites(rec, twins):
    """persistent-fault sites: (fn, with_line, (lines..)) -> sorted function strings that reached one of the lines in the recording run.
    Every distinct (block, statement) pair is a site; a statement with twins (see _twins) is in addition a site together with them."""
    src = rec.get("_src") or []
    sites = {}
    for a in rec["log"]:
        for line in set(a["lines"]):
            if not _deliverable(src, line):
                continue
            for grp in {(line,), tuple(twins.get(line, [line]))}:
                sites.setdefault((a["fn"], a["with_line"], grp), set())
                if a.get("fid") is not None:
                    sites[(a["fn"], a["with_line"], grp)].add(a["fid"])
    return {k: sorted(v) for k, v in sites.items()}


def _check_one(ctx, copy, basisname, basis, compl, faults, tag, persist=None):
    if persist is not None:
        res = _run(ctx, copy, tag, basis, compl, dict(mode="inject", persist=persist))
        rp = dict(kind="persist", basis=basisname, compl=compl, persist=persist)
        faults = "persistently (every activation of %s)" % "; ".join(
            "%s block at line %d, statement line(s) %s, functions %s" % (
                p_["fn"], p_["with_line"], p_["lines"],
                "all" if p_["sel"]["kind"] == "all" else "%s of %s" % (p_["sel"]["kind"], p_["sel"]["seed"])) for p_ in persist)
    else:
        res = _run(ctx, copy, tag, basis, compl, dict(mode="inject", faults=faults))
        rp = dict(kind="inject", basis=basisname, compl=compl, faults=faults)
    fired = res.get("fired", [])
    out = dict(fired=fired, fails=[], nfired=res.get("nfired", len(fired)))
    if persist is not None:
        site = "persist:" + ";".join("%s:%s:%s" % (p_["fn"], "+".join(str(l) for l in p_["lines"]), p_["sel"]["kind"]) for p_ in persist)
    else:
        site = ";".join("%s:%d" % (f[2], f[3]) for f in fired) or "none"
    if res["rc"] != 0 or res.get("status") != "ok":
        err = (res.get("error") or "")
        kind = err.split(":")[0] if err else str(res["rc"])
        out["fails"].append(("aborts:%s:%s@%s" % (basisname, kind, site),
                             "generation of %s n=%d aborts when time-limited step(s) %s time out at %s: %s" % (basisname, compl, faults, site, err[:500]), rp))
        return out
    if not fired:
        return out
    fails, st = oracle_lib.check_library(res["libdir"], compl, ctx.rng, npoints=3)
    for f in fails[:2]:
        out["fails"].append(("unsound:%s:%s@%s" % (basisname, f["kind"], site),
                             "library of %s n=%d is unsound after time-limited step(s) %s timed out at %s: %s" % (basisname, compl, faults, site, f["detail"]), rp))
    out["stats"] = st
    return out


def run(ctx):
    drift = extract.drifted(ctx.proof.get("extract", {}), MODELLED)
    deep = (not ctx.quick) or bool(drift)
    ctx.extra["source_drift"] = drift
    copy = common.fresh_copy(ctx, "c15")
    # (basis, complexity, activations per site, max number of ordinary sites (None = all), priority sites only?)
    plan = ([("core_maths", 2, 1, None, False), ("core_maths", 3, 1, 40, False), ("core_maths", 4, 1, 0, True)] if not deep else
            [("core_maths", 2, 2, None, False), ("core_maths", 3, 2, None, False), ("core_maths", 4, 1, None, False), ("ext_maths", 3, 1, None, False),
             ("ext_maths", 4, 1, 60, True)])
    jobs = []
    pjobs = []
    nsites = {}
    try:
        # statements that record something, as the translator reads them (also inside helpers, whatever the spelling)
        from extractors import fault as _fault
        mutl = _fault.mutation_lines(copy)
    except Exception:
        mutl = set()
    for basisname, compl, per_site, max_sites, prio_only in plan:
        rec = _run(ctx, copy, "rec_%s_%d" % (basisname, compl), BASES[basisname], compl, dict(mode="record"))
        if rec.get("status") != "ok":
            ctx.disagree("record-run", "recording run of %s n=%d failed: %s" % (basisname, compl, rec.get("error")))
            continue
        src = open(os.path.join(copy, "esr", "generation", "simplifier.py")).read().splitlines()
        rec["_src"] = src
        sites = _sites(rec)
        nsites["%s:%d" % (basisname, compl)] = dict(activations=rec["activations"], sites=len(sites))
        # priority: a fault right after a statement that records something (append) or right before the next one
        prio = [s_ for s_ in sorted(sites) if ".append(" in src[s_[3] - 1] or ".append(" in src[s_[2] - 1] or "inv_subs_fun[i] =" in src[s_[3] - 1]
                or s_[3] in mutl or s_[2] in mutl]
        rest = [s_ for s_ in sorted(sites) if s_ not in set(prio)]
        ctx.rng.shuffle(rest)
        if max_sites is not None:
            rest = rest[:max_sites]
        for site in prio + rest:
            acts = sites[site]
            for (k, n) in ctx.rng.sample(acts, min(per_site, len(acts))):
                jobs.append((basisname, compl, [[k, n]]))
        if deep:
            # pairs of faults in different activations
            # (only line events at which a signal can really be handled, as for the single faults: see _deliverable)
            allacts = [(a["k"], [n for n, line in enumerate(a["lines"], start=1) if _deliverable(src, line)]) for a in rec["log"]]
            allacts = [(k, ns) for k, ns in allacts if ns]
            for _ in range(40 if len(allacts) >= 2 else 0):
                (k1, n1), (k2, n2) = ctx.rng.sample(allacts, 2)
                jobs.append((basisname, compl, [[k1, ctx.rng.choice(n1)], [k2, ctx.rng.choice(n2)]]))
        # ---- persistent faults: the same function times out at the same statement EVERY time it gets there ----------------
        # (every round of both do_sympy loops, and check_results' own block): one fault per run never shows what the handlers
        # leave behind when the NEXT round cannot repair it either.
        pplan = PERSIST_PLAN_DEEP if deep else PERSIST_PLAN_QUICK
        if (basisname, compl) in pplan:
            nlin_prio, nlin_rest, exact = pplan[(basisname, compl)]
            ps = _psites(rec, _twins("\n".join(src)))
            npers = 0
            for (fn_, wl_, lines_) in sorted(ps):
                fids = list(ps[(fn_, wl_, lines_)])
                ctx.rng.shuffle(fids)
                isprio = len(lines_) > 1 or any(l in mutl or ".append(" in src[l - 1] or (l >= 2 and ".append(" in src[l - 2]) or
                             any(t in src[l - 1] for t in ("str_fun[i] =", "sym_fun[i] =", "inv_subs_fun[i] =")) for l in lines_)
                sels = [dict(kind="all")] + [dict(kind="lineage", seed=[f_]) for f_ in fids[:(nlin_prio if isprio else nlin_rest)]]
                if exact:
                    sels += [dict(kind="exact", seed=[f_]) for f_ in fids[:2]]
                for sel in sels:
                    pjobs.append((basisname, compl, [dict(fn=fn_, with_line=wl_, lines=list(lines_), sel=sel)]))
                    npers += 1
            nsites["%s:%d" % (basisname, compl)]["persistent_sites"] = len(ps)
            nsites["%s:%d" % (basisname, compl)]["persistent_runs"] = npers
    ctx.extra["sites"] = nsites
    fired_sites = set()
    pfired = set()
    with cf.ThreadPoolExecutor(max_workers=14) as ex:
        futs = {ex.submit(_check_one, ctx, copy, b, BASES[b], c, f, "j%d" % i): (b, c, f) for i, (b, c, f) in enumerate(jobs)}
        for i, (b, c, ps_) in enumerate(pjobs):
            futs[ex.submit(_check_one, ctx, copy, b, BASES[b], c, None, "p%d" % i, ps_)] = (b, c, ps_)
        for fu in cf.as_completed(futs):
            b, c, f = futs[fu]
            r = fu.result()
            ctx.case((b, c, json.dumps(f)), nontrivial=bool(r["fired"]))
            if f and isinstance(f[0], dict) and r["fired"]:
                pfired.add((f[0]["fn"], tuple(f[0]["lines"])))
                ctx.extra["persistent_max_timeouts_in_one_run"] = max(ctx.extra.get("persistent_max_timeouts_in_one_run", 0), r.get("nfired", 0))
            for fi in r["fired"]:
                fired_sites.add((fi[2], fi[3]))
            for key, what, rp in r["fails"]:
                ctx.fail(key, what, rp)
            if r["fired"] and not r["fails"]:
                ctx.sample(dict(basis=b, compl=c, fault=f, fired_at=r["fired"][:6], library="sound", rows=r.get("stats", {}).get("rows")), cap=6)
    ctx.extra["fired_sites"] = sorted("%s:%d" % s for s in fired_sites)
    ctx.extra["persistent_fired_sites"] = sorted("%s:%s" % (fn_, "+".join(map(str, ls))) for fn_, ls in pfired)
    ctx.extra["persistent_runs"] = len(pjobs)
    ctx.extra["corr_obligations"] = 1
    ctx.extra["corr_discharged"] = int(not ctx.failures)


def replay(ctx, data):
    rp = data["replay"]
    copy = common.fresh_copy(ctx, "c15r")
    r = _check_one(ctx, copy, rp["basis"], BASES[rp["basis"]], rp["compl"], rp.get("faults"), "replay", persist=rp.get("persist"))
    print("fired (%d timeouts delivered; first ones):" % r.get("nfired", len(r["fired"])), r["fired"][:12])
    for key, what, _ in r["fails"]:
        print(what)
    return not r["fails"]
