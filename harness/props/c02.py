"""C02 — every library function string denotes the tree on the same line."""
import math, os
import numpy as np
import common, extract, libgen, oracle_tree

LEAN_MODULE = "ESRVerif.Props.C02"
LEVEL = "other"
LEVEL_TEXT = ("Partial proof. Proved in Lean for trees of any depth: the string node_to_string emits, read by the Python expression grammar "
              "(the executable parser proved sound and complete in C12), is exactly the tree's own call/operator structure and has no other reading; "
              "with C12's theorems (printer round trip, the two regenerated symbol tables) this covers every ESR-owned link of the chain "
              "tree -> string -> sympify -> printer -> file -> fitting parser. NOT proved (hypothesis hcanon): that sympy's automatic evaluation under "
              "x>0, a_i real preserves the value. That link and the line alignment of trees_<n>.txt with all_equations_<n>.txt are checked on every run: "
              "every line of the explored libraries is evaluated by an independent prefix-tree evaluator and by lambdify of the stored string parsed with "
              "EACH of the two real symbol tables, at generic points, finite values only.")
TECHNIQUE = "Lean 4 proof of the node_to_string/grammar round trip + per-line numeric conformance of tree vs string under both symbol tables"
RULE = ("one case = one line of trees_<n>.txt / all_equations_<n>.txt evaluated at 6 generic points under the two symbol tables; non-trivial = the tree has an "
        "operator node and at least one point where tree and string are finite; distinct by (basis, complexity, line)")
EXPLANATION = LEVEL_TEXT
TRUSTED = ["harness/oracle_tree.py (independent evaluator of ESR's operator semantics: pow/sqrt/log on absolute values)",
           "sympy.lambdify/numpy for evaluating the stored strings", "hand model ESRVerif/Model/NodeString.lean (tied by string-equality correspondence)"]
ASSUMPTIONS = ["hcanon: sympy's canonicalisation preserves the value at generic points (sampled on every line, not proved)",
               "lines whose tree or string is finite at none of the sampled points are counted as never-finite and not compared"]
MODELLED = ["generator.py:node_to_string"]


def _arity_map(basis):
    m = {}
    for a, cls in enumerate(basis):
        for l in cls:
            m[l] = a
    return m


def _corr_node_to_string(ctx, bases, nmax, per_shape):
    from esr.generation import generator as g
    ops, real = [], []
    for name, b in bases:
        am = _arity_map(b)
        for n in range(1, nmax + 1):
            for s in g.get_allowed_shapes(n):
                s = [int(x) for x in s]
                _, _, tree = g.check_tree(np.array(s))
                for _ in range(per_shape):
                    labels = []
                    k = 0
                    for a in s:
                        l = ctx.rng.choice(b[a] + (["2", "-1", "10"] if a == 0 else []))
                        if l == "a":
                            l = "a%d" % k; k += 1
                        labels.append(l)
                    real.append(g.node_to_string(0, tree, labels))
                    ops.append("nodestr %s %s" % (",".join(labels), "".join(map(str, s))))
                    ctx.case(("n2s", tuple(labels)), nontrivial=n >= 2)
    out = common.model(ops)
    bad = [(o, a, m) for o, a, m in zip(ops, real, out) if m != a + " 1"]
    for o, a, m in bad[:4]:
        ctx.disagree("corr:node_to_string", "%s: code=%s model=%s" % (o, a, m))
    if ops:
        ctx.sample(dict(op=ops[-1], code=real[-1], model=out[-1]))
    return len(ops), len(bad)


def _tables(max_param):
    """the two real readings of a stored string: generation stage (sympy_locs + a_i) and fitting stage (run_sympify)"""
    import sympy
    from esr.fitting.sympy_symbols import sympy_locs
    import esr.fitting.likelihood as L
    locs = dict(sympy_locs)
    syms = [sympy.Symbol("a%d" % i, real=True) for i in range(max(max_param, 4))]
    for i, s in enumerate(syms):
        locs["a%d" % i] = s
    x = locs["x"]
    lik = object.__new__(L.Likelihood)

    def gen(s):
        return sympy.sympify(s, locals=locs)

    def fit(s):
        return L.Likelihood.run_sympify(lik, s)[1]
    return x, syms, gen, fit


def _finite(v):
    try:
        v = complex(v)
    except Exception:
        return False
    return math.isfinite(v.real) and math.isfinite(v.imag) and abs(v.imag) <= 1e-9 * max(1.0, abs(v.real))


def _check_library(ctx, runname, basis, libdir, n, max_lines):
    import sympy, warnings
    warnings.filterwarnings("ignore")
    trees = libgen.read_trees(libgen.libfile(libdir, n, "trees"))
    funs = libgen.read_funs(libgen.libfile(libdir, n, "all_equations"))
    rp = dict(kind="library", runname=runname, n=n)
    if len(trees) != len(funs):
        ctx.fail("misaligned:%s:n=%d" % (runname, n), "trees_%d.txt has %d lines, all_equations_%d.txt %d" % (n, len(trees), n, len(funs)), rp)
        return
    x, syms, gen, fit = _tables(4)
    idx = list(range(len(trees)))
    if len(idx) > max_lines:
        ctx.rng.shuffle(idx); idx = sorted(idx[:max_lines])
    pts = [dict([("x", ctx.rng.uniform(0.3, 3.0))] + [("a%d" % k, ctx.rng.choice([-1, 1]) * ctx.rng.uniform(0.3, 3.0)) for k in range(4)]) for _ in range(6)]
    stats = dict(lines=len(idx), compared=0, never_finite=0, unparsable=0)
    cache = {}
    with np.errstate(all="ignore"):
        for i in idx:
            labels, s = trees[i], funs[i]
            try:
                tv = []
                for p in pts:
                    try:
                        tv.append(oracle_tree.eval_labels(labels, basis, p))
                    except (ZeroDivisionError, OverflowError, ValueError):
                        tv.append(float("nan"))
            except oracle_tree.Malformed as e:
                ctx.fail("malformed-tree:%s:n=%d" % (runname, n), "line %d of trees_%d.txt (%s) is not a tree over the basis: %r (%s)" % (i, n, runname, labels, e), dict(rp, line=i))
                continue
            ok = 0
            for tname, reader in (("generation", gen), ("fitting", fit)):
                key = (tname, s)
                if key not in cache:
                    try:
                        e = reader(s)
                        cache[key] = sympy.lambdify([x] + syms[:4], e, modules=["numpy"])
                    except Exception as ex:
                        cache[key] = None
                f = cache[key]
                if f is None:
                    stats["unparsable"] += 1
                    continue
                for p, t in zip(pts, tv):
                    try:
                        v = f(p["x"], p["a0"], p["a1"], p["a2"], p["a3"])
                    except Exception:
                        continue
                    if not (_finite(v) and _finite(t)):
                        continue
                    v = complex(v).real
                    ok += 1
                    if abs(v - t) > 1e-7 * max(1.0, abs(v), abs(t)):
                        ctx.fail("value:%s:n=%d:%s" % (runname, n, tname),
                                 "line %d of %s n=%d: tree %r evaluates to %.12g but the stored string %r read with the %s symbol table gives %.12g at %s" % (
                                     i, runname, n, labels, t, s, tname, v, {k: round(val, 4) for k, val in p.items()}), dict(rp, line=i))
                        break
            nontriv = len(labels) > 1 and ok > 0
            ctx.case((runname, n, i), nontrivial=nontriv)
            if ok:
                stats["compared"] += 1
            else:
                stats["never_finite"] += 1
    ctx.extra.setdefault("libraries", []).append(dict(basis=runname, n=n, **stats))


def _sampled_trees(ctx, bases, count, nlo, nhi):
    """beyond the exhaustively generated libraries: PRNG-drawn trees of higher complexity pushed through the real
    tree -> node_to_string -> initial_sympify (sympify + ESRPrinter) chain, then read back with both symbol tables"""
    import sympy, warnings
    warnings.filterwarnings("ignore")
    from esr.generation import generator as g
    import esr.generation.simplifier as simp
    x, syms, gen, fit = _tables(4)
    shapes = {n: [[int(v) for v in s] for s in g.get_allowed_shapes(n)] for n in range(nlo, nhi + 1)}
    done = 0
    import io, contextlib
    with np.errstate(all="ignore"):
        while done < count:
            name, b = ctx.rng.choice(bases)
            n = ctx.rng.randint(nlo, nhi)
            s = ctx.rng.choice(shapes[n])
            labels, k = [], 0
            for a in s:
                l = ctx.rng.choice(b[a])
                if l == "a":
                    if k >= 3:
                        l = "x"
                    else:
                        l = "a%d" % k; k += 1
                labels.append(l)
            _, _, tree = g.check_tree(np.array(s))
            fstr = g.node_to_string(0, tree, labels)
            try:
                with contextlib.redirect_stdout(io.StringIO()):
                    out, _ = simp.initial_sympify([fstr], max(k, 1), parallel=False, verbose=False)
                stored = out[0]
            except Exception:
                continue
            done += 1
            pts = [dict([("x", ctx.rng.uniform(0.3, 3.0))] + [("a%d" % j, ctx.rng.choice([-1, 1]) * ctx.rng.uniform(0.3, 3.0)) for j in range(4)]) for _ in range(4)]
            tv = []
            for p in pts:
                try:
                    tv.append(oracle_tree.eval_labels(labels, b, p))
                except Exception:
                    tv.append(float("nan"))
            ok = 0
            for tname, reader in (("generation", gen), ("fitting", fit)):
                try:
                    f = sympy.lambdify([x] + syms[:4], reader(stored), modules=["numpy"])
                except Exception:
                    continue
                for p, t in zip(pts, tv):
                    try:
                        v = f(p["x"], p["a0"], p["a1"], p["a2"], p["a3"])
                    except Exception:
                        continue
                    if not (_finite(v) and _finite(t)):
                        continue
                    ok += 1
                    v = complex(v).real
                    if abs(v - t) > 1e-7 * max(1.0, abs(v), abs(t)):
                        ctx.fail("value:sampled:%s:%s" % (name, tname), "tree %r (basis %s): node_to_string %r is stored as %r, which read with the %s symbol table gives %.12g, the tree gives %.12g at %s" % (
                            labels, name, fstr, stored, tname, v, t, {kk: round(val, 4) for kk, val in p.items()}), dict(kind="tree", labels=labels, basis=b, name=name))
                        break
            ctx.case(("sampled", name, tuple(labels)), nontrivial=ok > 0)
    ctx.extra["sampled_trees"] = done


def run(ctx):
    drift = extract.drifted(ctx.proof.get("extract", {}), MODELLED)
    deep = (not ctx.quick) or bool(drift)
    ctx.extra["source_drift"] = drift
    from extractors import shape as shx
    shipped = [(n, b) for n, b, _ in shx.bases(ctx.stage)]
    user = [("user", [["x", "a"], ["cube", "sin", "inv", "sqrt_abs"], ["+", "*", "-", "/", "pow", "pow_abs"]])]
    n, b = _corr_node_to_string(ctx, shipped + user, 6 if deep else 5, 6 if deep else 3)
    ctx.extra["corr_obligations"] = 1
    ctx.extra["corr_discharged"] = int(b == 0)
    ctx.extra["correspondence"] = dict(node_to_string_ops=n, mismatches=b)
    plan = [("core_maths", 5), ("keep_duplicates", 4), ("base10_maths", 4)] if not deep else \
           [("core_maths", 6), ("ext_maths", 5), ("keep_duplicates", 5), ("osc_maths", 5), ("base10_maths", 5), ("base_e_maths", 5)]
    bmap = dict(shipped)
    for rn, nmax in plan:
        r = libgen.generate(ctx, rn, list(range(1, nmax + 1)), P=1, copy="c02_%s" % rn, timeout=1500)
        if not r["ok"]:
            ctx.fail("generation-incomplete:%s" % rn, "generation of %s n<=%d did not complete: %s" % (rn, nmax, r["res"]["error"]), dict(kind="library", runname=rn, n=nmax))
            continue
        for k in range(1, nmax + 1):
            _check_library(ctx, rn, bmap[rn], r["dir"], k, 1500 if not deep else 12000)
    _sampled_trees(ctx, shipped, 1200 if not deep else 12000, 6, 8 if not deep else 9)
    ctx.sample(ctx.extra.get("libraries", [])[-3:])


def replay(ctx, data):
    rp = data["replay"]
    if rp.get("kind") == "tree":
        c2 = common.Ctx("C02", "quick", 0); c2.tmp = ctx.tmp; c2.stage = ctx.stage
        import numpy as _np
        from esr.generation import generator as g
        import esr.generation.simplifier as simp
        s = g.labels_to_shape(rp["labels"], rp["basis"])
        _, _, tree = g.check_tree(_np.array(s))
        fstr = g.node_to_string(0, tree, rp["labels"])
        stored = simp.initial_sympify([fstr], 3, parallel=False, verbose=False)[0][0]
        x, syms, gen, fit = _tables(4)
        import sympy
        bad = False
        for _ in range(6):
            p = dict([("x", c2.rng.uniform(0.3, 3.0))] + [("a%d" % j, c2.rng.choice([-1, 1]) * c2.rng.uniform(0.3, 3.0)) for j in range(4)])
            t = oracle_tree.eval_labels(rp["labels"], rp["basis"], p)
            for reader in (gen, fit):
                v = sympy.lambdify([x] + syms[:4], reader(stored), modules=["numpy"])(p["x"], p["a0"], p["a1"], p["a2"], p["a3"])
                if _finite(v) and _finite(t) and abs(complex(v).real - t) > 1e-7 * max(1.0, abs(t)):
                    print("tree", rp["labels"], "stored as", stored, ": string", v, "tree", t); bad = True
        return not bad
    from extractors import shape as shx
    bmap = {n: b for n, b, _ in shx.bases(ctx.stage)}
    c2 = common.Ctx("C02", "quick", 0); c2.tmp = ctx.tmp; c2.stage = ctx.stage
    r = libgen.generate(c2, rp["runname"], list(range(1, rp["n"] + 1)), P=1, copy="c02r")
    _check_library(c2, rp["runname"], bmap[rp["runname"]], r["dir"], rp["n"], 10 ** 9)
    for f in c2.failures[:5]:
        print(f["what"])
    return not c2.failures
