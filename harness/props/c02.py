"""C02 — every library function string denotes the tree on the same line."""
import math, os, re
import numpy as np
import common, extract, libgen, oracle_tree

LEAN_MODULE = ["ESRVerif.Props.C02", "ESRVerif.Props.C02b"]
LEVEL = "other"
LEVEL_TEXT = ("Partial proof. Proved in Lean for trees of any depth: (syntax, Props/C02) the string node_to_string emits, read by the Python expression grammar "
              "(the executable parser proved sound and complete in C12), is exactly the tree's own call/operator structure and has no other reading; "
              "(semantics, Props/C02b) evaluating that structure under the symbol table regenerated from the source gives the value of the tree under ESR's operator "
              "semantics evalTree (pow u v = |u|^v, sqrt_abs = sqrt|u|, log_abs = log|u|, log10_abs = log|u|/log 10, tenexp = 10^u, inv, square, cube, exp, sin, + - * /): "
              "tree_string_same_value_gen / node_string_same_value_gen(_string) for every tree whose labels are in genVocab (unary inv square cube sqrt_abs log_abs log10_abs "
              "tenexp exp sin Abs, binary + - * / pow, names not bound to a function by the table), at every valuation, over any structure with the RealLike laws and "
              "specialised to the real numbers with no law hypothesis left (Mathlib's rpow/sqrt/log; total conventions x/0 = 0, log 0 = 0 on both sides, and a strict evaluator "
              "that is undefined at zero denominators, log 0 and 0 to a negative power is shown to be extended by it); the same for the fitting table on its own vocabulary "
              "(sqrt, log, pow, inv, square, cube, exp, sin, Abs) and stages_agree_on_tree for the renamed tree; gen_sqrt_label_must_be_excluded shows the vocabulary "
              "restriction is needed. With C12's theorems (printer round trip, the two regenerated symbol tables) this covers every ESR-owned link of the chain "
              "tree -> string -> sympify -> printer -> file -> fitting parser. NOT proved (hypothesis hcanon): that sympy's automatic evaluation under "
              "x>0, a_i real preserves the value. That link and the line alignment of trees_<n>.txt with all_equations_<n>.txt are checked on every run: "
              "every line of the explored libraries is evaluated by an independent prefix-tree evaluator and by lambdify of the stored string parsed with "
              "EACH of the two real symbol tables, at generic points where the tree is finite (a string that is nan, infinite, non-real or unreadable there fails, "
              "after both sides are re-evaluated with 40 digits so that overflow or cancellation does not decide); beyond the generated libraries the same comparison is made on PRNG-drawn trees "
              "of complexity 6-8 and on form-directed trees (every (role in the parent, class of node) pair of sympy's canonical forms that any tree of complexity <= 6, "
              "thorough <= 7, of the shipped bases reaches is exercised by at least 2 (thorough 4) different forms where that many exist, least-complexity witness first), "
              "all pushed through the real node_to_string -> sympify -> ESRPrinter chain. The Lean evalTree of the theorems is itself run over Float on the same trees and "
              "points and compared with that independent evaluator (1e-9 relative, same finite/non-finite class).")
TECHNIQUE = ("Lean 4 proof of the node_to_string/grammar round trip and of tree value = value of the string under both regenerated symbol tables + per-line numeric "
             "conformance of tree vs stored string under both real symbol tables (libraries, PRNG-drawn trees, trees chosen to cover every reachable "
             "role/class pair of the printer's input forms) + Float conformance of the Lean tree evaluator with the oracle")
RULE = ("one case = one line of trees_<n>.txt / all_equations_<n>.txt evaluated at 6 generic points under the two symbol tables; non-trivial = the tree has an "
        "operator node and at least one point where tree and string are finite; distinct by (basis, complexity, line); a drawn or form-directed tree pushed "
        "through the real chain is one case each (3-4 points), distinct by (kind, basis, labels)")
EXPLANATION = LEVEL_TEXT
TRUSTED = ["harness/c02_forms.py (chooses WHICH trees are looked at; no verdict depends on it)", "mpmath / sympy evalf at 40 digits (second evaluation of tree and string at points where the string is not a finite real number in floating point)", "harness/oracle_tree.py (independent evaluator of ESR's operator semantics: pow/sqrt/log on absolute values)",
           "sympy.lambdify/numpy for evaluating the stored strings", "hand model ESRVerif/Model/NodeString.lean: toks/toPy tied by string-equality correspondence with node_to_string, "
           "opSem1/opSem2/evalTreeWith (the property's own definition of a tree's value) tied by Float conformance with harness/oracle_tree.py on every tree the check draws or reads",
           "Lean's Float operations (libm pow/log/exp/sin/sqrt) in the conformance run of evalTree; the theorems themselves are over an abstract RealLike structure and over Mathlib's real numbers",
           "C12's evalPy/applyFn as the model of how sympify applies a symbol-table entry (ESRVerif/Proofs/PrinterSem.lean, tied in C12)"]
ASSUMPTIONS = ["hcanon: sympy's canonicalisation preserves the value at generic points (sampled on every line, not proved)",
               "lines whose tree is finite at none of the sampled points are counted as never-finite and not compared; a point where the tree is finite in floating point but "
               "the string is not a finite real number is compared only if the 40-digit value of the tree confirms the floating-point one (1e-6 relative)",
               "form-directed search: role/class pairs of canonical forms are enumerated with sympy and the staged symbol table for trees of complexity <= 6 (thorough 7) with at most 4 parameters; constant sub-trees with integers beyond 64 and never-finite forms are not extended; pairs first reachable at higher complexity are left to the PRNG-drawn trees",
               "C02b theorems use total real arithmetic on both sides (x/0 = 0, log 0 = 0, Real.rpow); where the oracle raises (singular operation) the Float conformance run does not compare values"]
# tables whose committed version may stand in as a hand-written model when the translator cannot read the source;
# value = the correspondence that then ties it to the code (common.prove / common.decide)
FALLBACK = {'NodeString': "every drawn and library tree: real node_to_string string vs the model's rendering", 'SymTab': 'every library line and sampled tree read back through BOTH real symbol tables vs the independent operator semantics (oracle_tree), itself tied to the Lean evaluator (treeval)'}
MODELLED = ["generator.py:node_to_string"]


def _arity_map(basis):
    m = {}
    for a, cls in enumerate(basis):
        for l in cls:
            m[l] = a
    return m


def _oracle_val(labels, basis, p):
    """value of the tree by the independent oracle; None where the oracle raises (a singular operation: the strict value
    of the tree does not exist there).  Malformed propagates."""
    try:
        return oracle_tree.eval_labels(labels, basis, p)
    except (ZeroDivisionError, OverflowError, ValueError):
        return None


def _tie_evaltree(ctx, items, where):
    """Lean `evalTreeWith` (the evaluator of the C02b theorems, run over Float by the driver op `treeval`) against
    oracle_tree on the same trees and points.  items: (labels, arities, env, oracle value | None if the oracle raised).
    Where the oracle returns a value: same finite/non-finite class, finite values equal to 1e-9 relative.  Where the
    oracle raises, IEEE arithmetic goes on with inf/nan (1/inf = 0 is finite again): counted, not compared."""
    st = ctx.extra.setdefault("evalTree_tie", dict(evaluations=0, compared_finite=0, both_nonfinite=0, oracle_raised=0,
                                                   oracle_raised_model_finite=0, mismatches=0, trees=0))
    if not items:
        return 0
    ops = ["treeval %s %s %s" % (",".join(l), "".join(str(a) for a in ar),
                                 ",".join("%s:%s" % (k, common.f2b(v)) for k, v in sorted(env.items())))
           for l, ar, env, _ in items]
    out = common.model(ops)
    bad = 0
    st["trees"] += len(set(tuple(i[0]) for i in items))
    for (labels, ar, env, t), o, m in zip(items, ops, out):
        st["evaluations"] += 1
        if not m.isdigit():
            bad += 1
            if bad <= 3:
                ctx.disagree("corr:evalTree", "%s: %s: model answers %r, oracle %r" % (where, o, m, t))
            continue
        v = common.b2f(m)
        if t is None:
            st["oracle_raised"] += 1
            st["oracle_raised_model_finite"] += int(math.isfinite(v))
            continue
        t = float(t)
        if math.isfinite(t) and math.isfinite(v):
            ok = abs(v - t) <= 1e-9 * max(abs(v), abs(t)) + 1e-12
            st["compared_finite"] += 1
        else:
            ok = (not math.isfinite(t)) and (not math.isfinite(v))
            st["both_nonfinite"] += int(ok)
        if not ok:
            bad += 1
            if bad <= 3:
                ctx.disagree("corr:evalTree", "%s: tree %r at %s: Lean evalTree %r, oracle_tree %r" % (
                    where, labels, {k: round(val, 6) for k, val in env.items()}, v, t))
    st["mismatches"] += bad
    return bad


def _point(ctx, nparam):
    return dict([("x", ctx.rng.uniform(0.3, 3.0))] + [("a%d" % k, ctx.rng.choice([-1, 1]) * ctx.rng.uniform(0.3, 3.0)) for k in range(nparam)])


def _corr_node_to_string(ctx, bases, nmax, per_shape):
    from esr.generation import generator as g
    ops, real, tie = [], [], []
    for name, b in bases:
        am = _arity_map(b)
        for n in range(1, nmax + 1):
            for s in g.get_allowed_shapes(n):
                s = [int(x) for x in s]
                _, _, tree = g.check_tree(np.array(s))
                for _ in range(per_shape):
                    labels = []
                    k = 0
                    for a in s:
                        l = ctx.rng.choice(b[a] + (["2", "-1", "10"] if a == 0 else []))
                        if l == "a":
                            l = "a%d" % k; k += 1
                        labels.append(l)
                    real.append(g.node_to_string(0, tree, labels))
                    ops.append("nodestr %s %s" % (",".join(labels), "".join(map(str, s))))
                    ctx.case(("n2s", tuple(labels)), nontrivial=n >= 2)
                    for _ in range(2):
                        p = _point(ctx, max(k, 1))
                        tie.append((labels, s, p, _oracle_val(labels, b, p)))
    tie_bad = _tie_evaltree(ctx, tie, "drawn trees")
    out = common.model(ops)
    bad = [(o, a, m) for o, a, m in zip(ops, real, out) if m != a + " 1"]
    for o, a, m in bad[:4]:
        ctx.disagree("corr:node_to_string", "%s: code=%s model=%s" % (o, a, m))
    if ops:
        ctx.sample(dict(op=ops[-1], code=real[-1], model=out[-1]))
    return len(ops), len(bad), tie_bad


def _tables(max_param):
    """the two real readings of a stored string: generation stage (sympy_locs + a_i) and fitting stage (run_sympify)"""
    import sympy
    from esr.fitting.sympy_symbols import sympy_locs
    import esr.fitting.likelihood as L
    locs = dict(sympy_locs)
    syms = [sympy.Symbol("a%d" % i, real=True) for i in range(max(max_param, 4))]
    for i, s in enumerate(syms):
        locs["a%d" % i] = s
    x = locs["x"]
    lik = object.__new__(L.Likelihood)

    def gen(s):
        return sympy.sympify(s, locals=locs)

    def fit(s):
        return L.Likelihood.run_sympify(lik, s)[1]
    return x, syms, gen, fit


def _finite(v):
    try:
        v = complex(v)
    except Exception:
        return False
    return math.isfinite(v.real) and math.isfinite(v.imag) and abs(v.imag) <= 1e-9 * max(1.0, abs(v.real))


_HP_DIGITS = 40


def _hp_tree(labels, basis, p):
    """second independent evaluator of ESR's operator semantics, 40 significant digits (mpmath) on the exact binary values
    of the point: None where the tree has no finite real value (zero denominator, log 0, 0 to a negative power)"""
    import mpmath
    with mpmath.workdps(_HP_DIGITS):
        def chk(v):
            if not mpmath.isfinite(v):
                raise ValueError("not finite")
            return v

        def nz(v):
            if v == 0:
                raise ZeroDivisionError
            return v

        def powabs(u, v):
            u = abs(u)
            if u == 0:
                if v < 0:
                    raise ZeroDivisionError
                return mpmath.mpf(1) if v == 0 else mpmath.mpf(0)
            return mpmath.power(u, v)
        un = {"inv": lambda u: 1 / nz(u), "square": lambda u: u * u, "cube": lambda u: u * u * u,
              "sqrt": lambda u: mpmath.sqrt(abs(u)), "sqrt_abs": lambda u: mpmath.sqrt(abs(u)),
              "log": lambda u: mpmath.log(abs(nz(u))), "log_abs": lambda u: mpmath.log(abs(nz(u))),
              "log10_abs": lambda u: mpmath.log10(abs(nz(u))), "tenexp": lambda u: mpmath.power(10, u),
              "exp": mpmath.exp, "sin": mpmath.sin, "cos": mpmath.cos, "tan": mpmath.tan, "abs": abs}
        bi = {"+": lambda u, v: u + v, "-": lambda u, v: u - v, "*": lambda u, v: u * v, "/": lambda u, v: u / nz(v),
              "pow": powabs, "pow_abs": powabs}

        def ev(t):
            lab, kids = t[0], t[2:]
            if not kids:
                if lab in p:
                    return mpmath.mpf(p[lab])
                v = oracle_tree.number_value(lab)
                if v is None:
                    raise ValueError("unbound leaf")
                m = re.match(r"(-?\d+)/(\d+)\Z", lab)
                return mpmath.mpf(int(m.group(1))) / int(m.group(2)) if m else mpmath.mpf(lab)
            if len(kids) == 1:
                return chk(un[lab](ev(kids[0])))
            return chk(bi[lab](ev(kids[0]), ev(kids[1])))
        try:
            return chk(ev(oracle_tree.parse(labels, basis)))
        except Exception:
            return None


def _hp_string(expr, p):
    """value of the parsed stored string at the point, 40 digits (sympy evalf on the exact binary values):
    ("real", mpf) | ("other", text) | None if the string has a symbol the point does not bind"""
    import sympy, mpmath
    subs = {}
    for sy in expr.free_symbols:
        if sy.name not in p:
            return None
        subs[sy] = sympy.Float(mpmath.mpf(p[sy.name]), _HP_DIGITS + 10)
    try:
        v = expr.evalf(_HP_DIGITS, subs=subs)
        if not v.is_number or v.free_symbols:
            v = expr.subs(subs).evalf(_HP_DIGITS)
        re_, im_ = v.as_real_imag()
        if v.is_number and v.is_finite and (re_.is_Float or re_.is_Rational):
            if im_ == 0 or abs(im_) <= sympy.Float(10) ** (-_HP_DIGITS + 10) * (1 + abs(re_)):
                return ("real", mpmath.mpf(str(sympy.Float(re_, _HP_DIGITS))))
        return ("other", str(sympy.N(v, 12)))
    except Exception as ex:
        return ("other", "evaluation raises %s" % type(ex).__name__)


def _settle(ctx, labels, basis, p, t, expr):
    """the floating-point value of the tree is finite but the stored string gave no finite real number (nan, inf, a
    non-real value, an exception, or it could not be read at all).  The property speaks of every point where the TREE is
    finite, so this is a violation -- unless floating point is to blame (overflow / cancellation on either side): both
    sides are re-evaluated with 40 digits.  -> None (the tree's finite value is not confirmed, or the point does not bind
    the string's symbols: not compared) | True (equal at 40 digits) | text (what the string gives instead)"""
    import mpmath
    st = ctx.extra.setdefault("string_not_finite_real_where_tree_is", dict(points=0, tree_value_not_confirmed=0, unbound_symbol=0, equal_at_40_digits=0, violations=0))
    st["points"] += 1
    T = _hp_tree(labels, basis, p)
    if T is None or abs(float(T) - t) > 1e-6 * max(1.0, abs(t)):
        st["tree_value_not_confirmed"] += 1
        ex = st.setdefault("not_confirmed_examples", [])
        if len(ex) < 4:
            ex.append(dict(tree=list(labels), point={k: round(v, 4) for k, v in p.items()}, float_value=t, value_at_40_digits=(None if T is None else float(T))))
        return None
    if expr is None:
        st["violations"] += 1
        return "cannot be read"
    V = _hp_string(expr, p)
    if V is None:
        st["unbound_symbol"] += 1
        return None
    with mpmath.workdps(_HP_DIGITS):
        if V[0] == "real" and abs(V[1] - T) <= mpmath.mpf(10) ** -7 * max(1, abs(T)):
            st["equal_at_40_digits"] += 1
            return True
    st["violations"] += 1
    return "gives %s" % (mpmath.nstr(V[1], 12) if V[0] == "real" else "no finite real number (%s)" % V[1])


def _string_vs_tree(ctx, labels, basis, pts, tv, expr, f):
    """the property at the given points, one reading of the stored string: -> (points compared, None | (point, tree value,
    what the string gives)).  Points where the tree is not finite are not compared (the property does not speak of them)."""
    ok = 0
    for p, t in zip(pts, tv):
        if not _finite(t):
            continue
        v = None
        if f is not None:
            try:
                v = f(p["x"], p["a0"], p["a1"], p["a2"], p["a3"])
            except Exception:
                v = None
        if v is not None and _finite(v):
            v = complex(v).real
            ok += 1
            if abs(v - t) > 1e-7 * max(1.0, abs(v), abs(t)):
                return ok, (p, t, "gives %.12g" % v)
            continue
        r = _settle(ctx, labels, basis, p, t, expr)
        if r is None:
            continue
        ok += 1
        if r is not True:
            return ok, (p, t, r)
    return ok, None


def _parse_stored(s, reader, x, syms):
    """-> (sympy expression | None if the table cannot read the string, numpy function | None)"""
    import sympy
    try:
        e = reader(s)
    except Exception:
        return None, None
    try:
        return e, sympy.lambdify([x] + syms[:4], e, modules=["numpy"])
    except Exception:
        return e, None


def _check_library(ctx, runname, basis, libdir, n, max_lines):
    import sympy, warnings
    warnings.filterwarnings("ignore")
    trees = libgen.read_trees(libgen.libfile(libdir, n, "trees"))
    funs = libgen.read_funs(libgen.libfile(libdir, n, "all_equations"))
    rp = dict(kind="library", runname=runname, n=n)
    if len(trees) != len(funs):
        ctx.fail("misaligned:%s:n=%d" % (runname, n), "trees_%d.txt has %d lines, all_equations_%d.txt %d" % (n, len(trees), n, len(funs)), rp)
        return
    x, syms, gen, fit = _tables(4)
    idx = list(range(len(trees)))
    if len(idx) > max_lines:
        ctx.rng.shuffle(idx); idx = sorted(idx[:max_lines])
    pts = [dict([("x", ctx.rng.uniform(0.3, 3.0))] + [("a%d" % k, ctx.rng.choice([-1, 1]) * ctx.rng.uniform(0.3, 3.0)) for k in range(4)]) for _ in range(6)]
    stats = dict(lines=len(idx), compared=0, never_finite=0, unparsable=0)
    cache = {}
    tie = []
    with np.errstate(all="ignore"):
        for i in idx:
            labels, s = trees[i], funs[i]
            try:
                raw = [_oracle_val(labels, basis, p) for p in pts]
                tv = [float("nan") if t is None else t for t in raw]
                ar = [oracle_tree.arity(l, basis) for l in labels]
                tie += [(labels, ar, p, t) for p, t in list(zip(pts, raw))[:2]]
            except oracle_tree.Malformed as e:
                ctx.fail("malformed-tree:%s:n=%d" % (runname, n), "line %d of trees_%d.txt (%s) is not a tree over the basis: %r (%s)" % (i, n, runname, labels, e), dict(rp, line=i))
                continue
            ok = 0
            for tname, reader in (("generation", gen), ("fitting", fit)):
                key = (tname, s)
                if key not in cache:
                    cache[key] = _parse_stored(s, reader, x, syms)
                e, f = cache[key]
                if f is None:
                    stats["unparsable"] += 1
                k, bad = _string_vs_tree(ctx, labels, basis, pts, tv, e, f)
                ok += k
                if bad:
                    p, t, what = bad
                    ctx.fail("value:%s:n=%d:%s" % (runname, n, tname),
                             "line %d of %s n=%d: tree %r evaluates to %.12g but the stored string %r read with the %s symbol table %s at %s" % (
                                 i, runname, n, labels, t, s, tname, what, {k2: round(val, 4) for k2, val in p.items()}), dict(rp, line=i))
            nontriv = len(labels) > 1 and ok > 0
            ctx.case((runname, n, i), nontrivial=nontriv)
            if ok:
                stats["compared"] += 1
            else:
                stats["never_finite"] += 1
    stats["evalTree_mismatches"] = _tie_evaltree(ctx, tie, "library %s n=%d" % (runname, n))
    ctx.extra.setdefault("libraries", []).append(dict(basis=runname, n=n, **stats))


def _compare_tree(ctx, kind, name, b, labels, arities, fstr, stored, x, syms, gen, fit, tie, npts=4):
    """the property on ONE tree pushed through the real chain: value of the tree (independent oracle) against the value of
    the stored string under each of the two real symbol tables, at generic points where the tree is finite"""
    import sympy
    pts = [dict([("x", ctx.rng.uniform(0.3, 3.0))] + [("a%d" % j, ctx.rng.choice([-1, 1]) * ctx.rng.uniform(0.3, 3.0)) for j in range(4)]) for _ in range(npts)]
    tv = []
    for p in pts:
        try:
            tv.append(oracle_tree.eval_labels(labels, b, p))
        except Exception:
            tv.append(float("nan"))
    tie.append((labels, arities, pts[0], _oracle_val(labels, b, pts[0])))
    ok = 0
    for tname, reader in (("generation", gen), ("fitting", fit)):
        e, f = _parse_stored(stored, reader, x, syms)
        k, bad = _string_vs_tree(ctx, labels, b, pts, tv, e, f)
        ok += k
        if bad:
            p, t, what = bad
            ctx.fail("value:%s:%s:%s" % (kind, name, tname), "tree %r (basis %s): node_to_string %r is stored as %r, which read with the %s symbol table %s, the tree gives %.12g at %s" % (
                labels, name, fstr, stored, tname, what, t, {kk: round(val, 4) for kk, val in p.items()}), dict(kind="tree", labels=labels, basis=b, name=name))
    ctx.case((kind, name, tuple(labels)), nontrivial=ok > 0)
    return ok


def _sampled_trees(ctx, bases, count, nlo, nhi):
    """beyond the exhaustively generated libraries: PRNG-drawn trees of higher complexity pushed through the real
    tree -> node_to_string -> initial_sympify (sympify + ESRPrinter) chain, then read back with both symbol tables"""
    import sympy, warnings
    warnings.filterwarnings("ignore")
    from esr.generation import generator as g
    import esr.generation.simplifier as simp
    x, syms, gen, fit = _tables(4)
    shapes = {n: [[int(v) for v in s] for s in g.get_allowed_shapes(n)] for n in range(nlo, nhi + 1)}
    done = 0
    tie = []
    import io, contextlib
    with np.errstate(all="ignore"):
        while done < count:
            name, b = ctx.rng.choice(bases)
            n = ctx.rng.randint(nlo, nhi)
            s = ctx.rng.choice(shapes[n])
            labels, k = [], 0
            for a in s:
                l = ctx.rng.choice(b[a])
                if l == "a":
                    if k >= 3:
                        l = "x"
                    else:
                        l = "a%d" % k; k += 1
                labels.append(l)
            _, _, tree = g.check_tree(np.array(s))
            fstr = g.node_to_string(0, tree, labels)
            try:
                with contextlib.redirect_stdout(io.StringIO()):
                    out, _ = simp.initial_sympify([fstr], max(k, 1), parallel=False, verbose=False)
                stored = out[0]
            except Exception:
                continue
            done += 1
            _compare_tree(ctx, "sampled", name, b, labels, s, fstr, stored, x, syms, gen, fit, tie)
    ctx.extra["sampled_trees"] = done
    return _tie_evaltree(ctx, tie, "sampled trees n=%d..%d" % (nlo, nhi))


def _form_directed_trees(ctx, bases, nmax, K, budget):
    """beyond uniform sampling: trees chosen so that every (role in the parent, class of node) pair of sympy's canonical
    forms that ANY tree of complexity <= nmax of the shipped bases reaches is exercised by K different forms
    (harness/c02_forms.py: bottom-up enumeration of all canonical forms, one least witness tree per form).  The chosen
    trees go through the real node_to_string -> initial_sympify (sympify + ESRPrinter) chain and are read back with both
    real symbol tables; the verdict is the property's own statement on the values."""
    import sympy, warnings, io, contextlib, time
    warnings.filterwarnings("ignore")
    import c02_forms
    from esr.generation import generator as g
    import esr.generation.simplifier as simp
    from esr.fitting.sympy_symbols import sympy_locs
    t0 = time.time()
    en = c02_forms.Enumerator(sympy_locs, maxpar=4)
    per, seen_b, complete = [], [], {}
    # largest basis first: the forms of a sub-basis are then memoised
    for name, b in sorted(bases, key=lambda nb: -len(nb[1][1])):
        if b in seen_b:
            continue
        seen_b.append(b)
        E, done = en.forms(b, nmax, deadline=t0 + budget)
        complete[name] = done
        per.append((name, b, E))
    picked, st = c02_forms.cover(per, ctx.rng, K)
    st.update(nmax=nmax, K=K, complete_up_to=complete, operator_applications=en.applications, enumeration_s=round(time.time() - t0, 1))
    x, syms, gen, fit = _tables(4)
    fstrs, ars = [], []
    for name, b, labels, k, n, fs in picked:
        ar = [oracle_tree.arity(l, b) for l in labels]
        _, _, tree = g.check_tree(np.array(ar))
        fstrs.append(g.node_to_string(0, tree, labels))
        ars.append(ar)
    stored, real_sym = None, {}
    try:
        with contextlib.redirect_stdout(io.StringIO()):
            stored, real_sym = simp.initial_sympify(list(fstrs), 4, parallel=False, verbose=False)
    except Exception:
        stored = None
    tie, compared, exercised, by_n = [], 0, set(), {}
    with np.errstate(all="ignore"):
        for i, (name, b, labels, k, n, fs) in enumerate(picked):
            if stored is not None:
                so = stored[i]
            else:
                try:
                    with contextlib.redirect_stdout(io.StringIO()):
                        so = simp.initial_sympify([fstrs[i]], max(k, 1), parallel=False, verbose=False)[0][0]
                except Exception:
                    continue
            e = (real_sym or {}).get(so)
            if e is not None:
                try:
                    exercised |= c02_forms.features(e)
                except Exception:
                    pass
            ok = _compare_tree(ctx, "form", name, b, labels, ars[i], fstrs[i], so, x, syms, gen, fit, tie, npts=3)
            compared += int(ok > 0)
            by_n[n] = by_n.get(n, 0) + 1
    st.update(trees=len(picked), trees_compared=compared, trees_by_complexity={str(k): v for k, v in sorted(by_n.items())},
              pairs_exercised_in_the_real_chain=len(exercised), total_s=round(time.time() - t0, 1))
    ctx.extra["form_directed"] = st
    ctx.sample(dict(form_directed=st))
    return _tie_evaltree(ctx, tie, "form-directed trees n<=%d" % nmax)


def run(ctx):
    drift = extract.drifted(ctx.proof.get("extract", {}), MODELLED)
    deep = not ctx.quick                 # thorough tier: largest libraries and sample counts
    mid = bool(drift) and not deep       # modelled source drifted: wider failing-input search, still minutes not hours
    ctx.extra["source_drift"] = drift
    from extractors import shape as shx
    shipped = [(n, b) for n, b, _ in shx.bases(ctx.stage)]
    user = [("user", [["x", "a"], ["cube", "sin", "inv", "sqrt_abs"], ["+", "*", "-", "/", "pow", "pow_abs"]])]
    n, b, tb = _corr_node_to_string(ctx, shipped + user, 6 if (deep or mid) else 5, 6 if (deep or mid) else 3)
    ctx.extra["corr_obligations"] = 2
    ctx.extra["correspondence"] = dict(node_to_string_ops=n, mismatches=b)
    plan = [("core_maths", 5), ("keep_duplicates", 4), ("base10_maths", 4)] if not (deep or mid) else \
           [("core_maths", 5), ("ext_maths", 4), ("keep_duplicates", 4), ("osc_maths", 4), ("base10_maths", 4), ("base_e_maths", 4)] if mid else \
           [("core_maths", 6), ("ext_maths", 5), ("keep_duplicates", 5), ("osc_maths", 5), ("base10_maths", 5), ("base_e_maths", 5)]
    bmap = dict(shipped)
    for rn, nmax in plan:
        r = libgen.generate(ctx, rn, list(range(1, nmax + 1)), P=(8 if deep else 1), copy="c02_%s" % rn, timeout=3000)
        if not r["ok"]:
            ctx.fail("generation-incomplete:%s" % rn, "generation of %s n<=%d did not complete: %s" % (rn, nmax, r["res"]["error"]), dict(kind="library", runname=rn, n=nmax))
            continue
        for k in range(1, nmax + 1):
            _check_library(ctx, rn, bmap[rn], r["dir"], k, 12000 if deep else 3000 if mid else 1500)
    _sampled_trees(ctx, shipped, 6000 if deep else 3000 if mid else 1200, 6, 9 if deep else 8)
    _form_directed_trees(ctx, shipped, 7 if deep else 6, 4 if (deep or mid) else 2, 1500 if deep else 150)
    tie = ctx.extra.get("evalTree_tie", {})
    ctx.extra["corr_discharged"] = int(b == 0) + int(tie.get("mismatches", 1) == 0 and tie.get("compared_finite", 0) > 0)
    ctx.sample(dict(evalTree_tie=tie))
    ctx.sample(ctx.extra.get("libraries", [])[-3:])


def replay(ctx, data):
    rp = data["replay"]
    if rp.get("kind") == "tree":
        c2 = common.Ctx("C02", "quick", 0); c2.tmp = ctx.tmp; c2.stage = ctx.stage
        import numpy as _np
        from esr.generation import generator as g
        import esr.generation.simplifier as simp
        s = g.labels_to_shape(rp["labels"], rp["basis"])
        _, _, tree = g.check_tree(_np.array(s))
        fstr = g.node_to_string(0, tree, rp["labels"])
        npar = 1 + max([int(l[1:]) for l in rp["labels"] if l[:1] == "a" and l[1:].isdigit()] + [0])
        stored = simp.initial_sympify([fstr], max(npar, 3), parallel=False, verbose=False)[0][0]
        x, syms, gen, fit = _tables(4)
        bad = False
        ar = [oracle_tree.arity(l, rp["basis"]) for l in rp["labels"]]
        with np.errstate(all="ignore"):
            _compare_tree(c2, "replay", rp.get("name", "?"), rp["basis"], rp["labels"], ar, fstr, stored, x, syms, gen, fit, [], npts=8)
        for f in c2.failures[:4]:
            print(f["what"]); bad = True
        return not bad
    from extractors import shape as shx
    bmap = {n: b for n, b, _ in shx.bases(ctx.stage)}
    c2 = common.Ctx("C02", "quick", 0); c2.tmp = ctx.tmp; c2.stage = ctx.stage
    r = libgen.generate(c2, rp["runname"], list(range(1, rp["n"] + 1)), P=1, copy="c02r")
    _check_library(c2, rp["runname"], bmap[rp["runname"]], r["dir"], rp["n"], 10 ** 9)
    for f in c2.failures[:5]:
        print(f["what"])
    return not c2.failures
