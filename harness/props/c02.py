"""C02 — every library function string denotes the tree on the same line."""
import math, os
import numpy as np
import common, extract, libgen, oracle_tree

LEAN_MODULE = ["ESRVerif.Props.C02", "ESRVerif.Props.C02b"]
LEVEL = "other"
LEVEL_TEXT = ("Partial proof. Proved in Lean for trees of any depth: (syntax, Props/C02) the string node_to_string emits, read by the Python expression grammar "
              "(the executable parser proved sound and complete in C12), is exactly the tree's own call/operator structure and has no other reading; "
              "(semantics, Props/C02b) evaluating that structure under the symbol table regenerated from the source gives the value of the tree under ESR's operator "
              "semantics evalTree (pow u v = |u|^v, sqrt_abs = sqrt|u|, log_abs = log|u|, log10_abs = log|u|/log 10, tenexp = 10^u, inv, square, cube, exp, sin, + - * /): "
              "tree_string_same_value_gen / node_string_same_value_gen(_string) for every tree whose labels are in genVocab (unary inv square cube sqrt_abs log_abs log10_abs "
              "tenexp exp sin Abs, binary + - * / pow, names not bound to a function by the table), at every valuation, over any structure with the RealLike laws and "
              "specialised to the real numbers with no law hypothesis left (Mathlib's rpow/sqrt/log; total conventions x/0 = 0, log 0 = 0 on both sides, and a strict evaluator "
              "that is undefined at zero denominators, log 0 and 0 to a negative power is shown to be extended by it); the same for the fitting table on its own vocabulary "
              "(sqrt, log, pow, inv, square, cube, exp, sin, Abs) and stages_agree_on_tree for the renamed tree; gen_sqrt_label_must_be_excluded shows the vocabulary "
              "restriction is needed. With C12's theorems (printer round trip, the two regenerated symbol tables) this covers every ESR-owned link of the chain "
              "tree -> string -> sympify -> printer -> file -> fitting parser. NOT proved (hypothesis hcanon): that sympy's automatic evaluation under "
              "x>0, a_i real preserves the value. That link and the line alignment of trees_<n>.txt with all_equations_<n>.txt are checked on every run: "
              "every line of the explored libraries is evaluated by an independent prefix-tree evaluator and by lambdify of the stored string parsed with "
              "EACH of the two real symbol tables, at generic points, finite values only. The Lean evalTree of the theorems is itself run over Float on the same trees and "
              "points and compared with that independent evaluator (1e-9 relative, same finite/non-finite class).")
TECHNIQUE = ("Lean 4 proof of the node_to_string/grammar round trip and of tree value = value of the string under both regenerated symbol tables + per-line numeric "
             "conformance of tree vs stored string under both real symbol tables + Float conformance of the Lean tree evaluator with the oracle")
RULE = ("one case = one line of trees_<n>.txt / all_equations_<n>.txt evaluated at 6 generic points under the two symbol tables; non-trivial = the tree has an "
        "operator node and at least one point where tree and string are finite; distinct by (basis, complexity, line)")
EXPLANATION = LEVEL_TEXT
TRUSTED = ["harness/oracle_tree.py (independent evaluator of ESR's operator semantics: pow/sqrt/log on absolute values)",
           "sympy.lambdify/numpy for evaluating the stored strings", "hand model ESRVerif/Model/NodeString.lean: toks/toPy tied by string-equality correspondence with node_to_string, "
           "opSem1/opSem2/evalTreeWith (the property's own definition of a tree's value) tied by Float conformance with harness/oracle_tree.py on every tree the check draws or reads",
           "Lean's Float operations (libm pow/log/exp/sin/sqrt) in the conformance run of evalTree; the theorems themselves are over an abstract RealLike structure and over Mathlib's real numbers",
           "C12's evalPy/applyFn as the model of how sympify applies a symbol-table entry (ESRVerif/Proofs/PrinterSem.lean, tied in C12)"]
ASSUMPTIONS = ["hcanon: sympy's canonicalisation preserves the value at generic points (sampled on every line, not proved)",
               "lines whose tree or string is finite at none of the sampled points are counted as never-finite and not compared",
               "C02b theorems use total real arithmetic on both sides (x/0 = 0, log 0 = 0, Real.rpow); where the oracle raises (singular operation) the Float conformance run does not compare values"]
# tables whose committed version may stand in as a hand-written model when the translator cannot read the source;
# value = the correspondence that then ties it to the code (common.prove / common.decide)
FALLBACK = {'NodeString': "every drawn and library tree: real node_to_string string vs the model's rendering", 'SymTab': 'every library line and sampled tree read back through BOTH real symbol tables vs the independent operator semantics (oracle_tree), itself tied to the Lean evaluator (treeval)'}
MODELLED = ["generator.py:node_to_string"]


def _arity_map(basis):
    m = {}
    for a, cls in enumerate(basis):
        for l in cls:
            m[l] = a
    return m


def _oracle_val(labels, basis, p):
    """value of the tree by the independent oracle; None where the oracle raises (a singular operation: the strict value
    of the tree does not exist there).  Malformed propagates."""
    try:
        return oracle_tree.eval_labels(labels, basis, p)
    except (ZeroDivisionError, OverflowError, ValueError):
        return None


def _tie_evaltree(ctx, items, where):
    """Lean `evalTreeWith` (the evaluator of the C02b theorems, run over Float by the driver op `treeval`) against
    oracle_tree on the same trees and points.  items: (labels, arities, env, oracle value | None if the oracle raised).
    Where the oracle returns a value: same finite/non-finite class, finite values equal to 1e-9 relative.  Where the
    oracle raises, IEEE arithmetic goes on with inf/nan (1/inf = 0 is finite again): counted, not compared."""
    st = ctx.extra.setdefault("evalTree_tie", dict(evaluations=0, compared_finite=0, both_nonfinite=0, oracle_raised=0,
                                                   oracle_raised_model_finite=0, mismatches=0, trees=0))
    if not items:
        return 0
    ops = ["treeval %s %s %s" % (",".join(l), "".join(str(a) for a in ar),
                                 ",".join("%s:%s" % (k, common.f2b(v)) for k, v in sorted(env.items())))
           for l, ar, env, _ in items]
    out = common.model(ops)
    bad = 0
    st["trees"] += len(set(tuple(i[0]) for i in items))
    for (labels, ar, env, t), o, m in zip(items, ops, out):
        st["evaluations"] += 1
        if not m.isdigit():
            bad += 1
            if bad <= 3:
                ctx.disagree("corr:evalTree", "%s: %s: model answers %r, oracle %r" % (where, o, m, t))
            continue
        v = common.b2f(m)
        if t is None:
            st["oracle_raised"] += 1
            st["oracle_raised_model_finite"] += int(math.isfinite(v))
            continue
        t = float(t)
        if math.isfinite(t) and math.isfinite(v):
            ok = abs(v - t) <= 1e-9 * max(abs(v), abs(t)) + 1e-12
            st["compared_finite"] += 1
        else:
            ok = (not math.isfinite(t)) and (not math.isfinite(v))
            st["both_nonfinite"] += int(ok)
        if not ok:
            bad += 1
            if bad <= 3:
                ctx.disagree("corr:evalTree", "%s: tree %r at %s: Lean evalTree %r, oracle_tree %r" % (
                    where, labels, {k: round(val, 6) for k, val in env.items()}, v, t))
    st["mismatches"] += bad
    return bad


def _point(ctx, nparam):
    return dict([("x", ctx.rng.uniform(0.3, 3.0))] + [("a%d" % k, ctx.rng.choice([-1, 1]) * ctx.rng.uniform(0.3, 3.0)) for k in range(nparam)])


def _corr_node_to_string(ctx, bases, nmax, per_shape):
    from esr.generation import generator as g
    ops, real, tie = [], [], []
    for name, b in bases:
        am = _arity_map(b)
        for n in range(1, nmax + 1):
            for s in g.get_allowed_shapes(n):
                s = [int(x) for x in s]
                _, _, tree = g.check_tree(np.array(s))
                for _ in range(per_shape):
                    labels = []
                    k = 0
                    for a in s:
                        l = ctx.rng.choice(b[a] + (["2", "-1", "10"] if a == 0 else []))
                        if l == "a":
                            l = "a%d" % k; k += 1
                        labels.append(l)
                    real.append(g.node_to_string(0, tree, labels))
                    ops.append("nodestr %s %s" % (",".join(labels), "".join(map(str, s))))
                    ctx.case(("n2s", tuple(labels)), nontrivial=n >= 2)
                    for _ in range(2):
                        p = _point(ctx, max(k, 1))
                        tie.append((labels, s, p, _oracle_val(labels, b, p)))
    tie_bad = _tie_evaltree(ctx, tie, "drawn trees")
    out = common.model(ops)
    bad = [(o, a, m) for o, a, m in zip(ops, real, out) if m != a + " 1"]
    for o, a, m in bad[:4]:
        ctx.disagree("corr:node_to_string", "%s: code=%s model=%s" % (o, a, m))
    if ops:
        ctx.sample(dict(op=ops[-1], code=real[-1], model=out[-1]))
    return len(ops), len(bad), tie_bad


def _tables(max_param):
    """the two real readings of a stored string: generation stage (sympy_locs + a_i) and fitting stage (run_sympify)"""
    import sympy
    from esr.fitting.sympy_symbols import sympy_locs
    import esr.fitting.likelihood as L
    locs = dict(sympy_locs)
    syms = [sympy.Symbol("a%d" % i, real=True) for i in range(max(max_param, 4))]
    for i, s in enumerate(syms):
        locs["a%d" % i] = s
    x = locs["x"]
    lik = object.__new__(L.Likelihood)

    def gen(s):
        return sympy.sympify(s, locals=locs)

    def fit(s):
        return L.Likelihood.run_sympify(lik, s)[1]
    return x, syms, gen, fit


def _finite(v):
    try:
        v = complex(v)
    except Exception:
        return False
    return math.isfinite(v.real) and math.isfinite(v.imag) and abs(v.imag) <= 1e-9 * max(1.0, abs(v.real))


def _check_library(ctx, runname, basis, libdir, n, max_lines):
    import sympy, warnings
    warnings.filterwarnings("ignore")
    trees = libgen.read_trees(libgen.libfile(libdir, n, "trees"))
    funs = libgen.read_funs(libgen.libfile(libdir, n, "all_equations"))
    rp = dict(kind="library", runname=runname, n=n)
    if len(trees) != len(funs):
        ctx.fail("misaligned:%s:n=%d" % (runname, n), "trees_%d.txt has %d lines, all_equations_%d.txt %d" % (n, len(trees), n, len(funs)), rp)
        return
    x, syms, gen, fit = _tables(4)
    idx = list(range(len(trees)))
    if len(idx) > max_lines:
        ctx.rng.shuffle(idx); idx = sorted(idx[:max_lines])
    pts = [dict([("x", ctx.rng.uniform(0.3, 3.0))] + [("a%d" % k, ctx.rng.choice([-1, 1]) * ctx.rng.uniform(0.3, 3.0)) for k in range(4)]) for _ in range(6)]
    stats = dict(lines=len(idx), compared=0, never_finite=0, unparsable=0)
    cache = {}
    tie = []
    with np.errstate(all="ignore"):
        for i in idx:
            labels, s = trees[i], funs[i]
            try:
                raw = [_oracle_val(labels, basis, p) for p in pts]
                tv = [float("nan") if t is None else t for t in raw]
                ar = [oracle_tree.arity(l, basis) for l in labels]
                tie += [(labels, ar, p, t) for p, t in list(zip(pts, raw))[:2]]
            except oracle_tree.Malformed as e:
                ctx.fail("malformed-tree:%s:n=%d" % (runname, n), "line %d of trees_%d.txt (%s) is not a tree over the basis: %r (%s)" % (i, n, runname, labels, e), dict(rp, line=i))
                continue
            ok = 0
            for tname, reader in (("generation", gen), ("fitting", fit)):
                key = (tname, s)
                if key not in cache:
                    try:
                        e = reader(s)
                        cache[key] = sympy.lambdify([x] + syms[:4], e, modules=["numpy"])
                    except Exception as ex:
                        cache[key] = None
                f = cache[key]
                if f is None:
                    stats["unparsable"] += 1
                    continue
                for p, t in zip(pts, tv):
                    try:
                        v = f(p["x"], p["a0"], p["a1"], p["a2"], p["a3"])
                    except Exception:
                        continue
                    if not (_finite(v) and _finite(t)):
                        continue
                    v = complex(v).real
                    ok += 1
                    if abs(v - t) > 1e-7 * max(1.0, abs(v), abs(t)):
                        ctx.fail("value:%s:n=%d:%s" % (runname, n, tname),
                                 "line %d of %s n=%d: tree %r evaluates to %.12g but the stored string %r read with the %s symbol table gives %.12g at %s" % (
                                     i, runname, n, labels, t, s, tname, v, {k: round(val, 4) for k, val in p.items()}), dict(rp, line=i))
                        break
            nontriv = len(labels) > 1 and ok > 0
            ctx.case((runname, n, i), nontrivial=nontriv)
            if ok:
                stats["compared"] += 1
            else:
                stats["never_finite"] += 1
    stats["evalTree_mismatches"] = _tie_evaltree(ctx, tie, "library %s n=%d" % (runname, n))
    ctx.extra.setdefault("libraries", []).append(dict(basis=runname, n=n, **stats))


def _sampled_trees(ctx, bases, count, nlo, nhi):
    """beyond the exhaustively generated libraries: PRNG-drawn trees of higher complexity pushed through the real
    tree -> node_to_string -> initial_sympify (sympify + ESRPrinter) chain, then read back with both symbol tables"""
    import sympy, warnings
    warnings.filterwarnings("ignore")
    from esr.generation import generator as g
    import esr.generation.simplifier as simp
    x, syms, gen, fit = _tables(4)
    shapes = {n: [[int(v) for v in s] for s in g.get_allowed_shapes(n)] for n in range(nlo, nhi + 1)}
    done = 0
    tie = []
    import io, contextlib
    with np.errstate(all="ignore"):
        while done < count:
            name, b = ctx.rng.choice(bases)
            n = ctx.rng.randint(nlo, nhi)
            s = ctx.rng.choice(shapes[n])
            labels, k = [], 0
            for a in s:
                l = ctx.rng.choice(b[a])
                if l == "a":
                    if k >= 3:
                        l = "x"
                    else:
                        l = "a%d" % k; k += 1
                labels.append(l)
            _, _, tree = g.check_tree(np.array(s))
            fstr = g.node_to_string(0, tree, labels)
            try:
                with contextlib.redirect_stdout(io.StringIO()):
                    out, _ = simp.initial_sympify([fstr], max(k, 1), parallel=False, verbose=False)
                stored = out[0]
            except Exception:
                continue
            done += 1
            pts = [dict([("x", ctx.rng.uniform(0.3, 3.0))] + [("a%d" % j, ctx.rng.choice([-1, 1]) * ctx.rng.uniform(0.3, 3.0)) for j in range(4)]) for _ in range(4)]
            tv = []
            for p in pts:
                try:
                    tv.append(oracle_tree.eval_labels(labels, b, p))
                except Exception:
                    tv.append(float("nan"))
            tie.append((labels, s, pts[0], _oracle_val(labels, b, pts[0])))
            ok = 0
            for tname, reader in (("generation", gen), ("fitting", fit)):
                try:
                    f = sympy.lambdify([x] + syms[:4], reader(stored), modules=["numpy"])
                except Exception:
                    continue
                for p, t in zip(pts, tv):
                    try:
                        v = f(p["x"], p["a0"], p["a1"], p["a2"], p["a3"])
                    except Exception:
                        continue
                    if not (_finite(v) and _finite(t)):
                        continue
                    ok += 1
                    v = complex(v).real
                    if abs(v - t) > 1e-7 * max(1.0, abs(v), abs(t)):
                        ctx.fail("value:sampled:%s:%s" % (name, tname), "tree %r (basis %s): node_to_string %r is stored as %r, which read with the %s symbol table gives %.12g, the tree gives %.12g at %s" % (
                            labels, name, fstr, stored, tname, v, t, {kk: round(val, 4) for kk, val in p.items()}), dict(kind="tree", labels=labels, basis=b, name=name))
                        break
            ctx.case(("sampled", name, tuple(labels)), nontrivial=ok > 0)
    ctx.extra["sampled_trees"] = done
    return _tie_evaltree(ctx, tie, "sampled trees n=%d..%d" % (nlo, nhi))


def run(ctx):
    drift = extract.drifted(ctx.proof.get("extract", {}), MODELLED)
    deep = not ctx.quick                 # thorough tier: largest libraries and sample counts
    mid = bool(drift) and not deep       # modelled source drifted: wider failing-input search, still minutes not hours
    ctx.extra["source_drift"] = drift
    from extractors import shape as shx
    shipped = [(n, b) for n, b, _ in shx.bases(ctx.stage)]
    user = [("user", [["x", "a"], ["cube", "sin", "inv", "sqrt_abs"], ["+", "*", "-", "/", "pow", "pow_abs"]])]
    n, b, tb = _corr_node_to_string(ctx, shipped + user, 6 if (deep or mid) else 5, 6 if (deep or mid) else 3)
    ctx.extra["corr_obligations"] = 2
    ctx.extra["correspondence"] = dict(node_to_string_ops=n, mismatches=b)
    plan = [("core_maths", 5), ("keep_duplicates", 4), ("base10_maths", 4)] if not (deep or mid) else \
           [("core_maths", 5), ("ext_maths", 4), ("keep_duplicates", 4), ("osc_maths", 4), ("base10_maths", 4), ("base_e_maths", 4)] if mid else \
           [("core_maths", 6), ("ext_maths", 5), ("keep_duplicates", 5), ("osc_maths", 5), ("base10_maths", 5), ("base_e_maths", 5)]
    bmap = dict(shipped)
    for rn, nmax in plan:
        r = libgen.generate(ctx, rn, list(range(1, nmax + 1)), P=(8 if deep else 1), copy="c02_%s" % rn, timeout=3000)
        if not r["ok"]:
            ctx.fail("generation-incomplete:%s" % rn, "generation of %s n<=%d did not complete: %s" % (rn, nmax, r["res"]["error"]), dict(kind="library", runname=rn, n=nmax))
            continue
        for k in range(1, nmax + 1):
            _check_library(ctx, rn, bmap[rn], r["dir"], k, 12000 if deep else 3000 if mid else 1500)
    _sampled_trees(ctx, shipped, 6000 if deep else 3000 if mid else 1200, 6, 9 if deep else 8)
    tie = ctx.extra.get("evalTree_tie", {})
    ctx.extra["corr_discharged"] = int(b == 0) + int(tie.get("mismatches", 1) == 0 and tie.get("compared_finite", 0) > 0)
    ctx.sample(dict(evalTree_tie=tie))
    ctx.sample(ctx.extra.get("libraries", [])[-3:])


def replay(ctx, data):
    rp = data["replay"]
    if rp.get("kind") == "tree":
        c2 = common.Ctx("C02", "quick", 0); c2.tmp = ctx.tmp; c2.stage = ctx.stage
        import numpy as _np
        from esr.generation import generator as g
        import esr.generation.simplifier as simp
        s = g.labels_to_shape(rp["labels"], rp["basis"])
        _, _, tree = g.check_tree(_np.array(s))
        fstr = g.node_to_string(0, tree, rp["labels"])
        stored = simp.initial_sympify([fstr], 3, parallel=False, verbose=False)[0][0]
        x, syms, gen, fit = _tables(4)
        import sympy
        bad = False
        for _ in range(6):
            p = dict([("x", c2.rng.uniform(0.3, 3.0))] + [("a%d" % j, c2.rng.choice([-1, 1]) * c2.rng.uniform(0.3, 3.0)) for j in range(4)])
            t = oracle_tree.eval_labels(rp["labels"], rp["basis"], p)
            for reader in (gen, fit):
                v = sympy.lambdify([x] + syms[:4], reader(stored), modules=["numpy"])(p["x"], p["a0"], p["a1"], p["a2"], p["a3"])
                if _finite(v) and _finite(t) and abs(complex(v).real - t) > 1e-7 * max(1.0, abs(t)):
                    print("tree", rp["labels"], "stored as", stored, ": string", v, "tree", t); bad = True
        return not bad
    from extractors import shape as shx
    bmap = {n: b for n, b, _ in shx.bases(ctx.stage)}
    c2 = common.Ctx("C02", "quick", 0); c2.tmp = ctx.tmp; c2.stage = ctx.stage
    r = libgen.generate(c2, rp["runname"], list(range(1, rp["n"] + 1)), P=1, copy="c02r")
    _check_library(c2, rp["runname"], bmap[rp["runname"]], r["dir"], rp["n"], 10 ** 9)
    for f in c2.failures[:5]:
        print(f["what"])
    return not c2.failures
