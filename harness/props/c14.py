"""C14 — work partitioning tiles the function list; fitting stages complete on any ranks."""
import os, types, itertools
import common, extract, mpirun, libgen, fitlib, stages_corr

LEAN_MODULE = ["ESRVerif.Props.C14", "ESRVerif.Props.C14b", "ESRVerif.Props.C14c"]
LEVEL = "proof"
RULE = ("(N,P,r) triples enumerated exhaustively up to the tier bound for split_idx and get_functions; "
        "non-trivial = P>=2 and N>=1; distinct by (function,N,P)")
LEVEL_TEXT = ("Lean theorems, unbounded in N and P (incl. P > N and N = 0): split_idx blocks are contiguous, in rank order, of numpy.array_split's "
              "sizes, empty exactly for surplus ranks, and concatenate to the list; get_functions' nLs loop terminates with nLs*(P-1) <= N and its "
              "slices concatenate to the file line for line, so per-rank outputs concatenated in rank order have one row per function in file order; "
              "a directory protocol using only exist_ok creation never raises for any rank count and ANY interleaving, creation by rank 0 alone "
              "never raises, while check-then-mkdir on every rank has a raising interleaving for P = 2. Which protocol the fitting stages use is "
              "regenerated from the source on every run and decided in Lean. Tie: exhaustive correspondence of the real split_idx/get_functions up to "
              "(N,P) = (300,40); the four real fitting stages under the multi-process stand-in for rank counts incl. P > N and 13 ranks (rank numbers >= 10 "
              "owning functions) with a row-alignment oracle; the Likelihood constructor under a forced start-up interleaving; the directory "
              "operations (isdir/mkdir/makedirs/Barrier) every rank really performs in Likelihood.__init__ and get_functions, traced from a fresh "
              "directory, against the regenerated protocol table, with a race oracle on the traced operations.")
TECHNIQUE = ("Lean 4 proof (arithmetic + list tiling + interleaving semantics of directory protocols) + regenerated protocols + exhaustive correspondence "
             "+ traced directory operations vs the protocol table + multi-rank stage runs")
EXPLANATION = ("Lean theorems (unbounded N,P) over the hand model of split_idx/get_functions and the directory "
               "protocol; model tied to the code by exhaustive correspondence up to the bound and by real multi-rank stage runs")
TRUSTED = ["hand model ESRVerif/Model/Partition.lean of split_idx and get_functions (tied by exhaustive correspondence up to the bound)",
           "int(np.ceil(N/float(P))) equals ceiling division for N < 2^53", "sort -V / cat / find of the shell",
           "DirProto translator normalisations (harness/extractors/dirproto.py + _norm_c14.py): N1 tests as conjunctions/disjunctions of literals "
           "(double negation, De Morgan, not a == b), facts in body / else / after a branch that always jumps; N2 rank-0 literals rank == 0, 0 == rank, "
           "not rank, rank < 1, rank <= 0 and negations (MPI ranks are non-negative ints); N3 substitution of single-assignment locals bound to pure "
           "expressions, tuple and chained assignment, remembered existence tests dropped at the rank's next creation; N4 literal indexing/len; "
           "N5 loops over literal tuples/lists (enumerate, zip, range) unrolled; N6 directory named by the attribute holding it; N7 one level of "
           "helper inlining (module function, same-class method, closure); N8 barrier-after with only inert statements in between",
           "each traced os.* / Barrier call is the outermost call made by ESR code in the phase (harness/workers/dir_trace.py wraps, never changes, the calls)"]
# Generated tables this property may fall back on when the translator cannot read today's source (ROBUSTIFY.md 2.)
FALLBACK = {"DirProto": "dynamic tie corr:dir-protocol: the os.path.isdir/exists, os.mkdir, os.makedirs and Barrier calls that every rank really makes in "
                        "Likelihood.__init__ and test_all.get_functions (workers/dir_trace.py, fresh directory, 1..5 ranks) equal, rank by rank and in order, "
                        "the operations the committed table lists (read back through the model executable), incl. rank-0-only and barrier-after; the traced run "
                        "is made under the forced all-test-before-any-creates interleaving and must complete on every rank (oracle), plus the forced constructor start-up"}
ASSUMPTIONS = ["atomic mkdir, no partial writes", "ranks are OS processes under the stand-in hub, not a real MPI progress engine"]
MODELLED = ["utils.py:split_idx", "test_all.py:get_functions", "likelihood.py:Likelihood.__init__", "test_all.py:main", "test_all_Fisher.py:main", "test_all_Fisher.py:load_loglike"]


def _corr_split(ctx, Nmax, Pmax):
    import numpy as np
    from esr.generation import utils
    ops, real = [], []
    for N in range(0, Nmax + 1):
        for P in range(1, Pmax + 1):
            blocks = []
            for r in range(P):
                i = utils.split_idx(N, r, P)
                real.append("none" if len(i) == 0 else "%d %d" % (int(i[0]), int(i[1])))
                ops.append("split %d %d %d" % (N, P, r))
                blocks.append(list(range(int(i[0]), int(i[1]) + 1)) if len(i) else [])
            ctx.case(("split", N, P), nontrivial=(P >= 2 and N >= 1), n=P)
            # oracle: the property itself, on the real code
            if sum(blocks, []) != list(range(N)):
                ctx.fail("split_idx:N=%d,P=%d" % (N, P), "split_idx blocks of N=%d over P=%d ranks do not tile 0..N-1: %r" % (N, P, blocks),
                         dict(kind="split_idx", N=N, P=P))
            ref = [list(a) for a in np.array_split(np.arange(N), P)]
            if ref != blocks:
                ctx.fail("split_idx-vs-array_split:N=%d,P=%d" % (N, P), "split_idx differs from numpy.array_split: %r vs %r" % (blocks, ref),
                         dict(kind="split_idx", N=N, P=P))
    out = common.model(ops)
    bad = [(o, a, b) for o, a, b in zip(ops, real, out) if a != b]
    for o, a, b in bad[:5]:
        ctx.disagree("corr:split_idx", "%s: code=%s model=%s" % (o, a, b))
    ctx.sample(dict(op=ops[len(ops) // 2], code=real[len(ops) // 2], model=out[len(ops) // 2]))
    return len(ops), len(bad)


def _corr_getfun(ctx, Nmax, Pmax):
    import esr.fitting.test_all as ta
    d = os.path.join(ctx.tmp, "gf")
    os.makedirs(os.path.join(d, "fn", "compl_1"), exist_ok=True)
    lik = types.SimpleNamespace(fn_dir=os.path.join(d, "fn"), base_out_dir=os.path.join(d, "out"),
                                out_dir=os.path.join(d, "out", "o"), temp_dir=os.path.join(d, "out", "t"))
    ops, real = [], []
    save = (ta.rank, ta.size)
    import io, contextlib
    try:
        for N in range(0, Nmax + 1):
            lines = ["f%d\n" % k for k in range(N)]
            with open(os.path.join(lik.fn_dir, "compl_1", "unique_equations_1.txt"), "w") as fh:
                fh.writelines(lines)
            for P in range(1, Pmax + 1):
                got = []
                for r in range(P):
                    ta.rank, ta.size = r, P
                    with contextlib.redirect_stdout(io.StringIO()):
                        sl, a, b = ta.get_functions(1, lik)
                    got.append(sl)
                    first = "-" if not sl else sl[0].strip()[1:]
                    real.append("%d %d %s %d" % (a, b, first, len(sl)))
                    ops.append("getfun %d %d %d" % (N, P, r))
                ctx.case(("getfun", N, P), nontrivial=(P >= 2 and N >= 1), n=P)
                if sum(got, []) != lines:
                    ctx.fail("get_functions:N=%d,P=%d" % (N, P),
                             "get_functions slices of N=%d lines over P=%d ranks do not concatenate to the file (sizes %r)" % (N, P, [len(g) for g in got]),
                             dict(kind="get_functions", N=N, P=P))
    finally:
        ta.rank, ta.size = save
    out = common.model(ops)
    bad = [(o, a, b) for o, a, b in zip(ops, real, out) if a != b]
    for o, a, b in bad[:5]:
        ctx.disagree("corr:get_functions", "%s: code=%s model=%s" % (o, a, b))
    ctx.sample(dict(op=ops[-3], code=real[-3], model=out[-3]))
    return len(ops), len(bad)


def _constructor_start(ctx, Ps):
    """the Likelihood constructor with data_dir given, from a fresh directory, under the forced interleaving
    (all ranks look before any creates) and free-running"""
    n = 0
    for P in Ps:
        for mode in ("forced", "free"):
            dd = os.path.join(ctx.tmp, "lk_%d_%s" % (P, mode))
            os.makedirs(dd)
            sd = dd + "_sync"; os.makedirs(sd)
            r = mpirun.run(P, [os.path.join(common.HARNESS, "workers", "lik_init.py"), dd, sd, mode], timeout=60,
                           env_extra=ctx.env(), cwd=ctx.stage, python=common.PY)
            n += 1
            ctx.case(("ctor", P, mode), nontrivial=P >= 2)
            if not r["ok"]:
                tail = ""
                for f in r["stdout"]:
                    t = open(f).read()
                    if "Error" in t:
                        tail = t.strip().splitlines()[-1]; break
                ctx.fail("likelihood-constructor:start-up-race:%s" % mode,
                         "constructing Likelihood(data_dir=<fresh dir>) on %d ranks (%s start-up interleaving: every rank passes its existence test before any creates) "
                         "does not complete on every rank: exit codes %s: %s" % (P, mode, r["exit_codes"], tail),
                         dict(kind="ctor", P=P, mode=mode))
            import shutil
            shutil.rmtree(r.get("tmp", ""), ignore_errors=True)
    return n


PHASE_OF = {"likelihood.Likelihood.__init__": "ctor", "test_all.get_functions": "getfun"}


def _trace_run(ctx, P, mode="free", force=None, tag=""):
    """one run of workers/dir_trace.py on P ranks from a fresh data directory -> (mpirun result, [per-rank trace dict])"""
    import json, shutil
    base = os.path.join(ctx.tmp, "dt_%d_%s%s" % (P, mode, tag))
    shutil.rmtree(base, ignore_errors=True)
    dd, fn, od = os.path.join(base, "data"), os.path.join(base, "fn"), os.path.join(base, "out")
    os.makedirs(dd); os.makedirs(os.path.join(fn, "compl_1")); os.makedirs(od)
    with open(os.path.join(fn, "compl_1", "unique_equations_1.txt"), "w") as fh:
        fh.writelines("f%d\n" % k for k in range(5))
    argv = [os.path.join(common.HARNESS, "workers", "dir_trace.py"), dd, fn, od, mode] + ([force] if force else [])
    r = mpirun.run(P, argv, timeout=60, env_extra=ctx.env(), cwd=ctx.stage, python=common.PY)
    traces = []
    for k in range(P):
        f = os.path.join(od, "trace_%d.json" % k)
        traces.append(json.load(open(f)) if os.path.exists(f) else None)
    errs = ["rank %d: %s" % (k, t["error"]) for k, t in enumerate(traces) if t and t["error"]]
    own = [e for e in errs if "_HubError" not in e]          # the rank that failed, not the ranks left waiting for it
    tail = "; ".join((own or errs)[:2])[:400]
    r["tail"] = tail
    shutil.rmtree(r.get("tmp", ""), ignore_errors=True)
    return r, traces


def _creations(events):
    """creation calls of one rank in one phase, each classified by what the rank itself did before it:
    ('checkMkdir', path)       os.mkdir / os.makedirs(exist_ok=False) after the rank's own isdir/exists test of the path said False
    ('mkdirUnchecked', path)   the same without such a test
    ('makedirsExistOk', path)  os.makedirs(path, exist_ok=True)
    ('barrier', '')            communicator barrier"""
    ops, checked = [], {}
    for _, op, path, eo, res in events:
        if op in ("isdir", "exists"):
            checked[path] = res
        elif op == "barrier":
            ops.append(("barrier", ""))
        elif op == "makedirs" and eo:
            ops.append(("makedirsExistOk", path)); checked = {}
        elif op in ("mkdir", "makedirs"):
            ops.append(("checkMkdir" if checked.get(path) == "False" else "mkdirUnchecked", path)); checked = {}
    return ops


def _matches_table(steps, ev):
    """do the directory events of one rank (('check'|'mkdir'|'makedirsExistOk', dir number, result), in order) follow the
    table's steps for that rank?  Existence tests have no effect and may occur anywhere; a step's creation is skipped
    when the rank's own test of its directory (since the rank's previous creation) said it is there - that is what
    `if not isdir(d):` means for either kind; a checkMkdir creation must follow such a test that said False."""
    i = 0
    for kind, d in steps:
        j, seen = i, {}
        while j < len(ev) and ev[j][0] == "check":
            seen[ev[j][1]] = ev[j][2]; j += 1
        if j < len(ev) and ev[j][1] == d and ev[j][0] == ("mkdir" if kind == "checkMkdir" else "makedirsExistOk") \
                and (kind != "checkMkdir" or seen.get(d) == "False"):
            i = j + 1
        elif seen.get(d) == "True":
            i = max(t for t in range(i, j) if ev[t][1] == d) + 1
        else:
            return False
    return all(e[0] == "check" for e in ev[i:])


def _dir_protocol(ctx, Ps):
    """Tie of Generated/DirProto.lean to the running code, and the race oracle on the real operations.

    correspondence: the directory operations every rank really performs in Likelihood.__init__ / get_functions (traced
    os.path.isdir / os.mkdir / os.makedirs / Barrier calls, fresh directory) are the ones the table of the model
    executable lists for that rank, in that order, and a barrier follows where the table says so.
    oracle (independent of table and model): a directory that some rank creates with a raising primitive is created
    by that rank alone and every rank passes a barrier after it; the whole traced run is made under the start-up
    interleaving "all ranks test a directory before any creates it" and must complete on every rank."""
    protos = []
    for i in range(64):
        lines = common.model(["dirproto %d %d" % (i, r) for r in range(max(Ps))])
        if lines[0] == "none":
            break
        protos.append([ln.split() for ln in lines])
    bad = 0
    unexercised = [p[0][0] for p in protos if p[0][0] not in PHASE_OF]
    for nm in unexercised:
        bad += 1
        ctx.disagree("corr:dir-protocol", "protocol %s of the table is not exercised by the traced run" % nm)
    n = 0
    for P in Ps:
        # traced under the adversarial start-up interleaving (every rank passes its existence test of a directory before
        # any rank creates it, wherever the code allows that): what each rank does is then independent of timing
        r, traces = _trace_run(ctx, P, "forced", "*")
        n += 1
        ctx.case(("dirtrace", P), nontrivial=P >= 2, n=P)
        rp = dict(kind="dirtrace", P=P, mode="forced", force="*")
        if not r["ok"] or any(t is None or t["error"] or t["missing"] for t in traces):
            miss = sorted({os.path.basename(os.path.normpath(m)) for t in traces if t for m in t["missing"]})
            ctx.fail("dir-setup-incomplete:P=%d" % P, "Likelihood(data_dir=<fresh dir>) + get_functions on %d ranks, under the start-up interleaving in which every rank "
                     "passes its existence test of a directory before any rank creates it, do not complete on every rank with all "
                     "output directories present when get_functions returns: exit codes %s %s %s%s" % (
                         P, r["exit_codes"], r["error"] or "", r["tail"], (" missing on some rank at return: %s" % miss) if miss else ""), rp)
            continue
        for phase in ("ctor", "getfun"):
            per = [_creations([e for e in t["trace"] if e[0] == phase]) for t in traces]
            created = {d for ops in per for k, d in ops if k != "barrier"}
            # events on the directories somebody creates in this phase, numbered by first appearance (rank 0 first)
            num, evs = {}, []
            for t in traces:
                ev = []
                for _, op, path, eo, res in [e for e in t["trace"] if e[0] == phase]:
                    if path in created and op != "barrier":
                        num.setdefault(path, len(num))
                        ev.append(("check", str(num[path]), res) if op in ("isdir", "exists") else
                                  ("makedirsExistOk" if (op == "makedirs" and eo) else "mkdir", str(num[path]), res))
                evs.append(ev)
            # -- correspondence with the table (through the model executable) --
            for pr in [p for p in protos if PHASE_OF.get(p[0][0]) == phase]:
                for rk in range(P):
                    name, r0, barrier = pr[rk][0], pr[rk][1] == "1", pr[rk][2] == "1"
                    want = [tuple(x.split(":")) for x in pr[rk][3:]]
                    got = ["%s:%s%s" % (k, d, "=" + res if k == "check" else "") for k, d, res in evs[rk]]
                    okb = True
                    if barrier:
                        last = max([i for i, (k, d) in enumerate(per[rk]) if k != "barrier"], default=-1)
                        okb = any(k == "barrier" for k, d in per[rk][last + 1:])
                    if not _matches_table(want, evs[rk]) or not okb:
                        bad += 1
                        ctx.disagree("corr:dir-protocol", "%s, P=%d, rank %d: code does %s%s, table says %s%s" % (
                            name, P, rk, got, "" if okb else " (no barrier afterwards)", [":".join(w) for w in want], " then barrier" if barrier else ""))
            if not [p for p in protos if PHASE_OF.get(p[0][0]) == phase] and created:
                bad += 1
                ctx.disagree("corr:dir-protocol", "phase %s creates directories but the table has no protocol for it" % phase)
            # -- oracle on the real operations (independent of table and model) --
            # Several ranks creating the same directory with a raising primitive have just done so under the adversarial
            # interleaving and all completed (else the run failed above).  What that interleaving cannot show is a single
            # creating rank that the others do not wait for: they would use the directory before it exists.
            if P >= 2:
                for d in sorted(created, key=lambda x: num[x]):
                    creators = [rk for rk in range(P) if any(dd == d and k != "barrier" for k, dd in per[rk])]
                    if len(creators) != 1:
                        continue
                    c = creators[0]
                    last = max(i for i, (k, dd) in enumerate(per[c]) if dd == d)
                    if not (any(k == "barrier" for k, dd in per[c][last + 1:]) and all(any(k == "barrier" for k, dd in per[rk]) for rk in range(P))):
                        ctx.disagree("oracle:dir-race", "directory %s (phase %s, P=%d) is created by rank %d alone and the ranks do not meet at a barrier "
                                     "after it before %s returns: another rank can use it before it exists" % (d, phase, P, c, phase))
        if P == max(Ps):
            ctx.sample(dict(dir_protocol_trace=dict(P=P, rank0=[list(x) for x in _creations(traces[0]["trace"])],
                                                    rank1=[list(x) for x in _creations(traces[1]["trace"])] if P > 1 else None)))
    ctx.extra["dir_protocol"] = dict(table=[" ".join(p[0]) for p in protos], traced_rank_counts=list(Ps), mismatches=bad)
    return n, bad


def _pipeline_rows(ctx, Ps, comp):
    """the four fitting stages under P ranks: one row per function, row i refers to function i"""
    import numpy as np
    lib = libgen.generate(ctx, "core_maths", list(range(1, comp + 1)), P=1, copy="c14_fit%d" % comp)
    if not lib["ok"]:
        ctx.disagree("pipeline:generation", "could not generate the library for the stage runs: %s" % lib["res"]["error"])
        return 0
    dd = os.path.join(ctx.tmp, "c14_data%d" % comp); os.makedirs(dd, exist_ok=True)
    rs = np.random.default_rng(ctx.seed)
    x = np.linspace(0.5, 3, 25); s = np.full(25, 0.2); y = 1.5 * x + 0.7 + rs.normal(0, 0.2, 25)
    fitlib.write_data(os.path.join(dd, "d.txt"), x, y, s)
    nuniq = len(libgen.read_lines(libgen.libfile(lib["dir"], comp, "unique_equations")))
    nall = len(libgen.read_lines(libgen.libfile(lib["dir"], comp, "all_equations")))
    uniq = libgen.read_funs(libgen.libfile(lib["dir"], comp, "unique_equations"))
    ref = None
    n = 0
    for P in Ps:
        r = fitlib.run_pipeline(ctx, lib["copy"], "core_maths", comp, dd, "d.txt", "c14P%d" % P, P=P, seed=ctx.seed, timeout=600)
        n += 1
        ctx.case(("pipeline", comp, P), nontrivial=P >= 2)
        rp = dict(kind="pipeline", comp=comp, P=P)
        if not r["ok"]:
            ctx.fail("fitting-stage-incomplete:P=%d" % P, "fitting stages of core_maths n=%d on %d ranks (N=%d unique functions) do not complete on every rank: %s %s %s" % (
                comp, P, nuniq, r["res"]["error"], r["res"]["exit_codes"], fitlib.traceback_tail(r)), rp)
            continue
        rows = {}
        for name, want in (("negloglike_comp%d.dat" % comp, nuniq), ("codelen_comp%d_deriv.dat" % comp, nuniq), ("derivs_comp%d.dat" % comp, nuniq),
                           ("codelen_matches_comp%d.dat" % comp, nall)):
            a = np.atleast_2d(np.loadtxt(os.path.join(r["out_dir"], name)))
            rows[name] = a
            if a.shape[0] != want:
                ctx.fail("stage-rows:%s:P=%d" % (name.split("_comp")[0], P), "%s written by %d ranks has %d rows for %d functions" % (name, P, a.shape[0], want), rp)
        left = os.listdir(r["temp_dir"]) if os.path.isdir(r["temp_dir"]) else []
        # row i refers to function i: the likelihood of unique i at the parameters of row i is the reported value
        nl = rows["negloglike_comp%d.dat" % comp]
        if nl.shape[0] == nuniq:
            import esr.fitting.likelihood as L
            lik = object.__new__(L.GaussLikelihood); lik.xvar, lik.yvar, lik.yerr = x, y, s
            import sympy
            bad = 0
            for i in range(nuniq):
                if not np.isfinite(nl[i, 0]):
                    continue
                try:
                    fcn, eq, _ = L.Likelihood.run_sympify(lik, uniq[i])
                    k = len([p for p in ("a0", "a1", "a2", "a3") if p in fcn])
                    syms = [sympy.Symbol("x", positive=True)] + [sympy.Symbol("a%d" % j, real=True) for j in range(k)]
                    f = sympy.lambdify(syms, eq, modules=["numpy"])
                    v = lik.negloglike(list(nl[i, 1:1 + k]), f) if k else lik.negloglike([], f)
                except Exception:
                    continue
                if np.isfinite(v) and abs(v - nl[i, 0]) > 1e-4 * max(1.0, abs(v)):
                    bad += 1
                    if bad <= 2:
                        ctx.fail("row-misaligned:negloglike:P=%d" % P, "negloglike row %d (P=%d) reports %.7g but function %d (%s) at the row's parameters gives %.7g" % (i, P, nl[i, 0], i, uniq[i], v), rp)
        # the Fisher stage's row i carries function i's parameters (zeros where snapped)
        cd = rows["codelen_comp%d_deriv.dat" % comp]
        if cd.shape[0] == nuniq and nl.shape[0] == nuniq:
            for i in range(nuniq):
                if not np.isfinite(cd[i, 0]) or not np.isfinite(nl[i, 0]):
                    continue
                a, b = cd[i, 2:], nl[i, 1:]
                m = a != 0
                if m.any() and not np.allclose(a[m], b[m], rtol=1e-5, atol=1e-12):
                    ctx.fail("row-misaligned:codelen:P=%d" % P, "codelen row %d (P=%d) carries parameters %s but function %d was fitted with %s" % (i, P, list(a), i, list(b)), rp)
                    break
        # match index column must point at the unique function recorded in the library
        cm = rows["codelen_matches_comp%d.dat" % comp]
        matches = [int(float(t)) for t in libgen.read_lines(libgen.libfile(lib["dir"], comp, "matches")) if t.strip()]
        if cm.shape[0] == nall and [int(t) for t in cm[:, 2]] != matches:
            ctx.fail("row-misaligned:codelen_matches:P=%d" % P, "codelen_matches rows written by %d ranks are not in function order (index column differs from matches file)" % P, rp)
        if ref is None:
            ref = {k: v.shape for k, v in rows.items()}
        ctx.sample(dict(pipeline="core_maths n=%d" % comp, P=P, rows={k: int(v.shape[0]) for k, v in rows.items()}, leftover_temp=left[:3], wall_s=round(r["wall_s"], 1)))
    return n


def _tiny_pipelines(ctx, Ps):
    """libraries with ONE function (one-row stage files: F16) and with one unique of two functions: all four stages, 1 and several ranks"""
    import numpy as np, json
    n = 0
    for tag, basis, comp in (("u1", [["x"], [ctx.rng.choice(["inv", "exp"])], ["+"]], 1), ("a1", [["a"], [], [ctx.rng.choice(["-", "/"])]], 3),
                             # N = 0: a basis without unary operators has no tree of even complexity; generation completes and
                             # writes an EMPTY library, which the property's "any N >= 0" covers (F18)
                             ("e0", [["x", "a"], [], [ctx.rng.choice(["+", "*"]), "-"]], 2)):
        lib = libgen.generate(ctx, "verif_c14%s" % tag, [comp], P=1, basis=basis, copy="c14_tiny_%s" % tag)
        if not lib["ok"]:
            ctx.disagree("pipeline:generation", "could not generate the single-function library %r: %s" % (basis, lib["res"]["error"]))
            continue
        nuniq = len(libgen.read_lines(libgen.libfile(lib["dir"], comp, "unique_equations")))
        nall = len(libgen.read_lines(libgen.libfile(lib["dir"], comp, "all_equations")))
        dd = os.path.join(ctx.tmp, "c14_tiny_data_%s" % tag); os.makedirs(dd, exist_ok=True)
        x = np.linspace(0.5, 3, 25); s = np.full(25, 0.2); y = 1.5 * x + 0.7
        fitlib.write_data(os.path.join(dd, "d.txt"), x, y, s)
        for P in Ps:
            r = fitlib.run_pipeline(ctx, lib["copy"], "verif_c14%s" % tag, comp, dd, "d.txt", "tiny%s%d" % (tag, P), P=P, seed=ctx.seed, timeout=300,
                                    env_extra={"ESR_VERIF_BASIS": json.dumps(basis)})
            n += 1
            ctx.case(("tiny-pipeline", tag, P), nontrivial=True)
            rp = dict(kind="tiny", P=P, tag=tag, basis=basis, comp=comp)
            if not r["ok"] and nall == 0:
                ctx.fail("fitting-stage-incomplete:empty-library:P=%d" % P, "fitting stages on the EMPTY library that generation writes for basis %r at complexity %d "
                         "(no tree of that complexity exists; N = 0) on %d ranks do not complete on every rank: %s %s %s" % (
                             basis, comp, P, r["res"]["error"], r["res"]["exit_codes"], fitlib.traceback_tail(r)), rp)
                continue
            if not r["ok"]:
                ctx.fail("fitting-stage-incomplete:single-function:P=%d" % P, "fitting stages on a library with %d unique / %d functions (basis %r, n=%d) on %d ranks do not complete "
                         "on every rank: %s %s %s" % (nuniq, nall, basis, comp, P, r["res"]["error"], r["res"]["exit_codes"], fitlib.traceback_tail(r)), rp)
                continue
            for name, want in (("negloglike_comp%d.dat" % comp, nuniq), ("codelen_comp%d_deriv.dat" % comp, nuniq), ("derivs_comp%d.dat" % comp, nuniq),
                               ("codelen_matches_comp%d.dat" % comp, nall)):
                a = np.atleast_2d(np.loadtxt(os.path.join(r["out_dir"], name)))
                if a.size == 0:
                    a = a.reshape(0, 1)
                if a.shape[0] != want:
                    ctx.fail("stage-rows:%s:single-function:P=%d" % (name.split("_comp")[0], P), "%s written by %d ranks has %d rows for %d functions" % (name, P, a.shape[0], want), rp)
            fin = [l for l in open(os.path.join(r["out_dir"], "final_%d.dat" % comp)).read().splitlines() if l.strip()]
            if len(fin) > nuniq:
                ctx.fail("stage-rows:final:single-function:P=%d" % P, "final_%d.dat has %d rows for %d unique functions" % (comp, len(fin), nuniq), rp)
    return n


def run(ctx):
    drift = extract.drifted(ctx.proof.get("extract", {}), MODELLED)
    deep = (not ctx.quick) or bool(drift)
    ctx.extra["source_drift"] = drift
    n1, b1 = _corr_split(ctx, 300 if deep else 150, 40 if deep else 24)
    n2, b2 = _corr_getfun(ctx, 120 if deep else 48, 40 if deep else 20)
    n3 = _constructor_start(ctx, [2, 3, 5] if deep else [2, 4])
    n5, b5 = _dir_protocol(ctx, [1, 2, 3, 5] if deep else [3])
    # n=3: 14 unique / 24 functions (P > N cases); n=4: 24 unique / 64 functions, where with 11+ ranks several ranks
    # numbered >= 10 own functions, so the ORDER in which the per-rank files are concatenated is observable
    n4 = _pipeline_rows(ctx, [1, 2, 3, 5, 16, 29] if deep else [1, 3, 17], 3)
    n4 += _pipeline_rows(ctx, [12, 13, 23] if deep else [13], 4)
    n4 += _tiny_pipelines(ctx, [1, 3])
    # the loops of test_all.main / test_all_Fisher.main with scripted per-function routines (returns, NameError, other exceptions,
    # malformed results, nan/inf likelihoods), N from 1 to beyond the rank count, against Model/Stages.lean + row-alignment oracle
    n6, b6 = stages_corr.run(ctx, 120 if deep else 36, [1, 2, 3, 5, 8, 13] if deep else [1, 3, 7], 40 if deep else 12)
    ctx.extra["runs"] = dict(constructor_startups=n3, pipelines=n4, dir_traces=n5, scripted_stage_jobs=n6)
    ctx.extra["corr_obligations"] = 4
    ctx.extra["corr_discharged"] = int(b1 == 0) + int(b2 == 0) + int(b5 == 0) + int(b6 == 0)
    ctx.extra["correspondence"] = dict(split_idx_ops=n1, split_idx_mismatch=b1, get_functions_ops=n2, get_functions_mismatch=b2,
                                       dir_protocol_runs=n5, dir_protocol_mismatch=b5, stage_driver_ops=n6, stage_driver_mismatch=b6)
    ctx.extra["exhaustive"] = True


def replay(ctx, data):
    rp = data["replay"]
    import numpy as np
    if rp["kind"] == "split_idx":
        from esr.generation import utils
        N, P = rp["N"], rp["P"]
        blocks = []
        for r in range(P):
            i = utils.split_idx(N, r, P)
            blocks += list(range(int(i[0]), int(i[1]) + 1)) if len(i) else []
        print("split_idx blocks N=%d P=%d ->" % (N, P), blocks)
        return blocks == list(range(N))
    if rp["kind"] == "ctor":
        c2 = common.Ctx("C14", "quick", 0); c2.tmp = ctx.tmp; c2.stage = ctx.stage
        _constructor_start(c2, [rp["P"]])
        for f in c2.failures:
            print(f["what"])
        return not c2.failures
    if rp["kind"] == "pipeline":
        c2 = common.Ctx("C14", "quick", 0); c2.tmp = ctx.tmp; c2.stage = ctx.stage
        _pipeline_rows(c2, [rp["P"]], rp["comp"])
        for f in c2.failures:
            print(f["what"])
        return not c2.failures
    if rp["kind"] == "tiny":
        c2 = common.Ctx("C14", "quick", 0); c2.tmp = ctx.tmp; c2.stage = ctx.stage; c2.rng = ctx.rng
        _tiny_pipelines(c2, [rp["P"]])
        # only the library this replay is about (older replay files carry no tag: the single-function libraries)
        fl = [f for f in c2.failures if (f["replay"].get("tag") == rp["tag"] if "tag" in rp else f["replay"].get("tag") != "e0")]
        for f in fl:
            print(f["what"])
        return not fl
    if rp["kind"] == "stage":
        return stages_corr.replay(ctx, rp)
    if rp["kind"] == "dirtrace":
        r, traces = _trace_run(ctx, rp["P"], rp["mode"], rp["force"], tag="_replay")
        bad = (not r["ok"]) or any(t is None or t["error"] or t["missing"] for t in traces)
        print("set-up on %d ranks (%s): exit codes %s %s %s" % (rp["P"], rp["mode"], r["exit_codes"], r["error"] or "", r["tail"]))
        return not bad
    if rp["kind"] == "get_functions":
        c2 = common.Ctx("C14", "quick", 0); c2.tmp = ctx.tmp; c2.stage = ctx.stage
        _corr_getfun(c2, rp["N"], rp["P"])
        return not [f for f in c2.failures if f["replay"] == rp]
    return True
